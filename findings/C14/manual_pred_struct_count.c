#include <stdio.h>
#include <stdlib.h>
#include <string.h>
#include "EbSvtAv1Enc.h"
int main(int argc, char **argv) {
    EbComponentType *h = NULL; EbSvtAv1EncConfiguration cfg;
    if (svt_av1_enc_init_handle(&h, NULL, &cfg)) return 2;
    cfg.source_width = 128; cfg.source_height = 128;
    cfg.enable_manual_pred_struct = 1;
    cfg.manual_pred_struct_entry_num = argc > 1 ? atoi(argv[1]) : 0;
    for (int i = 0; i < 32; i++) { memset(&cfg.pred_struct[i], 0, sizeof(cfg.pred_struct[i])); cfg.pred_struct[i].decode_order = i; cfg.pred_struct[i].ref_list0[0] = 1; cfg.pred_struct[i].ref_list1[0] = 1; }
    EbErrorType r = svt_av1_enc_set_parameter(h, &cfg);
    fprintf(stderr, "set_parameter returned %x\n", r);
    svt_av1_enc_deinit_handle(h);
    return 0;
}
