#include <stdio.h>
#include <stdlib.h>
#include <string.h>
#include <unistd.h>
#include <signal.h>
#include "EbSvtAv1Enc.h"
static void on_alarm(int s) { (void)s; fprintf(stderr, "TIMEOUT: deinit_handle did not return within 20 s\n"); _exit(3); }
int main(int argc, char **argv) {
    int with_deinit = argc > 1 && !strcmp(argv[1], "deinit");
    EbComponentType *h = NULL; EbSvtAv1EncConfiguration cfg;
    if (svt_av1_enc_init_handle(&h, NULL, &cfg)) return 2;
    cfg.source_width = 64; cfg.source_height = 64; cfg.enc_mode = 8; cfg.logical_processors = 2;
    if (svt_av1_enc_set_parameter(h, &cfg)) return 2;
    if (svt_av1_enc_init(h)) return 2;
    signal(SIGALRM, on_alarm); alarm(20);
    if (with_deinit) svt_av1_enc_deinit(h);
    EbErrorType r = svt_av1_enc_deinit_handle(h);
    fprintf(stderr, "deinit_handle returned %x\n", r);
    return 0;
}
