#include <stdio.h>
#include <stdlib.h>
#include <string.h>
#include "EbSvtAv1Dec.h"
int main(int argc, char **argv) {
    EbComponentType *h = NULL; EbSvtAv1DecConfiguration cfg;
    FILE *f = fopen(argv[1], "rb"); static uint8_t buf[1 << 20]; size_t n = fread(buf, 1, sizeof(buf), f); fclose(f);
    printf("init_handle -> 0x%x\n", (unsigned)svt_av1_dec_init_handle(&h, NULL, &cfg));
    cfg.threads = 0;
    EbErrorType e = svt_av1_dec_set_parameter(h, &cfg);
    printf("set_parameter(threads=0) -> 0x%x\n", (unsigned)e);
    if (e != EB_ErrorNone) { cfg.threads = 1; printf("set_parameter(threads=1) -> 0x%x\n", (unsigned)svt_av1_dec_set_parameter(h, &cfg)); }
    printf("init -> 0x%x\n", (unsigned)svt_av1_dec_init(h)); fflush(stdout);
    /* first IVF frame */
    uint32_t sz = buf[32] | buf[33] << 8 | buf[34] << 16 | buf[35] << 24;
    printf("dec_frame -> 0x%x\n", (unsigned)svt_av1_dec_frame(h, buf + 44, sz, 0)); fflush(stdout);
    printf("deinit -> 0x%x\n", (unsigned)svt_av1_dec_deinit(h));
    printf("deinit_handle -> 0x%x\n", (unsigned)svt_av1_dec_deinit_handle(h));
    return 0;
}
