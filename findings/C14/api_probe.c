// probe of unusual-but-legal API call sequences; each case runs in a forked child with a timeout
#include <stdio.h>
#include <stdlib.h>
#include <string.h>
#include <unistd.h>
#include <signal.h>
#include <sys/wait.h>
#include "EbSvtAv1Enc.h"
#include "EbSvtAv1Dec.h"

#define W 64
#define H 64

static void base_cfg(EbSvtAv1EncConfiguration *c) {
    c->source_width = W; c->source_height = H;
    c->enc_mode = 8;
    c->frame_rate = 30;
    c->logical_processors = 2;
    c->intra_period_length = 7;
}

static EbBufferHeaderType *mk_in(EbSvtIOFormat *io, uint8_t *buf) {
    static EbBufferHeaderType hdr;
    memset(&hdr, 0, sizeof(hdr));
    memset(io, 0, sizeof(*io));
    io->luma = buf; io->cb = buf + W * H; io->cr = buf + W * H * 5 / 4;
    io->y_stride = W; io->cb_stride = W / 2; io->cr_stride = W / 2;
    io->width = W; io->height = H; io->color_fmt = EB_YUV420; io->bit_depth = EB_EIGHT_BIT;
    hdr.size = sizeof(hdr);
    hdr.p_buffer = (uint8_t *)io;
    hdr.n_filled_len = W * H * 3 / 2;
    hdr.pic_type = EB_AV1_INVALID_PICTURE;
    return &hdr;
}

typedef int (*case_fn)(void);

#define CK(x) do { EbErrorType e_ = (x); printf("   [%ld] %s -> 0x%x\n", (long)time(NULL) % 1000, #x, (unsigned)e_); fflush(stdout);} while (0)

static int e_null_handles(void) {
    EbSvtAv1EncConfiguration cfg;
    EbBufferHeaderType *p = NULL; EbBufferHeaderType b; memset(&b, 0, sizeof(b));
    CK(svt_av1_enc_init_handle(NULL, NULL, &cfg));
    CK(svt_av1_enc_set_parameter(NULL, &cfg));
    CK(svt_av1_enc_init(NULL));
    CK(svt_av1_enc_stream_header(NULL, &p));
    CK(svt_av1_enc_stream_header_release(NULL));
    CK(svt_av1_enc_eos_nal(NULL, NULL));
    CK(svt_av1_enc_send_picture(NULL, &b));
    CK(svt_av1_enc_get_packet(NULL, &p, 0));
    svt_av1_enc_release_out_buffer(NULL);
    p = NULL; svt_av1_enc_release_out_buffer(&p);
    CK(svt_av1_get_recon(NULL, &b));
    CK(svt_av1_enc_get_stream_info(NULL, 0, &b));
    CK(svt_av1_enc_deinit(NULL));
    CK(svt_av1_enc_deinit_handle(NULL));
    return 0;
}
static int e_init_handle_null_cfg(void) {
    EbComponentType *h = (void *)1;
    CK(svt_av1_enc_init_handle(&h, NULL, NULL));
    printf("   h=%p\n", (void *)h);
    return 0;
}
static int e_null_args_live(void) {
    EbSvtAv1EncConfiguration cfg; EbComponentType *h;
    CK(svt_av1_enc_init_handle(&h, NULL, &cfg));
    CK(svt_av1_enc_set_parameter(h, NULL));
    CK(svt_av1_enc_stream_header(h, NULL));
    CK(svt_av1_enc_get_packet(h, NULL, 0));
    CK(svt_av1_get_recon(h, NULL));
    CK(svt_av1_enc_get_stream_info(h, SVT_AV1_STREAM_INFO_FIRST_PASS_STATS_OUT, NULL));
    CK(svt_av1_enc_deinit_handle(h));
    return 0;
}
static int e_stream_header_before_setparam(void) {
    EbSvtAv1EncConfiguration cfg; EbComponentType *h; EbBufferHeaderType *p = NULL;
    CK(svt_av1_enc_init_handle(&h, NULL, &cfg));
    CK(svt_av1_enc_stream_header(h, &p));
    if (p) CK(svt_av1_enc_stream_header_release(p));
    CK(svt_av1_enc_deinit_handle(h));
    return 0;
}
static int e_send_before_init(void) {
    EbSvtAv1EncConfiguration cfg; EbComponentType *h;
    EbSvtIOFormat io; uint8_t *buf = calloc(1, W * H * 3 / 2);
    CK(svt_av1_enc_init_handle(&h, NULL, &cfg));
    base_cfg(&cfg);
    CK(svt_av1_enc_set_parameter(h, &cfg));
    CK(svt_av1_enc_send_picture(h, mk_in(&io, buf)));
    CK(svt_av1_enc_deinit_handle(h));
    return 0;
}
static int e_getpacket_before_init(void) {
    EbSvtAv1EncConfiguration cfg; EbComponentType *h; EbBufferHeaderType *p = NULL;
    CK(svt_av1_enc_init_handle(&h, NULL, &cfg));
    base_cfg(&cfg);
    CK(svt_av1_enc_set_parameter(h, &cfg));
    CK(svt_av1_enc_get_packet(h, &p, 0));
    CK(svt_av1_enc_deinit_handle(h));
    return 0;
}
static int e_getrecon_before_init(void) {
    EbSvtAv1EncConfiguration cfg; EbComponentType *h; EbBufferHeaderType b; memset(&b, 0, sizeof(b));
    CK(svt_av1_enc_init_handle(&h, NULL, &cfg));
    base_cfg(&cfg); cfg.recon_enabled = 1;
    CK(svt_av1_enc_set_parameter(h, &cfg));
    CK(svt_av1_get_recon(h, &b));
    CK(svt_av1_enc_deinit_handle(h));
    return 0;
}
static int e_init_without_setparam(void) {
    EbSvtAv1EncConfiguration cfg; EbComponentType *h;
    CK(svt_av1_enc_init_handle(&h, NULL, &cfg));
    CK(svt_av1_enc_init(h));
    CK(svt_av1_enc_deinit(h));
    CK(svt_av1_enc_deinit_handle(h));
    return 0;
}
static int e_init_twice(void) {
    EbSvtAv1EncConfiguration cfg; EbComponentType *h;
    CK(svt_av1_enc_init_handle(&h, NULL, &cfg));
    base_cfg(&cfg);
    CK(svt_av1_enc_set_parameter(h, &cfg));
    CK(svt_av1_enc_init(h));
    CK(svt_av1_enc_init(h));
    CK(svt_av1_enc_deinit(h));
    CK(svt_av1_enc_deinit_handle(h));
    return 0;
}
static int e_deinit_twice(void) {
    EbSvtAv1EncConfiguration cfg; EbComponentType *h;
    CK(svt_av1_enc_init_handle(&h, NULL, &cfg));
    base_cfg(&cfg);
    CK(svt_av1_enc_set_parameter(h, &cfg));
    CK(svt_av1_enc_init(h));
    CK(svt_av1_enc_deinit(h));
    CK(svt_av1_enc_deinit(h));
    CK(svt_av1_enc_deinit_handle(h));
    return 0;
}
static int e_reject_then_valid_then_encode(void) {
    EbSvtAv1EncConfiguration cfg, bad; EbComponentType *h; EbBufferHeaderType *p = NULL;
    EbSvtIOFormat io; uint8_t *buf = calloc(1, W * H * 3 / 2);
    CK(svt_av1_enc_init_handle(&h, NULL, &cfg));
    bad = cfg; base_cfg(&bad); bad.source_width = 20000; bad.hierarchical_levels = 9; bad.tile_columns = 99; bad.look_ahead_distance = 5000;
    CK(svt_av1_enc_set_parameter(h, &bad));
    base_cfg(&cfg);
    CK(svt_av1_enc_set_parameter(h, &cfg));
    CK(svt_av1_enc_init(h));
    CK(svt_av1_enc_stream_header(h, &p));
    if (p) CK(svt_av1_enc_stream_header_release(p));
    for (int i = 0; i < 3; i++) { EbBufferHeaderType *in = mk_in(&io, buf); in->pts = i; CK(svt_av1_enc_send_picture(h, in)); }
    { EbBufferHeaderType eos; memset(&eos, 0, sizeof(eos)); eos.flags = EB_BUFFERFLAG_EOS; eos.pic_type = EB_AV1_INVALID_PICTURE; CK(svt_av1_enc_send_picture(h, &eos)); }
    for (;;) {
        EbErrorType e = svt_av1_enc_get_packet(h, &p, 1);
        if (e != EB_ErrorNone) { printf("   get_packet -> 0x%x\n", e); break; }
        int eos = p->flags & EB_BUFFERFLAG_EOS; printf("   packet %u bytes flags %x\n", p->n_filled_len, p->flags);
        svt_av1_enc_release_out_buffer(&p);
        if (eos) break;
    }
    CK(svt_av1_enc_deinit(h));
    CK(svt_av1_enc_deinit_handle(h));
    return 0;
}
static int e_setparam_after_init(void) {
    EbSvtAv1EncConfiguration cfg; EbComponentType *h;
    CK(svt_av1_enc_init_handle(&h, NULL, &cfg));
    base_cfg(&cfg);
    CK(svt_av1_enc_set_parameter(h, &cfg));
    CK(svt_av1_enc_init(h));
    cfg.source_width = 128; cfg.source_height = 128;
    CK(svt_av1_enc_set_parameter(h, &cfg));
    CK(svt_av1_enc_deinit(h));
    CK(svt_av1_enc_deinit_handle(h));
    return 0;
}
static int e_two_handles_second_after_first_gone(void) {
    EbSvtAv1EncConfiguration c1, c2; EbComponentType *h1, *h2;
    CK(svt_av1_enc_init_handle(&h1, NULL, &c1));
    CK(svt_av1_enc_init_handle(&h2, NULL, &c2));
    CK(svt_av1_enc_deinit_handle(h1));
    base_cfg(&c2);
    CK(svt_av1_enc_set_parameter(h2, &c2));
    CK(svt_av1_enc_init(h2));
    CK(svt_av1_enc_deinit(h2));
    CK(svt_av1_enc_deinit_handle(h2));
    return 0;
}
static int e_send_null_planes(void) {
    EbSvtAv1EncConfiguration cfg; EbComponentType *h;
    EbSvtIOFormat io; uint8_t *buf = calloc(1, W * H * 3 / 2);
    CK(svt_av1_enc_init_handle(&h, NULL, &cfg));
    base_cfg(&cfg);
    CK(svt_av1_enc_set_parameter(h, &cfg));
    CK(svt_av1_enc_init(h));
    EbBufferHeaderType *in = mk_in(&io, buf); io.luma = NULL; io.cb = NULL; io.cr = NULL;
    CK(svt_av1_enc_send_picture(h, in));
    CK(svt_av1_enc_deinit(h));
    CK(svt_av1_enc_deinit_handle(h));
    return 0;
}
static int e_send_null_buffer(void) {
    EbSvtAv1EncConfiguration cfg; EbComponentType *h; EbBufferHeaderType *p;
    CK(svt_av1_enc_init_handle(&h, NULL, &cfg));
    base_cfg(&cfg);
    CK(svt_av1_enc_set_parameter(h, &cfg));
    CK(svt_av1_enc_init(h));
    CK(svt_av1_enc_send_picture(h, NULL));
    sleep(2);
    CK(svt_av1_enc_get_packet(h, &p, 0));
    CK(svt_av1_enc_deinit(h));
    CK(svt_av1_enc_deinit_handle(h));
    return 0;
}
static int e_recon_small(void) {
    EbSvtAv1EncConfiguration cfg; EbComponentType *h; EbBufferHeaderType *p = NULL;
    EbSvtIOFormat io; uint8_t *buf = calloc(1, W * H * 3 / 2);
    CK(svt_av1_enc_init_handle(&h, NULL, &cfg));
    base_cfg(&cfg); cfg.recon_enabled = 1;
    CK(svt_av1_enc_set_parameter(h, &cfg));
    CK(svt_av1_enc_init(h));
    for (int i = 0; i < 3; i++) { EbBufferHeaderType *in = mk_in(&io, buf); in->pts = i; CK(svt_av1_enc_send_picture(h, in)); }
    { EbBufferHeaderType eos; memset(&eos, 0, sizeof(eos)); eos.flags = EB_BUFFERFLAG_EOS; eos.pic_type = EB_AV1_INVALID_PICTURE; CK(svt_av1_enc_send_picture(h, &eos)); }
    for (;;) {
        EbErrorType e = svt_av1_enc_get_packet(h, &p, 1);
        if (e != EB_ErrorNone) { printf("   get_packet -> 0x%x\n", e); break; }
        int eos = p->flags & EB_BUFFERFLAG_EOS;
        svt_av1_enc_release_out_buffer(&p);
        if (eos) break;
    }
    // caller buffer of 16 bytes, with a guard region we can inspect
    uint8_t *guard = malloc(16 + 65536); memset(guard, 0xAB, 16 + 65536);
    EbBufferHeaderType r; memset(&r, 0, sizeof(r)); r.size = sizeof(r); r.p_buffer = guard; r.n_alloc_len = 16;
    EbErrorType e = svt_av1_get_recon(h, &r);
    printf("   get_recon(16-byte buffer) -> 0x%x, n_filled_len=%u n_alloc_len(now)=%u\n", e, r.n_filled_len, r.n_alloc_len);
    int over = 0; for (int i = 16; i < 16 + 65536; i++) if (guard[i] != 0xAB) over++;
    printf("   bytes written beyond the 16-byte caller buffer: %d\n", over);
    CK(svt_av1_enc_deinit(h));
    CK(svt_av1_enc_deinit_handle(h));
    return over ? 3 : 0;
}


static int e_two_handles_unpin0(void) {
    EbSvtAv1EncConfiguration c1, c2; EbComponentType *h1, *h2;
    CK(svt_av1_enc_init_handle(&h1, NULL, &c1));
    CK(svt_av1_enc_init_handle(&h2, NULL, &c2));
    CK(svt_av1_enc_deinit_handle(h1));
    base_cfg(&c2); c2.unpin = 0;
    CK(svt_av1_enc_set_parameter(h2, &c2));
    CK(svt_av1_enc_init(h2));
    CK(svt_av1_enc_deinit(h2));
    CK(svt_av1_enc_deinit_handle(h2));
    return 0;
}
static int e_cfg_all_ff(void) {
    EbSvtAv1EncConfiguration cfg; EbComponentType *h;
    CK(svt_av1_enc_init_handle(&h, NULL, &cfg));
    EbSvtAv1EncConfiguration bad; memset(&bad, 0xff, sizeof(bad)); memset(&bad.rc_twopass_stats_in, 0, sizeof(bad.rc_twopass_stats_in));
    CK(svt_av1_enc_set_parameter(h, &bad));
    base_cfg(&cfg);
    CK(svt_av1_enc_set_parameter(h, &cfg));
    CK(svt_av1_enc_deinit_handle(h));
    return 0;
}
static int e_cfg_all_zero(void) {
    EbSvtAv1EncConfiguration cfg; EbComponentType *h;
    CK(svt_av1_enc_init_handle(&h, NULL, &cfg));
    EbSvtAv1EncConfiguration bad; memset(&bad, 0, sizeof(bad));
    CK(svt_av1_enc_set_parameter(h, &bad));
    base_cfg(&cfg);
    CK(svt_av1_enc_set_parameter(h, &cfg));
    CK(svt_av1_enc_deinit_handle(h));
    return 0;
}
static int e_cfg_fields(void) {
    EbSvtAv1EncConfiguration cfg, bad; EbComponentType *h;
    CK(svt_av1_enc_init_handle(&h, NULL, &cfg));
    bad = cfg; base_cfg(&bad); bad.hierarchical_levels = 0xffffffff; CK(svt_av1_enc_set_parameter(h, &bad));
    bad = cfg; base_cfg(&bad); bad.frame_rate = 0; bad.intra_period_length = -2; CK(svt_av1_enc_set_parameter(h, &bad));
    bad = cfg; base_cfg(&bad); bad.frame_rate_numerator = 1; bad.frame_rate_denominator = 0x7fffffff; CK(svt_av1_enc_set_parameter(h, &bad));
    bad = cfg; base_cfg(&bad); bad.source_width = 0; bad.source_height = 0; CK(svt_av1_enc_set_parameter(h, &bad));
    bad = cfg; base_cfg(&bad); bad.target_socket = 5; CK(svt_av1_enc_set_parameter(h, &bad));
    bad = cfg; base_cfg(&bad); bad.target_socket = 1; bad.logical_processors = 0; CK(svt_av1_enc_set_parameter(h, &bad)); CK(svt_av1_enc_init(h)); CK(svt_av1_enc_deinit(h));
    CK(svt_av1_enc_deinit_handle(h));
    return 0;
}
static int e_get_packet_after_eos_nonblocking(void) {
    EbSvtAv1EncConfiguration cfg; EbComponentType *h; EbBufferHeaderType *p = NULL;
    EbSvtIOFormat io; uint8_t *buf = calloc(1, W * H * 3 / 2);
    CK(svt_av1_enc_init_handle(&h, NULL, &cfg));
    base_cfg(&cfg);
    CK(svt_av1_enc_set_parameter(h, &cfg));
    CK(svt_av1_enc_init(h));
    for (int i = 0; i < 2; i++) { EbBufferHeaderType *in = mk_in(&io, buf); in->pts = i; CK(svt_av1_enc_send_picture(h, in)); }
    { EbBufferHeaderType eos; memset(&eos, 0, sizeof(eos)); eos.flags = EB_BUFFERFLAG_EOS; eos.pic_type = EB_AV1_INVALID_PICTURE; CK(svt_av1_enc_send_picture(h, &eos)); }
    for (;;) {
        EbErrorType e = svt_av1_enc_get_packet(h, &p, 1);
        if (e != EB_ErrorNone) { printf("   get_packet -> 0x%x\n", e); break; }
        int eos = p->flags & EB_BUFFERFLAG_EOS;
        svt_av1_enc_release_out_buffer(&p);
        svt_av1_enc_release_out_buffer(&p);
        if (eos) break;
    }
    CK(svt_av1_enc_get_packet(h, &p, 0));
    { EbBufferHeaderType *in = mk_in(&io, buf); in->pts = 9; CK(svt_av1_enc_send_picture(h, in)); }
    sleep(1);
    CK(svt_av1_enc_get_packet(h, &p, 0));
    CK(svt_av1_enc_deinit(h));
    CK(svt_av1_enc_deinit_handle(h));
    return 0;
}


static int e_send_without_draining(void) {
    EbSvtAv1EncConfiguration cfg; EbComponentType *h;
    EbSvtIOFormat io; uint8_t *buf = calloc(1, W * H * 3 / 2);
    CK(svt_av1_enc_init_handle(&h, NULL, &cfg));
    base_cfg(&cfg);
    CK(svt_av1_enc_set_parameter(h, &cfg));
    CK(svt_av1_enc_init(h));
    for (int i = 0; i < 300; i++) { EbBufferHeaderType *in = mk_in(&io, buf); in->pts = i; svt_av1_enc_send_picture(h, in); if (i % 50 == 0) { printf("   [%ld] sent %d\n", (long)time(NULL) % 1000, i); fflush(stdout);} }
    CK(svt_av1_enc_deinit(h));
    CK(svt_av1_enc_deinit_handle(h));
    return 0;
}


static int deinit_inflight(int n, int wait) {
    EbSvtAv1EncConfiguration cfg; EbComponentType *h;
    EbSvtIOFormat io; uint8_t *buf = calloc(1, W * H * 3 / 2);
    CK(svt_av1_enc_init_handle(&h, NULL, &cfg));
    base_cfg(&cfg);
    CK(svt_av1_enc_set_parameter(h, &cfg));
    CK(svt_av1_enc_init(h));
    for (int i = 0; i < n; i++) { EbBufferHeaderType *in = mk_in(&io, buf); in->pts = i; svt_av1_enc_send_picture(h, in); }
    printf("   sent %d, waiting %d s\n", n, wait); fflush(stdout);
    sleep(wait);
    CK(svt_av1_enc_deinit(h));
    CK(svt_av1_enc_deinit_handle(h));
    return 0;
}
static int e_inflight_3_0(void) { return deinit_inflight(3, 0); }
static int e_inflight_3_5(void) { return deinit_inflight(3, 5); }
static int e_inflight_40_0(void) { return deinit_inflight(40, 0); }
static int e_inflight_40_15(void) { return deinit_inflight(40, 15); }
static int e_inflight_300_20(void) { return deinit_inflight(300, 20); }

// ---- decoder
static int d_null_handles(void) {
    EbSvtAv1DecConfiguration cfg; EbBufferHeaderType b; memset(&b, 0, sizeof(b)); uint8_t d[4] = {0};
    EbAV1StreamInfo si; EbAV1FrameInfo fi;
    CK(svt_av1_dec_init_handle(NULL, NULL, &cfg));
    CK(svt_av1_dec_set_parameter(NULL, &cfg));
    CK(svt_av1_dec_init(NULL));
    CK(svt_av1_dec_frame(NULL, d, 4, 0));
    CK(svt_av1_dec_get_picture(NULL, &b, &si, &fi));
    CK(svt_av1_dec_deinit(NULL));
    CK(svt_av1_dec_deinit_handle(NULL));
    return 0;
}
static int d_init_handle_null_cfg(void) {
    EbComponentType *h = NULL;
    CK(svt_av1_dec_init_handle(&h, NULL, NULL));
    printf("   h=%p\n", (void *)h);
    if (h) { CK(svt_av1_dec_deinit(h)); CK(svt_av1_dec_deinit_handle(h)); }
    return 0;
}
static int d_null_args_live(void) {
    EbSvtAv1DecConfiguration cfg; EbComponentType *h; EbAV1StreamInfo si; EbAV1FrameInfo fi;
    CK(svt_av1_dec_init_handle(&h, NULL, &cfg));
    CK(svt_av1_dec_set_parameter(h, NULL));
    CK(svt_av1_dec_set_parameter(h, &cfg));
    CK(svt_av1_dec_init(h));
    CK(svt_av1_dec_frame(h, NULL, 10, 0));
    uint8_t d[4] = {0};
    CK(svt_av1_dec_frame(h, d, 0, 0));
    CK(svt_av1_dec_get_picture(h, NULL, &si, &fi));
    CK(svt_av1_dec_deinit(h));
    CK(svt_av1_dec_deinit_handle(h));
    return 0;
}
static int d_get_picture_before_frame(void) {
    EbSvtAv1DecConfiguration cfg; EbComponentType *h; EbAV1StreamInfo si; EbAV1FrameInfo fi;
    EbBufferHeaderType b; memset(&b, 0, sizeof(b)); EbSvtIOFormat io; memset(&io, 0, sizeof(io)); b.p_buffer = (uint8_t *)&io;
    CK(svt_av1_dec_init_handle(&h, NULL, &cfg));
    CK(svt_av1_dec_set_parameter(h, &cfg));
    CK(svt_av1_dec_init(h));
    CK(svt_av1_dec_get_picture(h, &b, &si, &fi));
    CK(svt_av1_dec_deinit(h));
    CK(svt_av1_dec_deinit_handle(h));
    return 0;
}
static int d_get_picture_before_init(void) {
    EbSvtAv1DecConfiguration cfg; EbComponentType *h; EbAV1StreamInfo si; EbAV1FrameInfo fi;
    EbBufferHeaderType b; memset(&b, 0, sizeof(b)); EbSvtIOFormat io; memset(&io, 0, sizeof(io)); b.p_buffer = (uint8_t *)&io;
    CK(svt_av1_dec_init_handle(&h, NULL, &cfg));
    CK(svt_av1_dec_get_picture(h, &b, &si, &fi));
    CK(svt_av1_dec_deinit_handle(h));
    return 0;
}
static int d_frame_before_init(void) {
    EbSvtAv1DecConfiguration cfg; EbComponentType *h;
    uint8_t d[16] = {0x12, 0x00, 0x0a, 0x0b, 0, 0, 0, 0x24, 0xcf, 0x7f, 0x0d, 0xbf, 0xff, 0x30, 0x08};
    CK(svt_av1_dec_init_handle(&h, NULL, &cfg));
    CK(svt_av1_dec_frame(h, d, 15, 0));
    CK(svt_av1_dec_deinit(h));
    CK(svt_av1_dec_deinit_handle(h));
    return 0;
}
static int d_deinit_twice_and_skip(void) {
    EbSvtAv1DecConfiguration cfg; EbComponentType *h;
    CK(svt_av1_dec_init_handle(&h, NULL, &cfg));
    CK(svt_av1_dec_set_parameter(h, &cfg));
    CK(svt_av1_dec_init(h));
    CK(svt_av1_dec_deinit(h));
    CK(svt_av1_dec_deinit(h));
    CK(svt_av1_dec_deinit_handle(h));
    CK(svt_av1_dec_init_handle(&h, NULL, &cfg));
    CK(svt_av1_dec_deinit_handle(h));
    return 0;
}
static int d_two_handles(void) {
    EbSvtAv1DecConfiguration c1, c2; EbComponentType *h1, *h2;
    CK(svt_av1_dec_init_handle(&h1, NULL, &c1));
    CK(svt_av1_dec_set_parameter(h1, &c1));
    CK(svt_av1_dec_init(h1));
    CK(svt_av1_dec_init_handle(&h2, NULL, &c2));
    CK(svt_av1_dec_set_parameter(h2, &c2));
    CK(svt_av1_dec_init(h2));
    CK(svt_av1_dec_deinit(h1));
    CK(svt_av1_dec_deinit_handle(h1));
    CK(svt_av1_dec_deinit(h2));
    CK(svt_av1_dec_deinit_handle(h2));
    return 0;
}
static int d_get_picture_null_inner(void) {
    EbSvtAv1DecConfiguration cfg; EbComponentType *h; EbAV1StreamInfo si; EbAV1FrameInfo fi;
    EbBufferHeaderType b; memset(&b, 0, sizeof(b));
    CK(svt_av1_dec_init_handle(&h, NULL, &cfg));
    CK(svt_av1_dec_set_parameter(h, &cfg));
    CK(svt_av1_dec_init(h));
    CK(svt_av1_dec_get_picture(h, &b, &si, &fi));
    CK(svt_av1_dec_deinit(h));
    CK(svt_av1_dec_deinit_handle(h));
    return 0;
}

static struct { const char *name; case_fn fn; } cases[] = {
#define C(x) {#x, x}
    C(e_null_handles), C(e_init_handle_null_cfg), C(e_null_args_live), C(e_stream_header_before_setparam),
    C(e_send_before_init), C(e_getpacket_before_init), C(e_getrecon_before_init), C(e_init_without_setparam),
    C(e_init_twice), C(e_deinit_twice), C(e_reject_then_valid_then_encode), C(e_setparam_after_init),
    C(e_two_handles_second_after_first_gone), C(e_send_null_planes), C(e_send_null_buffer), C(e_recon_small), C(e_inflight_3_0), C(e_inflight_3_5), C(e_inflight_40_0), C(e_inflight_40_15), C(e_inflight_300_20), C(e_send_without_draining), C(e_two_handles_unpin0), C(e_cfg_all_ff), C(e_cfg_all_zero), C(e_cfg_fields), C(e_get_packet_after_eos_nonblocking),
    C(d_null_handles), C(d_init_handle_null_cfg), C(d_null_args_live), C(d_get_picture_before_frame),
    C(d_get_picture_before_init), C(d_frame_before_init), C(d_deinit_twice_and_skip), C(d_two_handles), C(d_get_picture_null_inner),
};

int main(int argc, char **argv) {
    int n = sizeof(cases) / sizeof(cases[0]);
    for (int i = 0; i < n; i++) {
        if (argc > 1 && !strstr(cases[i].name, argv[1])) continue;
        printf("== %s\n", cases[i].name); fflush(stdout);
        pid_t pid = fork();
        if (pid == 0) {
            int dn = open("/dev/null", 1); (void)dn;
            alarm(getenv("PROBE_ALARM") ? atoi(getenv("PROBE_ALARM")) : 60);
            _exit(cases[i].fn());
        }
        int st; waitpid(pid, &st, 0);
        if (WIFSIGNALED(st)) printf("## %s: KILLED by signal %d (%s)\n", cases[i].name, WTERMSIG(st), WTERMSIG(st) == SIGALRM ? "TIMEOUT/blocked" : strsignal(WTERMSIG(st)));
        else printf("## %s: exit %d\n", cases[i].name, WEXITSTATUS(st));
        fflush(stdout);
    }
    return 0;
}
