#include <stdio.h>
#include <stdlib.h>
#include <string.h>
#include "EbSvtAv1Enc.h"
int main(int argc, char **argv) {
    EbComponentType *h = NULL; EbSvtAv1EncConfiguration cfg;
    if (svt_av1_enc_init_handle(&h, NULL, &cfg)) return 2;
    cfg.source_width = 128; cfg.source_height = 128;
    cfg.number_hme_search_region_in_width = argc > 1 ? (uint32_t)strtoul(argv[1], 0, 0) : 0xFFFFFFFFu;
    EbErrorType r = svt_av1_enc_set_parameter(h, &cfg);
    fprintf(stderr, "set_parameter returned %x\n", r);
    svt_av1_enc_deinit_handle(h);
    return 0;
}
