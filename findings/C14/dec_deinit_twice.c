#include <stdio.h>
#include <stdlib.h>
#include <string.h>
#include "EbSvtAv1Dec.h"
int main(int argc, char **argv) {
    int threads = argc > 1 ? atoi(argv[1]) : 1;
    EbComponentType *h = NULL; EbSvtAv1DecConfiguration cfg;
    if (svt_av1_dec_init_handle(&h, NULL, &cfg)) return 2;
    cfg.threads = threads;
    if (svt_av1_dec_set_parameter(h, &cfg)) return 2;
    if (svt_av1_dec_init(h)) return 2;
    EbErrorType r1 = svt_av1_dec_deinit(h);
    fprintf(stderr, "first deinit returned %x\n", r1);
    EbErrorType r2 = svt_av1_dec_deinit(h);
    fprintf(stderr, "second deinit returned %x\n", r2);
    svt_av1_dec_deinit_handle(h);
    fprintf(stderr, "done\n");
    return 0;
}
