/* Encoder teardown probe: drives the SVT-AV1 encoder API through a chosen history and tears the session down.
 * Build with -fsanitize=leak so that LeakSanitizer reports whatever the library left behind.
 *
 * usage: enc_probe key=val ...
 *   w,h        picture size (default 64x64)
 *   send       pictures to send (default 5)
 *   get        packets to retrieve before teardown: -1 = send EOS and drain everything (default), n >= 0 = no EOS,
 *              poll until n packets were retrieved, then tear down
 *   hold       keep the last <hold> retrieved packets un-released at teardown (default 0)
 *   stop       handle | setparam | badparam | init | run (default run)
 *   cycles     repeat the whole session this many times (default 1)
 *   hdr        1 = fetch + release the stream header after init
 *   recon      1 = enable recon and pull recon frames, 2 = enable recon but never pull a recon frame
 *   nset       call svt_av1_enc_set_parameter this many times with the same accepted configuration (default 1)
 *   eos        1 = with get>=0, still send the EOS picture before tearing down (packets are left in the queue)
 *   settle     milliseconds to sleep before teardown (lets the pipeline fill the output queue)
 *   preset, lp, hl (hierarchical levels), keyint, lad, rc, tbr, overlays, tiles (log2 cols), sb (64/128), pred, scd,
 *   tf (tf_level), stat (stat_report)
 * prints "threads_before/after" (entries of /proc/self/task) and exits 0; LeakSanitizer turns leaks into exit 23.
 */
#include <stdio.h>
#include <stdlib.h>
#include <string.h>
#include <stdint.h>
#include <unistd.h>
#include <dirent.h>
#include "EbSvtAv1Enc.h"

static int nthreads(void) {
    int            n = 0;
    DIR *          d = opendir("/proc/self/task");
    struct dirent *e;
    if (!d)
        return -1;
    while ((e = readdir(d)))
        if (e->d_name[0] != '.')
            n++;
    closedir(d);
    return n;
}

static long arg(int argc, char **argv, const char *key, long def) {
    size_t l = strlen(key);
    for (int i = 1; i < argc; i++)
        if (!strncmp(argv[i], key, l) && argv[i][l] == '=')
            return atol(argv[i] + l + 1);
    return def;
}
static const char *sarg(int argc, char **argv, const char *key, const char *def) {
    size_t l = strlen(key);
    for (int i = 1; i < argc; i++)
        if (!strncmp(argv[i], key, l) && argv[i][l] == '=')
            return argv[i] + l + 1;
    return def;
}

int main(int argc, char **argv) {
    int         w = arg(argc, argv, "w", 64), h = arg(argc, argv, "h", 64);
    int         send = arg(argc, argv, "send", 5), get = arg(argc, argv, "get", -1);
    int         hold = arg(argc, argv, "hold", 0), cycles = arg(argc, argv, "cycles", 1);
    int         hdr = arg(argc, argv, "hdr", 0), recon = arg(argc, argv, "recon", 0);
    int         settle = arg(argc, argv, "settle", 0);
    const char *stop   = sarg(argc, argv, "stop", "run");
    int         t0     = nthreads();
    int         rc     = 0;

    for (int cyc = 0; cyc < cycles; cyc++) {
        EbComponentType *        handle = NULL;
        EbSvtAv1EncConfiguration cfg;
        EbErrorType              err = svt_av1_enc_init_handle(&handle, NULL, &cfg);
        if (err != EB_ErrorNone) {
            fprintf(stderr, "init_handle failed %x\n", err);
            return 3;
        }
        if (!strcmp(stop, "handle"))
            goto teardown;
        cfg.source_width        = w;
        cfg.source_height       = h;
        cfg.enc_mode            = arg(argc, argv, "preset", 8);
        cfg.logical_processors  = arg(argc, argv, "lp", 2);
        cfg.recon_enabled       = recon ? 1 : 0;
        cfg.frame_rate          = 30;
        if (arg(argc, argv, "hl", -1) >= 0)
            cfg.hierarchical_levels = arg(argc, argv, "hl", 0);
        if (arg(argc, argv, "keyint", -99) != -99)
            cfg.intra_period_length = arg(argc, argv, "keyint", 0);
        if (arg(argc, argv, "lad", -1) >= 0)
            cfg.look_ahead_distance = arg(argc, argv, "lad", 0);
        if (arg(argc, argv, "rc", -1) >= 0)
            cfg.rate_control_mode = arg(argc, argv, "rc", 0);
        if (arg(argc, argv, "tbr", -1) >= 0)
            cfg.target_bit_rate = arg(argc, argv, "tbr", 0);
        if (arg(argc, argv, "overlays", -1) >= 0)
            cfg.enable_overlays = arg(argc, argv, "overlays", 0);
        if (arg(argc, argv, "tiles", -1) >= 0)
            cfg.tile_columns = arg(argc, argv, "tiles", 0);
        if (arg(argc, argv, "sb", -1) >= 0)
            cfg.super_block_size = arg(argc, argv, "sb", 0);
        if (arg(argc, argv, "pred", -1) >= 0)
            cfg.pred_structure = arg(argc, argv, "pred", 0);
        if (arg(argc, argv, "scd", -1) >= 0)
            cfg.scene_change_detection = arg(argc, argv, "scd", 0);
        if (arg(argc, argv, "tf", -99) != -99)
            cfg.tf_level = arg(argc, argv, "tf", 0);
        if (arg(argc, argv, "stat", -1) >= 0)
            cfg.stat_report = arg(argc, argv, "stat", 0);
        if (!strcmp(stop, "badparam"))
            cfg.source_width = 7; /* rejected */
        err = svt_av1_enc_set_parameter(handle, &cfg);
        for (int k = 1; k < arg(argc, argv, "nset", 1) && err == EB_ErrorNone; k++)
            err = svt_av1_enc_set_parameter(handle, &cfg); /* reconfigure before init */
        if (!strcmp(stop, "badparam")) {
            if (err == EB_ErrorNone)
                fprintf(stderr, "bad parameter accepted?\n");
            goto teardown;
        }
        if (err != EB_ErrorNone) {
            fprintf(stderr, "set_parameter failed %x\n", err);
            rc = 4;
            goto teardown;
        }
        if (!strcmp(stop, "setparam"))
            goto teardown;
        err = svt_av1_enc_init(handle);
        if (err != EB_ErrorNone) {
            fprintf(stderr, "enc_init failed %x\n", err);
            rc = 5;
            goto teardown;
        }
        if (hdr) {
            EbBufferHeaderType *sh = NULL;
            err                    = svt_av1_enc_stream_header(handle, &sh);
            if (err != EB_ErrorNone || !sh || !sh->n_filled_len) {
                fprintf(stderr, "stream header failed %x\n", err);
                rc = 6;
            }
            if (sh)
                svt_av1_enc_stream_header_release(sh);
        }
        if (!strcmp(stop, "init"))
            goto teardown;
        {
            size_t              lsz = (size_t)w * h, csz = lsz / 4;
            uint8_t *           yuv = malloc(lsz + 2 * csz);
            EbSvtIOFormat       io;
            EbBufferHeaderType  in;
            EbBufferHeaderType *held[64];
            int                 nheld = 0, got = 0, eos_seen = 0;
            uint8_t *           rbuf = recon ? malloc((lsz + 2 * csz) * 2) : NULL;
            memset(&io, 0, sizeof(io));
            memset(&in, 0, sizeof(in));
            io.luma = yuv;
            io.cb   = yuv + lsz;
            io.cr   = yuv + lsz + csz;
            io.y_stride  = w;
            io.cb_stride = io.cr_stride = w / 2;
            io.width                    = w;
            io.height                   = h;
            in.size                     = sizeof(in);
            in.p_buffer                 = (uint8_t *)&io;
            in.n_filled_len             = lsz + 2 * csz;
            in.pic_type                 = EB_AV1_INVALID_PICTURE;
            for (int f = 0; f < send; f++) {
                for (size_t i = 0; i < lsz + 2 * csz; i++) yuv[i] = (uint8_t)((i * 7 + f * 13 + (i / w) * 3) & 0xff);
                in.pts   = f;
                in.flags = 0;
                svt_av1_enc_send_picture(handle, &in);
                /* opportunistic non-blocking pull, as the sample app does */
                if (get != 0 && (get < 0 || got < get)) {
                    EbBufferHeaderType *pkt = NULL;
                    if (svt_av1_enc_get_packet(handle, &pkt, 0) == EB_ErrorNone && pkt) {
                        got++;
                        if (pkt->flags & EB_BUFFERFLAG_EOS)
                            eos_seen = 1;
                        if (hold && nheld < 64)
                            held[nheld++] = pkt;
                        else
                            svt_av1_enc_release_out_buffer(&pkt);
                    }
                }
            }
            if (get < 0) {
                EbBufferHeaderType eos;
                memset(&eos, 0, sizeof(eos));
                eos.size  = sizeof(eos);
                eos.flags = EB_BUFFERFLAG_EOS;
                eos.pic_type = EB_AV1_INVALID_PICTURE;
                svt_av1_enc_send_picture(handle, &eos);
                while (!eos_seen) {
                    EbBufferHeaderType *pkt = NULL;
                    err                     = svt_av1_enc_get_packet(handle, &pkt, 1);
                    if (err == EB_ErrorMax) {
                        fprintf(stderr, "encoder error packet\n");
                        rc = 7;
                        break;
                    }
                    if (err == EB_ErrorNone && pkt) {
                        got++;
                        if (pkt->flags & EB_BUFFERFLAG_EOS)
                            eos_seen = 1;
                        if (hold && nheld < 64)
                            held[nheld++] = pkt;
                        else
                            svt_av1_enc_release_out_buffer(&pkt);
                    }
                }
            } else {
                int spins = 0;
                if (arg(argc, argv, "eos", 0)) {
                    EbBufferHeaderType eos;
                    memset(&eos, 0, sizeof(eos));
                    eos.size     = sizeof(eos);
                    eos.flags    = EB_BUFFERFLAG_EOS;
                    eos.pic_type = EB_AV1_INVALID_PICTURE;
                    svt_av1_enc_send_picture(handle, &eos);
                }
                while (got < get && spins < 20000) {
                    EbBufferHeaderType *pkt = NULL;
                    if (svt_av1_enc_get_packet(handle, &pkt, 0) == EB_ErrorNone && pkt) {
                        got++;
                        if (hold && nheld < 64)
                            held[nheld++] = pkt;
                        else
                            svt_av1_enc_release_out_buffer(&pkt);
                    } else {
                        usleep(1000);
                        spins++;
                    }
                }
            }
            if (recon == 1) {
                EbBufferHeaderType rb;
                int                nrec = 0;
                memset(&rb, 0, sizeof(rb));
                rb.size        = sizeof(rb);
                rb.p_buffer    = rbuf;
                rb.n_alloc_len = (lsz + 2 * csz) * 2;
                while (svt_av1_get_recon(handle, &rb) == EB_ErrorNone) nrec++;
                fprintf(stderr, "recon frames pulled: %d\n", nrec);
            }
            if (settle)
                usleep(settle * 1000);
            /* keep only the last <hold> packets un-released */
            for (int i = 0; i + hold < nheld; i++) svt_av1_enc_release_out_buffer(&held[i]);
            fprintf(stderr, "cycle %d: sent %d got %d held %d threads_running %d\n", cyc, send, got,
                    nheld < hold ? nheld : hold, nthreads());
            free(yuv);
            free(rbuf);
        }
    teardown:
        err = svt_av1_enc_deinit(handle);
        if (err != EB_ErrorNone) {
            fprintf(stderr, "deinit failed %x\n", err);
            rc = 8;
        }
        err = svt_av1_enc_deinit_handle(handle);
        if (err != EB_ErrorNone) {
            fprintf(stderr, "deinit_handle failed %x\n", err);
            rc = 9;
        }
    }
    {
        int t1 = nthreads();
        fprintf(stderr, "threads_before %d threads_after %d\n", t0, t1);
        if (t1 != t0)
            rc = rc ? rc : 10;
    }
    return rc;
}
