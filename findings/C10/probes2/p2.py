import sys
import sys, os; sys.path.insert(0, os.path.join(os.path.dirname(os.path.abspath(__file__)), ".."))
from av1gen import *
# P2: non-uniform tile spacing, 70 tile columns of one 64x64 SB each (frame 4480x64) : MAX_TILE_COLS is 64
s = dict(w=4480,h=64)
fh = dict(type=0, show=1, tiles=("n",[1]*70,[1]), tile_size_bytes=1)
open("p2.ivf","wb").write(ivf([obu(OBU_TD)+obu(OBU_SEQ,seq_header(s))+frame_obu(s, fh, [rnd(20,i) for i in range(70)])], 4480, 64))
# P3: 3 uniform tile columns (192x64, cols_log2=2 -> tile width 1 SB -> 3 tiles), tile group says tg_start=0 tg_end=3
s = dict(w=192,h=64)
fh = dict(type=0, show=1, tiles=("u",2,0), tile_size_bytes=1)
open("p3.ivf","wb").write(ivf([obu(OBU_TD)+obu(OBU_SEQ,seq_header(s))+frame_obu(s, fh, [rnd(20,i) for i in range(4)], tg=(0,3))], 192, 64))
# P3b: tg_start > tg_end
open("p3b.ivf","wb").write(ivf([obu(OBU_TD)+obu(OBU_SEQ,seq_header(s))+frame_obu(s, fh, [rnd(20,i) for i in range(1)], tg=(2,1))], 192, 64))
# P4: superres: max 128x64, frame_size_override with coded width 256 and denominator 16 -> downscaled 128 (passes the check), upscaled 256
s = dict(w=128,h=64, superres=1, wbits=9)
fh = dict(type=0, show=1, override=1, w=256, h=64, sr_denom=16)
open("p4.ivf","wb").write(ivf([obu(OBU_TD)+obu(OBU_SEQ,seq_header(s))+frame_obu(s, fh, [rnd(200,3)])], 128, 64))
# P5: film grain, two luma scaling points with the same x
s = dict(w=64,h=64, film_grain=1)
fh = dict(type=0, show=1, fg=dict(apply=1, y=[(50,20),(50,40)]))
open("p5.ivf","wb").write(ivf([obu(OBU_TD)+obu(OBU_SEQ,seq_header(s))+frame_obu(s, fh, [rnd(200,3)])]))
# P6: many frames that fail late in the header (film grain num_y_points = 15), then good frames
fhbad = dict(type=0, show=1, fg=dict(apply=1, num_y=15, y=[]))
fhgood = dict(type=0, show=1, fg=dict(apply=0))
fr = [obu(OBU_TD)+obu(OBU_SEQ,seq_header(s))+frame_obu(s, fhgood, [rnd(200,3)])]
for i in range(40):
    fr.append(obu(OBU_TD)+frame_obu(s, fhbad, [rnd(200,3)]))
for i in range(3):
    fr.append(obu(OBU_TD)+frame_obu(s, fhgood, [rnd(200,3)]))
open("p6.ivf","wb").write(ivf(fr))
