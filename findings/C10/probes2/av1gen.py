#!/usr/bin/env python3
"""Tiny hand-writer for AV1 OBUs (sequence header, frame header, frame) - enough to
build small synthetic streams whose *headers* are exactly controlled.  Tile payloads are
arbitrary bytes (any byte string is a decodable arithmetic-coder input)."""
import struct, random


class BW:
    def __init__(self):
        self.bits = []

    def f(self, n, v):
        assert 0 <= v < (1 << n) or n == 0, (n, v)
        for i in range(n - 1, -1, -1):
            self.bits.append((v >> i) & 1)

    def su(self, n, v):  # signed, n bits total
        if v < 0:
            v += 1 << n
        self.f(n, v)

    def ns(self, n, v):  # non-symmetric unsigned, n = number of values
        if n <= 1:
            return
        w = n.bit_length()  # FloorLog2(n)+1
        m = (1 << w) - n
        if v < m:
            self.f(w - 1, v)
        else:
            self.f(w - 1, (v + m) >> 1)
            self.f(1, (v + m) & 1)

    def trailing(self):
        self.bits.append(1)
        while len(self.bits) % 8:
            self.bits.append(0)

    def align(self):
        while len(self.bits) % 8:
            self.bits.append(0)

    def bytes(self):
        assert len(self.bits) % 8 == 0
        out = bytearray()
        for i in range(0, len(self.bits), 8):
            b = 0
            for j in range(8):
                b = (b << 1) | self.bits[i + j]
            out.append(b)
        return bytes(out)


def leb128(v):
    out = bytearray()
    while True:
        b = v & 0x7F
        v >>= 7
        if v:
            out.append(b | 0x80)
        else:
            out.append(b)
            return bytes(out)


OBU_SEQ, OBU_TD, OBU_FH, OBU_TG, OBU_META, OBU_FRAME, OBU_RFH, OBU_TL, OBU_PAD = 1, 2, 3, 4, 5, 6, 7, 8, 15


def obu(typ, payload=b"", has_size=1, ext=None):
    hdr = (typ << 3) | ((1 if ext is not None else 0) << 2) | (has_size << 1)
    out = bytes([hdr])
    if ext is not None:
        out += bytes([ext])
    if has_size:
        out += leb128(len(payload))
    return out + payload


def seq_header(s):
    """s: dict. Keys (defaults): w,h (64), sb128(0), order_hint_bits(0 = disabled), superres(0),
    cdef(0), restoration(0), film_grain(0), sct(0: 0/1 forced, 2 select), still/reduced (0)"""
    g = s.get
    b = BW()
    b.f(3, g("profile", 0))
    b.f(1, g("still", 0))
    b.f(1, g("reduced", 0))
    if g("reduced", 0):
        b.f(5, g("level", 0))
    else:
        b.f(1, 0)  # timing_info_present
        b.f(1, 0)  # initial_display_delay_present
        b.f(5, 0)  # operating_points_cnt_minus_1
        b.f(12, 0)  # idc
        b.f(5, g("level", 0))  # seq_level_idx (<=7: no tier)
    wb = g("wbits", max(1, (g("w", 64) - 1).bit_length()))
    hb = g("hbits", max(1, (g("h", 64) - 1).bit_length()))
    b.f(4, wb - 1)
    b.f(4, hb - 1)
    b.f(wb, g("w", 64) - 1)
    b.f(hb, g("h", 64) - 1)
    if not g("reduced", 0):
        b.f(1, 0)  # frame_id_numbers_present
    b.f(1, g("sb128", 0))
    b.f(1, g("filter_intra", 0))
    b.f(1, g("intra_edge", 0))
    if not g("reduced", 0):
        b.f(1, g("interintra", 0))
        b.f(1, g("masked", 0))
        b.f(1, g("warped", 0))
        b.f(1, g("dual_filter", 0))
        ohb = g("order_hint_bits", 0)
        b.f(1, 1 if ohb else 0)
        if ohb:
            b.f(1, g("jnt_comp", 0))
            b.f(1, g("ref_frame_mvs", 0))
        sct = g("sct", 0)
        if sct == 2:
            b.f(1, 1)
        else:
            b.f(1, 0)
            b.f(1, sct)
        if sct > 0:
            imv = g("imv", 2)
            if imv == 2:
                b.f(1, 1)
            else:
                b.f(1, 0)
                b.f(1, imv)
        if ohb:
            b.f(3, ohb - 1)
    b.f(1, g("superres", 0))
    b.f(1, g("cdef", 0))
    b.f(1, g("restoration", 0))
    # color config (profile 0): high_bitdepth, mono, color_desc_present, color_range, csp(2), separate_uv_delta_q
    b.f(1, g("hbd", 0))
    b.f(1, g("mono", 0))
    b.f(1, 0)
    b.f(1, 0)
    if not g("mono", 0):
        b.f(2, 0)
        b.f(1, g("sep_uv_dq", 0))
    b.f(1, g("film_grain", 0))
    b.trailing()
    return b.bytes()


def tile_log2(blk, target):
    k = 0
    while (blk << k) < target:
        k += 1
    return k


def film_grain(b, fg, s, ftype_inter):
    b.f(1, fg.get("apply", 1))
    if not fg.get("apply", 1):
        return
    b.f(16, fg.get("seed", 1234))
    if ftype_inter:
        b.f(1, fg.get("update", 1))
        if not fg.get("update", 1):
            b.f(3, fg["ref_idx"])
            return
    ypts = fg.get("y", [])
    b.f(4, fg.get("num_y", len(ypts)))
    for x, y in ypts:
        b.f(8, x)
        b.f(8, y)
    mono = s.get("mono", 0)
    cfl = fg.get("cfl", 0)
    if not mono:
        b.f(1, cfl)
    cb, cr = fg.get("cb", []), fg.get("cr", [])
    if mono or cfl or len(ypts) == 0 and fg.get("num_y", 0) == 0:
        cb, cr = [], []
    else:
        b.f(4, fg.get("num_cb", len(cb)))
        for x, y in cb:
            b.f(8, x)
            b.f(8, y)
        b.f(4, fg.get("num_cr", len(cr)))
        for x, y in cr:
            b.f(8, x)
            b.f(8, y)
    b.f(2, fg.get("scaling_shift", 3))
    lag = fg.get("lag", 0)
    b.f(2, lag)
    npl = 2 * lag * (lag + 1)
    if len(ypts):
        npc = npl + 1
        for i in range(npl):
            b.f(8, 128)
    else:
        npc = npl
    if cfl or len(cb):
        for i in range(npc):
            b.f(8, 128)
    if cfl or len(cr):
        for i in range(npc):
            b.f(8, 128)
    b.f(2, 1)  # ar_coeff_shift
    b.f(2, 0)  # grain_scale_shift
    if len(cb):
        b.f(8, 128)
        b.f(8, 192)
        b.f(9, 256)
    if len(cr):
        b.f(8, 128)
        b.f(8, 192)
        b.f(9, 256)
    b.f(1, fg.get("overlap", 0))
    b.f(1, fg.get("clip", 0))


def frame_header(s, fh, standalone=False):
    """Returns (bytes of uncompressed header, BW) - for OBU_FRAME the caller appends tile group."""
    g = fh.get
    b = BW()
    reduced = s.get("reduced", 0)
    ftype = g("type", 0)  # 0 KEY 1 INTER 2 INTRA_ONLY 3 S
    show = g("show", 1)
    intra = ftype in (0, 2)
    ohb = s.get("order_hint_bits", 0)
    if reduced:
        err_res = 1
        showable = 0
    else:
        b.f(1, g("show_existing", 0))
        if g("show_existing", 0):
            b.f(3, g("show_idx", 0))
            if standalone:
                b.trailing()
            return b
        b.f(2, ftype)
        b.f(1, show)
        if show:
            showable = 1 if ftype != 0 else 0
        else:
            showable = g("showable", 0)
            b.f(1, showable)
        if ftype == 3 or (ftype == 0 and show):
            err_res = 1
        else:
            err_res = g("err_res", 0)
            b.f(1, err_res)
    disable_cdf_update = g("disable_cdf_update", 0)
    b.f(1, disable_cdf_update)
    sct = s.get("sct", 0) if not reduced else 2
    if sct == 2:
        asct = g("allow_sct", 0)
        b.f(1, asct)
    else:
        asct = sct
    force_imv = 0
    if asct:
        imv = s.get("imv", 2) if not reduced else 2
        if imv == 2:
            force_imv = g("force_imv", 0)
            b.f(1, force_imv)
        else:
            force_imv = imv
    if intra:
        force_imv = 1
    if ftype == 3:
        override = 1
    elif reduced:
        override = 0
    else:
        override = g("override", 0)
        b.f(1, override)
    b.f(ohb, g("order_hint", 0))
    if intra or err_res:
        primary = 7
    else:
        primary = g("primary_ref", 7)
        b.f(3, primary)
    if ftype == 3 or (ftype == 0 and show):
        refresh = 0xFF
    else:
        refresh = g("refresh", 0)
        b.f(8, refresh)
    if (not intra or refresh != 0xFF) and err_res and ohb:
        for i in range(8):
            b.f(ohb, g("ref_order_hint", [0] * 8)[i])
    W, H = g("w", s.get("w", 64)), g("h", s.get("h", 64))
    wb = s.get("wbits", max(1, (s.get("w", 64) - 1).bit_length()))
    hb = s.get("hbits", max(1, (s.get("h", 64) - 1).bit_length()))

    def frame_size():
        if override:
            b.f(wb, upW - 1)
            b.f(hb, H - 1)
        if s.get("superres", 0):
            b.f(1, 1 if g("sr_denom", 8) != 8 else 0)
            if g("sr_denom", 8) != 8:
                b.f(3, g("sr_denom") - 9)

    def render_size():
        r = g("render", None)
        b.f(1, 1 if r else 0)
        if r:
            b.f(16, r[0] - 1)
            b.f(16, r[1] - 1)

    upW = W
    denom = g("sr_denom", 8) if s.get("superres", 0) else 8
    if denom != 8:
        W = max(min(16, upW), (upW * 8 + denom // 2) // denom)
    allow_intrabc = 0
    if intra:
        frame_size()
        render_size()
        if asct and upW == W:
            allow_intrabc = g("intrabc", 0)
            b.f(1, allow_intrabc)
    else:
        short = 0
        if ohb:
            short = g("short_sig", 0)
            b.f(1, short)
            if short:
                b.f(3, g("last_idx", 0))
                b.f(3, g("gold_idx", 0))
        for i in range(7):
            if not short:
                b.f(3, g("ref_idx", [0] * 7)[i])
        if override and not err_res:
            fr = g("found_ref", None)
            if fr is not None:
                for i in range(fr):
                    b.f(1, 0)
                b.f(1, 1)
                if s.get("superres", 0):
                    b.f(1, 1 if g("sr_denom", 8) != 8 else 0)
                    if g("sr_denom", 8) != 8:
                        b.f(3, g("sr_denom") - 9)
            else:
                for i in range(7):
                    b.f(1, 0)
                frame_size()
                render_size()
        else:
            frame_size()
            render_size()
        if not force_imv:
            b.f(1, g("hp_mv", 0))
        b.f(1, 1)  # is_filter_switchable
        b.f(1, g("motion_mode_switchable", 0))
        if not (err_res or not s.get("ref_frame_mvs", 0)):
            b.f(1, g("use_ref_frame_mvs", 0))
    if not (reduced or disable_cdf_update):
        b.f(1, g("disable_frame_end_update_cdf", 1))
    # tile info
    sbl = 5 if s.get("sb128", 0) else 4
    mi_cols = 2 * ((W + 7) >> 3)
    mi_rows = 2 * ((H + 7) >> 3)
    sb_cols = (mi_cols + (1 << sbl) - 1) >> sbl
    sb_rows = (mi_rows + (1 << sbl) - 1) >> sbl
    sb_size = sbl + 2
    max_tile_w_sb = 4096 >> sb_size
    max_area_sb = (4096 * 2304) >> (2 * sb_size)
    min_l2c = tile_log2(max_tile_w_sb, sb_cols)
    max_l2c = tile_log2(1, min(sb_cols, 64))
    max_l2r = tile_log2(1, min(sb_rows, 64))
    min_l2 = max(min_l2c, tile_log2(max_area_sb, sb_rows * sb_cols))
    t = g("tiles", None)  # None: fewest uniform tiles; ("u", cols_log2, rows_log2) or ("n", [widths], [heights])
    if t is None or t[0] == "u":
        b.f(1, 1)
        cl = t[1] if t else min_l2c
        rl_req = t[2] if t else None
        c = min_l2c
        while c < max_l2c:
            if c < cl:
                b.f(1, 1)
                c += 1
            else:
                b.f(1, 0)
                break
        min_l2r = max(min_l2 - c, 0)
        r = min_l2r
        rl = rl_req if rl_req is not None else min_l2r
        while r < max_l2r:
            if r < rl:
                b.f(1, 1)
                r += 1
            else:
                b.f(1, 0)
                break
        tw = (sb_cols + (1 << c) - 1) >> c
        th = (sb_rows + (1 << r) - 1) >> r
        ncols = (sb_cols + tw - 1) // tw
        nrows = (sb_rows + th - 1) // th
        cl2, rl2 = c, r
    else:
        b.f(1, 0)
        start = 0
        widest = 0
        ncols = 0
        for wsb in t[1]:
            mw = min(sb_cols - start, max_tile_w_sb)
            b.ns(mw, wsb - 1)
            widest = max(widest, wsb)
            start += wsb
            ncols += 1
        assert start >= sb_cols, (start, sb_cols)
        if min_l2 > 0:
            mta = (sb_rows * sb_cols) >> (min_l2 + 1)
        else:
            mta = sb_rows * sb_cols
        mth = max(mta // widest, 1)
        start = 0
        nrows = 0
        for hsb in t[2]:
            mh = min(sb_rows - start, mth)
            b.ns(mh, hsb - 1)
            start += hsb
            nrows += 1
        assert start >= sb_rows
        cl2, rl2 = tile_log2(1, ncols), tile_log2(1, nrows)
    if cl2 > 0 or rl2 > 0:
        b.f(cl2 + rl2, g("ctx_tile_id", 0))
        b.f(2, g("tile_size_bytes", 4) - 1)
    b.ntiles = ncols * nrows
    b.tile_bits = cl2 + rl2
    # quantization params
    q = g("q", 100)
    b.f(8, q)
    b.f(1, 0)  # y dc delta
    mono = s.get("mono", 0)
    if not mono:
        if s.get("sep_uv_dq", 0):
            b.f(1, 0)
        b.f(1, 0)
        b.f(1, 0)
    qm = g("qm", None)
    b.f(1, 1 if qm else 0)
    if qm:
        b.f(4, qm[0])
        b.f(4, qm[1])
        if s.get("sep_uv_dq", 0):
            b.f(4, qm[2])
    # segmentation
    seg = g("seg", None)
    b.f(1, 1 if seg else 0)
    if seg:
        if primary != 7:
            b.f(1, seg.get("update_map", 1))
            if seg.get("update_map", 1):
                b.f(1, seg.get("temporal", 0))
            b.f(1, seg.get("update_data", 1))
            upd = seg.get("update_data", 1)
        else:
            upd = 1
        if upd:
            bits = [8, 6, 6, 6, 6, 3, 0, 0]
            sgn = [1, 1, 1, 1, 1, 0, 0, 0]
            feats = seg.get("feats", {})  # {(seg, feat): value}
            for i in range(8):
                for j in range(8):
                    if (i, j) in feats:
                        b.f(1, 1)
                        if sgn[j]:
                            b.su(1 + bits[j], feats[(i, j)])
                        else:
                            b.f(bits[j], feats[(i, j)])
                    else:
                        b.f(1, 0)
    # delta q / lf
    dq = 0
    if q > 0:
        dq = g("delta_q", 0)
        b.f(1, dq)
    if dq:
        b.f(2, g("delta_q_res", 0))
        dlf = 0
        if not allow_intrabc:
            dlf = g("delta_lf", 0)
            b.f(1, dlf)
        if dlf:
            b.f(2, g("delta_lf_res", 0))
            b.f(1, g("delta_lf_multi", 0))
    lossless = q == 0 and not (seg and any(k[1] == 0 for k in seg.get("feats", {})))
    nplanes = 1 if mono else 3
    if not (lossless or allow_intrabc):
        lf = g("lf", (0, 0))
        b.f(6, lf[0])
        b.f(6, lf[1])
        if nplanes > 1 and (lf[0] or lf[1]):
            b.f(6, g("lf_uv", (0, 0))[0])
            b.f(6, g("lf_uv", (0, 0))[1])
        b.f(3, g("sharp", 0))
        lfd = g("lf_deltas", None)  # None: delta_enabled=0 ; else dict {'ref':{i:v}, 'mode':{i:v}}
        b.f(1, 1 if lfd is not None else 0)
        if lfd is not None:
            b.f(1, 1)
            for i in range(8):
                if i in lfd.get("ref", {}):
                    b.f(1, 1)
                    b.su(7, lfd["ref"][i])
                else:
                    b.f(1, 0)
            for i in range(2):
                if i in lfd.get("mode", {}):
                    b.f(1, 1)
                    b.su(7, lfd["mode"][i])
                else:
                    b.f(1, 0)
    if not (lossless or allow_intrabc or not s.get("cdef", 0)):
        cd = g("cdef", {"damping": 3, "bits": 0, "y": [0], "uv": [0]})
        b.f(2, cd["damping"] - 3)
        b.f(2, cd["bits"])
        for i in range(1 << cd["bits"]):
            b.f(6, cd["y"][i])
            if nplanes > 1:
                b.f(6, cd["uv"][i])
    if not (lossless or allow_intrabc or not s.get("restoration", 0)):
        lr = g("lr", {"types": [0, 0, 0]})
        uses = 0
        uses_c = 0
        for i in range(nplanes):
            b.f(2, lr["types"][i])
            if lr["types"][i]:
                uses = 1
                if i:
                    uses_c = 1
        if uses:
            sh = lr.get("shift", 0)
            if s.get("sb128", 0):
                b.f(1, sh)
            else:
                b.f(1, 1 if sh else 0)
                if sh:
                    b.f(1, sh - 1)
            if not mono and uses_c:
                b.f(1, lr.get("uv_shift", 0))
    if not lossless:
        b.f(1, g("tx_select", 0))
    if not intra:
        b.f(1, g("ref_select", 0))
        assert not g("ref_select", 0), "skip mode params not modelled"
        if not (err_res or not s.get("warped", 0)):
            b.f(1, g("allow_warped", 0))
    b.f(1, g("reduced_tx_set", 0))
    if not intra:
        gm = g("gm", [None] * 7)
        for i in range(7):
            if gm[i] is None:
                b.f(1, 0)  # is_global
            else:  # 'trans0': TRANSLATION model whose two parameters equal their prediction (4 zero bits each)
                b.f(1, 1)
                b.f(1, 0)
                b.f(1, 1)
                b.f(8, 0)
    if s.get("film_grain", 0) and (show or showable):
        film_grain(b, g("fg", {"apply": 0}), s, ftype == 1)
    if standalone:
        b.trailing()
    return b


def frame_obu(s, fh, tile_payloads, tg=None):
    """OBU_FRAME: header + byte align + tile group with the given list of tile payload byte strings."""
    b = frame_header(s, fh)
    b.align()
    data = b.bytes() + tile_group(b, fh, tile_payloads, tg)
    return obu(OBU_FRAME, data)


def tile_group(b, fh, tile_payloads, tg=None):
    t = BW()
    if b.ntiles > 1:
        t.f(1, 1 if tg else 0)
        if tg:
            t.f(b.tile_bits, tg[0])
            t.f(b.tile_bits, tg[1])
    t.align()
    out = t.bytes()
    tsb = fh.get("tile_size_bytes", 4)
    for i, p in enumerate(tile_payloads):
        if i != len(tile_payloads) - 1:
            out += (len(p) - 1).to_bytes(tsb, "little")
        out += p
    return out


def ivf(frames, w=64, h=64):
    out = b"DKIF" + struct.pack("<HHIHHIIII", 0, 32, 0x31305641, w, h, 30, 1, len(frames), 0)
    for i, f in enumerate(frames):
        out += struct.pack("<IQ", len(f), i) + f
    return out


def rnd(n, seed):
    r = random.Random(seed)
    return bytes(r.getrandbits(8) for _ in range(n))
