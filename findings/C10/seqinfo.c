#include <stdio.h>
#include <stdlib.h>
#include <string.h>
#include "EbSvtAv1Dec.h"
#include "EbAv1Structs.h"
EbErrorType svt_get_sequence_info(const uint8_t *obu_data, size_t size, SeqHeader *sequence_info);
int main(int argc,char**argv){
  /* sequence-header OBU, has_size_field=1, payload_size=8; operating_points_cnt_minus_1=31 makes the parser read >64 bits */
  static const unsigned char in[] = {0x0a,0x08,0x01,0xf0,0,0,0,0,0,0};
  size_t n = sizeof(in);
  unsigned char *buf = malloc(n); memcpy(buf,in,n);
  SeqHeader sh; memset(&sh,0,sizeof sh);
  EbErrorType e = svt_get_sequence_info(buf,n,&sh);
  printf("svt_get_sequence_info -> 0x%x\n",e);
  free(buf); return 0; }
