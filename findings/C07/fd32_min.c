#include <stdint.h>
#include <stdio.h>
void svt_full_distortion_kernel32_bits_c(int32_t *, uint32_t, int32_t *, uint32_t, uint64_t[2], uint32_t, uint32_t);
void svt_full_distortion_kernel32_bits_avx2(int32_t *, uint32_t, int32_t *, uint32_t, uint64_t[2], uint32_t, uint32_t);
static int32_t a[64*64], b[64*64];
int main(void){
  int vals[] = {1024, 2048, 4096, 8192, 16384};
  int dims[] = {8,16,32,64};
  for (int v=0; v<5; v++) for (int d=0; d<4; d++){
    for (int i=0;i<64*64;i++){a[i]=vals[v]; b[i]=0;}
    uint64_t r1[2]={0,0}, r2[2]={0,0};
    svt_full_distortion_kernel32_bits_c(a,64,b,64,r1,dims[d],dims[d]);
    svt_full_distortion_kernel32_bits_avx2(a,64,b,64,r2,dims[d],dims[d]);
    printf("coeff=%d recon=0 %dx%d: c=%llu/%llu avx2=%llu/%llu %s\n", vals[v], dims[d], dims[d], (unsigned long long)r1[0],(unsigned long long)r1[1],(unsigned long long)r2[0],(unsigned long long)r2[1], (r1[0]!=r2[0]||r1[1]!=r2[1])?"MISMATCH":"ok");
  }
  return 0;
}
