#include <stdint.h>
#include <stdio.h>
#include <stdlib.h>
#include <string.h>
uint64_t svt_spatial_full_distortion_kernel_c(uint8_t *, uint32_t, uint32_t, uint8_t *, int32_t, uint32_t, uint32_t, uint32_t);
uint64_t svt_spatial_full_distortion_kernel_avx512(uint8_t *, uint32_t, uint32_t, uint8_t *, int32_t, uint32_t, uint32_t, uint32_t);
int main(void) {
    int ws[] = {4, 64, 128, 132, 256}, hs[] = {64, 260, 8260, 16520};
    int bad = 0, n = 0;
    for (int i = 0; i < 5; i++) for (int j = 0; j < 4; j++) {
        int w = ws[i], h = hs[j], st = 512;
        uint8_t *a = calloc(st * (h + 2), 1), *b = malloc(st * (h + 2)); memset(b, 255, st * (h + 2));
        uint64_t c = svt_spatial_full_distortion_kernel_c(a, 0, st, b, 0, st, w, h);
        uint64_t v = svt_spatial_full_distortion_kernel_avx512(a, 0, st, b, 0, st, w, h);
        n++; if (c != v) { bad++; printf("w %d h %d: c %llu avx2 %llu MISMATCH\n", w, h, (unsigned long long)c, (unsigned long long)v); }
        free(a); free(b);
    }
    printf("%d of %d mismatch\n", bad, n);
    return 0;
}
