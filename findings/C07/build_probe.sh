#!/bin/bash
# Builds the probe programs against the object files of an already built tree (<worktree>/_b, made by
# /tmp/seeds/run_pinned.sh), because the kernels are not exported from libSvtAv1Enc.so.
# usage: build_probe.sh <worktree> <outdir>
set -e
W=$1; O=$2; HERE=$(cd "$(dirname "$0")" && pwd)
mkdir -p "$O"
grep "^build $W/Bin/Release/libSvtAv1Enc.so.0.8.6:" "$W/_b/build.ninja" | tr ' ' '\n' | grep '\.o$' | sed "s|^|$W/_b/|" > "$O/objs.txt"
gcc -O1 -o "$O/probe" "$HERE/probe.c" $(cat "$O/objs.txt") -lpthread -lm 2>/dev/null
gcc -O1 -o "$O/fd32_min" "$HERE/fd32_min.c" $(cat "$O/objs.txt") -lpthread -lm 2>/dev/null
echo "built $O/probe $O/fd32_min"
