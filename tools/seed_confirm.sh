#!/bin/bash
# usage: seed_confirm.sh <seed dir containing patch.diff and demo.sh>
# Confirms a seeded change in a fresh scratch worktree (outside /repo and /verif): demo passes without it; with it the
# tree builds, the pinned 42 tests pass and the demo fails.  Then applies it to /repo, runs every check, reverts.
set -u
S=$(cd "$1" && pwd)
W=/tmp/seeds/verify_wt
PIN=/verif/tools/run_pinned.sh
if [ ! -d $W ]; then git -C /repo worktree add --detach $W HEAD >/dev/null 2>&1 || exit 9; fi
git -C $W checkout -q -- . ; git -C $W checkout -q --detach ${BASE:-$(git -C /repo rev-parse HEAD)}; git -C $W clean -fdq -e _b -e Bin -e '_b.*' >/dev/null 2>&1
rm -rf $W/seed_out; cp -r $S $W/seed_out   # some demos look for their sources under <worktree>/seed_out
echo "== baseline build + demo (expect exit 0)"
JOBS=${JOBS:-16} $PIN $W || exit 3
bash $S/demo.sh $W > /tmp/seeds/verify_demo0.log 2>&1; d0=$?
echo "demo without change: exit=$d0"
echo "== with change"
git -C $W apply $S/patch.diff || { echo "patch does not apply"; exit 4; }
JOBS=${JOBS:-16} $PIN $W; p1=$?
bash $S/demo.sh $W > /tmp/seeds/verify_demo1.log 2>&1; d1=$?
echo "pinned with change: exit=$p1 ; demo with change: exit=$d1"
echo "== checks on the scratch worktree with the change applied (SVT_REPO=$W, separate fact cache)"
mkdir -p /tmp/seeds/evid /tmp/seeds/cache
[ -x /tmp/seeds/cache/svtfacts ] || cp /verif/.cache/svtfacts* /tmp/seeds/cache/ 2>/dev/null
SVT_REPO=$W SVT_CACHE=/tmp/seeds/cache VERIF_EVID_DIR=/tmp/seeds/evid python3 /verif/tools/runall.py ${CHECKS:-} 2>&1 | tee /tmp/seeds/verify_checks.log | grep -v "exit=0 "
git -C $W checkout -q -- .
echo "RESULT demo0=$d0 pinned1=$p1 demo1=$d1"
