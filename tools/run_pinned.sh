#!/bin/bash
# usage: run_pinned.sh <worktree>   -- builds (incrementally) and runs the pinned 42-test API suite; exit 0 iff all 42 pass
set -e
W=$1
[ -d $W/_b ] || cmake -G Ninja -S $W -B $W/_b -DCMAKE_BUILD_TYPE=Release -DBUILD_TESTING=ON > $W/_b.cfg.log 2>&1
ninja -C $W/_b -j${JOBS:-8} SvtAv1EncApp SvtAv1DecApp SvtAv1ApiTests > $W/_b.build.log 2>&1 || { tail -30 $W/_b.build.log; echo BUILD FAILED; exit 2; }
$W/Bin/Release/SvtAv1ApiTests > $W/_b.api.log 2>&1 || true
grep "OK \]" $W/_b.api.log | sed 's/.*OK \] //; s/ (.*//' | sort > $W/_b.pass.txt
if comm -23 /verif/tools/pinned_pass.txt $W/_b.pass.txt | grep . ; then echo "PINNED TESTS MISSING (above)"; exit 1; fi
echo "pinned suite: all 42 expected tests pass"
