#!/bin/bash
# quick self-consistency of /verif: every rule module imports, MANIFEST validates against the schema, every claimed check has an evidence file that validates
cd /verif
for f in rules/C*.py; do python3 -c "import importlib; importlib.import_module('rules.$(basename $f .py)')" || { echo "BROKEN $f"; exit 1; }; done
python3 tools/gen_manifest.py > /dev/null || exit 1
python3-vt - <<'PY' || exit 1
import json, jsonschema, os, sys
m = json.load(open('/verif/MANIFEST.json')); jsonschema.validate(m, json.load(open('/root/.vp/MANIFEST.schema.json')))
es = json.load(open('/root/.vp/EVIDENCE.schema.json'))
ids = {l and json.loads(l)['id'] for l in open('/verif/properties.jsonl')}
claimed = {c['property_id'] for c in m['checks']}; na = {n['property_id'] for n in m['not_applicable']}
assert claimed | na == ids and not (claimed & na), (claimed ^ ids, na)
for c in m['checks']:
    p = c['evidence_file']
    if not os.path.exists(p): print('missing evidence', p); sys.exit(1)
    jsonschema.validate(json.load(open(p)), es)
print('sanity ok: %d claimed, %d not applicable' % (len(claimed), len(na)))
PY
