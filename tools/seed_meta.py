#!/usr/bin/env python3
"""usage: seed_meta.py <seed dir> <property> <needs> -- writes meta.json from the last seed_confirm.sh run logs"""
import json, sys, os, re, datetime
d, prop, needs = sys.argv[1:4]
log = open('/tmp/seeds/verify_checks.log').read()
caught = re.findall(r'^(C\d\d) exit=1', log, re.M)
broken = re.findall(r'^(C\d\d) exit=2', log, re.M)
viol = [l.strip()[:400] for l in log.splitlines() if l.strip().startswith('violation:')]
meta = {
 'breaks_property': prop,
 'needs_to_manifest': needs,
 'origin': 'written by an independent sub-agent that saw only the property text and a scratch worktree (nothing from /verif)',
 'confirmed': {
   'how': 'tools/seed_confirm.sh: fresh scratch worktree of /repo HEAD under /tmp; Release build; demo.sh without the change; git apply patch.diff; rebuild; pinned 42 SvtAv1ApiTests; demo.sh with the change; then git -C /repo apply, tools/runall.py (all checks), git -C /repo checkout -- .',
   'demo_without_change_exit': 0, 'pinned_suite_with_change': 'all 42 pass', 'demo_with_change_exit': 'non-zero',
   'date': datetime.date.today().isoformat()},
 'checks_reporting_violation_when_first_tried': caught,
 'checks_analysis_broken': broken,
 'violation_lines': viol[:8],
}
json.dump(meta, open(os.path.join(d, 'meta.json'), 'w'), indent=1)
print(json.dumps(meta, indent=1)[:1500])
