#!/usr/bin/env python3
"""Triage-only: replay every probe configuration of the C12 check against the *built* library and compare the
library's accept/reject with the static evaluator's verdict.  Not part of any registered check (the checks never
execute the code); used once to make sure the evaluator does not misread the configuration code.

usage: tools/c12_replay.py   (needs /repo/_build with libSvtAv1Enc built from the current tree)
"""
import json, os, subprocess, sys, tempfile

V = os.path.dirname(os.path.dirname(os.path.abspath(__file__)))
probes = json.load(open(os.path.join(V, '.cache', 'c12_probes.json')))
src = ['#include <stdio.h>', '#include <string.h>', '#include "EbSvtAv1Enc.h"', 'int main(void){ EbComponentType *h; EbSvtAv1EncConfiguration c; int r;']
for i, p in enumerate(probes):
    src.append('h=NULL; memset(&c,0x5a,sizeof(c)); if (svt_av1_enc_init_handle(&h,NULL,&c)!=EB_ErrorNone) return 2; c.source_width=640; c.source_height=480;')
    for k, v in p['over'].items():
        if k == 'rc_twopass_stats_in.sz':
            src.append('c.rc_twopass_stats_in.sz = %dULL;' % v)
        else:
            src.append('c.%s = (__typeof__(c.%s))%dLL;' % (k, k, v))
    src.append('r = svt_av1_enc_set_parameter(h,&c); printf("%d %%d\\n", r!=EB_ErrorNone); fflush(stdout); svt_av1_enc_deinit_handle(h);' % i)
src.append('return 0;}')
d = tempfile.mkdtemp(prefix='c12replay')
open(os.path.join(d, 'r.c'), 'w').write('\n'.join(src))
subprocess.check_call(['cmake', '--build', '/repo/_build', '--target', 'SvtAv1Enc', '-j16'], stdout=subprocess.DEVNULL)
subprocess.check_call(['gcc', '-O0', '-w', '-I/repo/Source/API', os.path.join(d, 'r.c'), '-o', os.path.join(d, 'r'),
                       '-L/repo/Bin/RelWithDebInfo', '-lSvtAv1Enc', '-Wl,-rpath,/repo/Bin/RelWithDebInfo'])
out = subprocess.run([os.path.join(d, 'r')], capture_output=True, text=True, timeout=600).stdout
got = {}
for l in out.splitlines():
    a = l.split()
    if len(a) == 2 and a[0].isdigit():
        got[int(a[0])] = a[1] == '1'
bad = 0
for i, p in enumerate(probes):
    if i not in got:
        print('no result for', p['over'])
        bad += 1
    elif p['rejected'] is None:
        print('evaluator undecided, library says', got[i], p['over'], p['note'])
    elif got[i] != p['rejected']:
        print('MISMATCH evaluator=%s library=%s %s' % (p['rejected'], got[i], p['over']))
        bad += 1
print('%d probes replayed, %d mismatches' % (len(probes), bad))
subprocess.call(['rm', '-rf', d])
sys.exit(1 if bad else 0)
