#!/usr/bin/env python3
"""Print the markdown table of DESIGN.md section 10 from seeded/*/meta.json (after tools/seed_rerun.py)."""
import json, glob, os
HERE = os.path.dirname(os.path.dirname(os.path.abspath(__file__)))
# rules written or reformulated only after the seed's description was known to me (everything else was blind)
POST_HOC = {'C02-a': 'C02.FRAME reformulated (first version fired for the wrong reason)', 'C03-a': 'C03.PTSWIDTH', 'C04-a': 'C04.CVRESET', 'C15-a': 'C15.COUNT',
            'C16-a': 'C16.UNDEF', 'C24-a': 'C24.GRID', 'C23-a': 'C23.RELEASE/disarm', 'C25-a': 'C25.GROW', 'C21-a': 'C21.PADFIRST overlay', 'C20-a': 'C20.TILESYM',
            'C05-a': 'C05 implemented after the seed arrived (rule as designed beforehand)', 'C23-b': 'C23.WAKE', 'C16-b': 'C16.PUBLISHED', 'C14-b': 'C14.5-NBQUIT',
            'C04-b': 'C04.TESTSET', 'C15-b': 'C15.SHUT/unconditional', 'C02-b': 'C02.PICTYPE',
            'C10-b': 'C10.REINIT', 'C18-b': 'C18.PLUMB', 'C22-b': 'C22 cursor obligations (first flagged for the wrong reason; corrected)', 'C12-b': 'C12.COPY', 'C09-b': 'C09.ONCE',
            'C03-b': 'C03.EOS link 2b', 'C17-b': 'C17.ESCAPE', 'C24-b': 'C24.UNITS', 'C24-c': 'C24.REARM', 'C26-a': 'C26.AXIS (the rest of C26 existed before the seed)',
            'C27-a': 'C27.RECONEOS / C03.EOS link 5', 'C06-a': 'C06.ACC16', 'C07-a': 'C07.SATSIGN', 'C09-a': 'C09.PROGRESS coordinate frame',
            'C10-c': 'C10.TILESIZE', 'C14-c': 'C14.1b-NESTED', 'C18-c': 'C18 clamp helpers + narrowing (first flagged for the wrong reason: unknown helper; corrected)',
            'C20-c': 'C20.OFF chain extended to the mode-decision levels', 'C21-c': 'C21.LAYOUT', 'C12-c': 'C12.ACCUM (C16.ERR caught it blind)',
            'C16-c': 'C16.TEARDOWN (C15.SHUT caught it blind)',
            'C02-c': 'C02.APIEFFECT (first run ended analysis-broken: the serialiser was looked up by name; now structural)',
            'C05-b': 'C05.SCRATCH (missed by every check until round 7)', 'C06-b': 'C07/C06.SATSIGN extended to signed packs and made flow-sensitive',
            'C07-b': 'C07.ACC16: the rule existed (C06.ACC16 caught it blind); it is now reported under C07 too',
            'C26-b': 'C26.SOURCE presence predicates (first run ended analysis-broken: the selector was looked up by the flag name)',
            'C27-b': 'C27.PERPIC', 'C09-c': 'C09.BARRIERRESET', 'C19-b': 'C19.COUNTER rewind guard', 'C20-d': 'C20.APPLY', 'C22-d': 'C22.REKEY span clause', 'C24-d': 'C24.TASKHDR / C04.MSGHDR', 'C14-d': 'C14.3-BOUND copy lengths prepared in locals (worst-case evaluation)', 'C16-d': 'C16.DCTORSAFE element paths', 'C12-d': 'C12.TWIN', 'C19-c': 'C19.COUNTER extra conjunct (first run ended analysis-broken: the raise was recognised only in its literal form)', 'C26-c': 'C26.FLOW before-handover clause', 'C10-e': 'C10.REFNULL extended to the primary reference pointer (NULL when the header names none) and to conditional-expression guards', 'C02-d': 'C02.BYTEWIDTH'}
rows = []
for f in sorted(glob.glob(os.path.join(HERE, 'seeded', '*', 'meta.json'))):
    m = json.load(open(f)); sid = os.path.basename(os.path.dirname(f))
    now = m.get('checks_reporting_new_violation_now', [])
    first = m.get('checks_reporting_violation_when_first_tried', [])
    prop = m['breaks_property']
    rule = ''
    for l in m.get('new_violation_lines_now', []) + m.get('own_violation_lines_now', []):
        if l.startswith('violation: [' + prop):
            rule = l.split(']')[0].split('[')[1]; break
    own_now = prop in now
    own_first = prop in first
    status = ('caught by %s' % rule) if own_now else 'MISSED'
    if own_now:
        status += (' - post hoc: ' + POST_HOC[sid]) if sid in POST_HOC else ' - blind'
    other = [c for c in now if c != prop]
    rows.append('| %s | %s | %s | %s%s |' % (sid, prop, m['needs_to_manifest'][:150].replace('|', '/'), status, (' ; also ' + ','.join(other)) if other else ''))
print('| seed | property | needs, in order to manifest | static checks |')
print('|---|---|---|---|')
print('\n'.join(rows))
