#!/usr/bin/env python3
"""Print the markdown table of DESIGN.md section 10 from seeded/*/meta.json (after tools/seed_rerun.py)."""
import json, glob, os
HERE = os.path.dirname(os.path.dirname(os.path.abspath(__file__)))
rows = []
for f in sorted(glob.glob(os.path.join(HERE, 'seeded', '*', 'meta.json'))):
    m = json.load(open(f)); sid = os.path.basename(os.path.dirname(f))
    now = m.get('checks_reporting_new_violation_now', [])
    first = m.get('checks_reporting_violation_when_first_tried', [])
    prop = m['breaks_property']
    rule = ''
    for l in m.get('new_violation_lines_now', []):
        if l.startswith('violation: [' + prop):
            rule = l.split(']')[0].split('[')[1]; break
    own_now = prop in now
    own_first = prop in first
    status = ('caught by %s' % rule) if own_now else 'MISSED'
    if own_now and not own_first:
        status += ' (added after this seed)'
    other = [c for c in now if c != prop]
    rows.append('| %s | %s | %s | %s%s |' % (sid, prop, m['needs_to_manifest'][:150].replace('|', '/'), status, (' ; also ' + ','.join(other)) if other else ''))
print('| seed | property | needs, in order to manifest | static checks |')
print('|---|---|---|---|')
print('\n'.join(rows))
