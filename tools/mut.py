#!/usr/bin/env python3
"""Apply a one-off textual mutation to /repo, run checks, revert.  Usage:
   tools/mut.py <repo-relative file> <old> <new> <check id> [<check id> ...]
The mutation must match exactly once.  /repo is restored with `git checkout -- <file>` afterwards."""
import subprocess, sys, os

f, old, new = sys.argv[1:4]
ids = sys.argv[4:]
p = os.path.join('/repo', f)
s = open(p).read()
old = old.encode().decode('unicode_escape')
new = new.encode().decode('unicode_escape')
if s.count(old) != 1:
    print('mutation site matches %d times' % s.count(old))
    sys.exit(3)
open(p, 'w').write(s.replace(old, new))
try:
    for i in ids:
        r = subprocess.run(['/verif/check', i], capture_output=True, text=True)
        lines = [l for l in r.stdout.splitlines() if l.startswith(('violation', 'ANALYSIS', i + ':'))]
        print('exit=%d' % r.returncode)
        for l in lines[:8]:
            print('   ' + l[:260])
        if r.returncode not in (0, 1, 2) or r.stderr.strip():
            print(r.stderr[-800:])
finally:
    subprocess.run(['git', '-C', '/repo', 'checkout', '--', f])
