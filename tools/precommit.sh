#!/bin/bash
# Run every check on /repo (quick tier), regenerate the manifest, validate manifest + evidence; non-zero if anything is not clean.
cd /verif
python3 tools/gen_manifest.py >/dev/null || exit 1
bad=$(python3 tools/runall.py 2>&1 | grep "exit=" | grep -v "exit=0 ")
if [ -n "$bad" ]; then echo "NOT CLEAN:"; echo "$bad"; exit 1; fi
tools/sanity.sh | tail -1
