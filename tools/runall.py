#!/usr/bin/env python3
"""Run every rule module (or the ones named) against /repo's current tree in ONE process (facts loaded once).
Evidence goes to $VERIF_EVID_DIR if set (use a scratch dir when /repo carries a seeded patch).
Prints one line per property:  Cxx exit=<0|1|2> violations=<n> ; and the violation lines."""
import importlib, io, os, sys, contextlib, json, traceback
HERE = os.path.dirname(os.path.dirname(os.path.abspath(__file__)))
sys.path.insert(0, HERE); os.chdir(HERE)
from engine import facts, core
from engine.compdb import AnalysisBroken

def main():
    ids = sys.argv[1:] or sorted(f[:-3] for f in os.listdir('rules') if f.startswith('C') and f.endswith('.py'))
    tier = os.environ.get('VERIF_TIER', 'quick')
    P = facts.load('prod')
    res = {}
    allv = {}
    for pid in ids:
        mod = importlib.import_module('rules.' + pid)
        rep = core.Report(pid, tier)
        buf = io.StringIO()
        try:
            with contextlib.redirect_stdout(buf):
                mod.run(P, rep, tier)
                rc = core.finish(rep)
        except AnalysisBroken as e:
            rc = 2; buf.write('ANALYSIS-BROKEN %s\n' % e)
        except Exception:
            rc = 2; buf.write(traceback.format_exc())
        out = buf.getvalue()
        v = [l for l in out.splitlines() if l.startswith('violation:') or l.startswith('ANALYSIS-BROKEN') or 'Error' in l]
        allv[pid] = {'rc': rc, 'violations': [l[11:].split(' at ', 1)[0] for l in out.splitlines() if l.startswith('violation:')],
                     'lines': [l[:400] for l in out.splitlines() if l.startswith('violation:')]}
        print('%s exit=%d violations=%d' % (pid, rc, sum(1 for l in v if l.startswith('violation:'))))
        for l in v[:6]:
            print('    ' + l[:300])
        res[pid] = rc
    if os.environ.get('VERIF_RUNALL_JSON'):
        json.dump(allv, open(os.environ['VERIF_RUNALL_JSON'], 'w'), indent=1)
    return 0

if __name__ == '__main__':
    sys.exit(main())
