#!/usr/bin/env python3
"""Re-run every check against every confirmed seeded change (applied to a scratch worktree of /repo HEAD that the checks read through SVT_REPO; reverted straight afterwards) and record in
each meta.json which checks report a violation *now*.  Evidence of these runs goes to a scratch directory."""
import json, os, re, subprocess, sys, glob
HERE = os.path.dirname(os.path.dirname(os.path.abspath(__file__)))
seeds = sorted(glob.glob(os.path.join(HERE, 'seeded', '*', 'patch.diff')))
only = set(sys.argv[1:])
W = '/tmp/seeds/verify_wt'   # scratch worktree of /repo HEAD (outside /repo and /verif); checks read it through SVT_REPO
summary = {}
for p in seeds:
    d = os.path.dirname(p); sid = os.path.basename(d)
    if only and sid not in only:
        continue
    subprocess.run(['git', '-C', W, 'checkout', '-q', '--', '.'])
    subprocess.run(['git', '-C', W, 'checkout', '-q', '--detach', subprocess.check_output(['git', '-C', '/repo', 'rev-parse', 'HEAD'], text=True).strip()])
    r = subprocess.run(['git', '-C', W, 'apply', p])
    if r.returncode:
        print(sid, 'patch does not apply'); continue
    try:
        env = dict(os.environ, VERIF_EVID_DIR='/tmp/seeds/evid', SVT_REPO=W, SVT_CACHE='/tmp/seeds/cache')
        os.makedirs('/tmp/seeds/evid', exist_ok=True)
        out = subprocess.run([sys.executable, os.path.join(HERE, 'tools', 'runall.py')], capture_output=True, text=True, env=env).stdout
    finally:
        subprocess.run(['git', '-C', W, 'checkout', '-q', '--', '.'])
    caught = re.findall(r'^(C\d\d) exit=1', out, re.M)
    broken = re.findall(r'^(C\d\d) exit=2', out, re.M)
    viol = [l.strip()[:400] for l in out.splitlines() if l.strip().startswith('violation:')]
    mf = os.path.join(d, 'meta.json')
    m = json.load(open(mf)) if os.path.exists(mf) else {}
    m['checks_reporting_violation_now'] = caught
    m['checks_analysis_broken_now'] = broken
    m['violation_lines_now'] = viol[:8]
    json.dump(m, open(mf, 'w'), indent=1)
    summary[sid] = (caught, broken)
    print(sid, 'caught by', caught, 'broken', broken)
