#!/usr/bin/env python3
"""Re-run every check against every confirmed seeded change and record in each meta.json which checks report a violation
that the seed's base tree does not have.  The seeded patch is applied to a scratch worktree (outside /repo and /verif) checked
out at the /repo commit the seed was written against (meta.json base_commit); the checks read that tree through SVT_REPO with
a separate fact cache, so /repo itself is never touched.  Usage: seed_rerun.py [seed ids...]"""
import json, os, re, subprocess, sys, glob
HERE = os.path.dirname(os.path.dirname(os.path.abspath(__file__)))
W = os.environ.get('SEED_WT', '/tmp/seeds/rerun_wt')
seeds = sorted(glob.glob(os.path.join(HERE, 'seeded', '*', 'patch.diff')))
only = set(sys.argv[1:])
os.makedirs('/tmp/seeds/evid', exist_ok=True); os.makedirs('/tmp/seeds/evid_' + os.path.basename(W), exist_ok=True)
if not os.path.isdir(W):
    subprocess.check_call(['git', '-C', '/repo', 'worktree', 'add', '--detach', W, 'HEAD'], stdout=subprocess.DEVNULL, stderr=subprocess.DEVNULL)
head = subprocess.check_output(['git', '-C', '/repo', 'rev-parse', '--short', 'HEAD'], text=True).strip()
base_cache = {}


OWN_ONLY = os.environ.get('SEED_OWN_ONLY') == '1'      # only the check of the property the seed breaks (fast re-check after a rule change)


def run(tag, pids=()):
    out = '/tmp/seeds/evid/runall_%s_%s.json' % (os.path.basename(W), tag)
    env = dict(os.environ, VERIF_EVID_DIR='/tmp/seeds/evid_' + os.path.basename(W), SVT_REPO=W, SVT_CACHE=os.environ.get('SEED_CACHE', '/tmp/seeds/cache_rerun'), VERIF_RUNALL_JSON=out)
    subprocess.run([sys.executable, os.path.join(HERE, 'tools', 'runall.py')] + list(pids), capture_output=True, text=True, env=env)
    return json.load(open(out))


for p in seeds:
    d = os.path.dirname(p); sid = os.path.basename(d)
    if only and sid not in only:
        continue
    mf = os.path.join(d, 'meta.json')
    m = json.load(open(mf)) if os.path.exists(mf) else {}
    base = m.get('base_commit') or head
    subprocess.run(['git', '-C', W, 'checkout', '-q', '--', '.'])
    subprocess.check_call(['git', '-C', W, 'checkout', '-q', '--detach', base])
    own = (m.get('breaks_property') or sid.split('-')[0],) if OWN_ONLY else ()
    bkey = (base,) + own
    if bkey not in base_cache:
        base_cache[bkey] = run('base_' + '_'.join(bkey), own)
    b = base_cache[bkey]
    if subprocess.run(['git', '-C', W, 'apply', p]).returncode:
        print(sid, 'patch does not apply to', base); continue
    try:
        r = run(sid, own)
    finally:
        subprocess.run(['git', '-C', W, 'checkout', '-q', '--', '.'])
    new = {}
    for pid, v in r.items():
        bv = set(b.get(pid, {}).get('violations', []))
        nv = [l for k, l in zip(v['violations'], v['lines']) if k not in bv]
        if nv:
            new[pid] = nv
        elif v['rc'] == 2 and b.get(pid, {}).get('rc') != 2:
            new[pid] = ['ANALYSIS-BROKEN (exit 2)']
    if OWN_ONLY:
        prev_other = [c for c in m.get('checks_reporting_new_violation_now', []) if c not in own]
    m['checks_reporting_new_violation_now'] = sorted(k for k, v in new.items() if v != ['ANALYSIS-BROKEN (exit 2)'])
    m['checks_analysis_broken_now'] = sorted(k for k, v in new.items() if v == ['ANALYSIS-BROKEN (exit 2)'])
    m['new_violation_lines_now'] = [l for v in new.values() for l in v][:8]
    m['own_violation_lines_now'] = [l[:300] for l in new.get(m.get('breaks_property') or sid.split('-')[0], [])][:3]
    m['rerun_at_verif_commit'] = subprocess.check_output(['git', '-C', HERE, 'rev-parse', '--short', 'HEAD'], text=True).strip()
    m['base_commit'] = base
    if OWN_ONLY:
        m['checks_reporting_new_violation_now'] = sorted(set(m['checks_reporting_new_violation_now']) | set(prev_other))
    for k in ('checks_reporting_violation_now', 'violation_lines_now'):
        m.pop(k, None)
    json.dump(m, open(mf, 'w'), indent=1)
    print(sid, 'base', base, 'caught by', m['checks_reporting_new_violation_now'], 'broken', m['checks_analysis_broken_now'])
