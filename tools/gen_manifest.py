#!/usr/bin/env python3
"""Generate MANIFEST.json: one check per rule module under rules/ (metadata in each module's META),
everything else under not_applicable with its reason."""
import importlib, json, os, sys

HERE = os.path.dirname(os.path.dirname(os.path.abspath(__file__)))
sys.path.insert(0, HERE)

NOT_APPLICABLE = {
    'C01': 'sample-exact equality of two long arithmetic pipelines over runtime samples; no code-shape clause decides it (C25/C06/C07 cover necessary table/dispatch conditions)',
    'C08': 'equality of decoded samples with reference decoders is a value-level property of ~60 kLOC of arithmetic; nothing structural to decide',
    'C11': 'memory safety / termination of the whole encoder for all contents and sizes; no sound static bound on ~150 kLOC of kernels is in reach (init/config-time slices are claimed under C14, C16)',
}
PENDING = 'static check designed (DESIGN.md section 5) but not implemented in this revision; not claimed'


def main():
    props = [json.loads(l) for l in open(os.path.join(HERE, 'properties.jsonl'))]
    ids = [p['id'] for p in props]
    checks, na, claimed = [], [], []
    for pid in ids:
        if os.path.exists(os.path.join(HERE, 'rules', pid + '.py')) and pid not in NOT_APPLICABLE:
            m = importlib.import_module('rules.' + pid).META
            claimed.append(pid)
            checks.append({
                'property_id': pid,
                'quick_cmd': './check %s --tier quick' % pid,
                'thorough_cmd': './check %s --tier thorough' % pid,
                'evidence_file': '/verif/evidence/%s.json' % pid,
                'replay_cmd_template': './check %s --replay {path}' % pid,
                'engine': 'svtfacts',
                'level_claimed': {'category': 'other', 'text': m['text'], 'design_ref': m['ref']},
                'level_note': m['note'],
                'technique': 'static analysis: ' + m['technique'],
            })
        else:
            na.append({'property_id': pid, 'reason': NOT_APPLICABLE.get(pid, PENDING)})
    m = {
        'version': 1,
        'setup_cmd': 'python3 -m engine.setup',
        'hooks': {
            'guard': 'SVT_AV1_VERIF',
            'enable': 'no source hooks: the checkers read the unmodified tree (nothing is compiled with the guard)',
            'baseline_off_cmd': 'cmake --build /repo/_build --target SvtAv1ApiTests -j16 && ctest --test-dir /repo/_build -j8 --timeout 900',
            'source_commits': [],
            'add_only': True,
        },
        'engines': [{
            'name': 'svtfacts',
            'path': 'engine/',
            'serves_properties': claimed,
            'kind_free_text': 'repository-specific static analyser: libTooling (clang 14) extractor emitting per-function event-CFGs, '
                              'structured control contexts, macro-expansion stacks, records and globals for every unit of the real '
                              'CMake compile database; Python rule modules (dominance, lockset, taint/nullness, call-graph reachability, '
                              'ownership, dependence) one per property',
        }],
        'checks': checks,
        'not_applicable': na,
        'notes': 'All checks are static (no execution of the encoder/decoder). exit 2 = analysis broken (anchor vanished / rule below its '
                 'instance floor). Known genuine defects: known_findings.json. See DESIGN.md.',
    }
    json.dump(m, open(os.path.join(HERE, 'MANIFEST.json'), 'w'), indent=1)
    print('MANIFEST: %d checks, %d not applicable' % (len(checks), len(na)))


if __name__ == '__main__':
    main()
