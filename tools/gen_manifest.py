#!/usr/bin/env python3
"""Generate MANIFEST.json from the table below (kept in one place so it stays valid)."""
import json, os

HERE = os.path.dirname(os.path.dirname(os.path.abspath(__file__)))

CLAIMED = {
    # id: (technique, level text, level note, design ref)
    'C14': ('CFG may-analysis for NULL dominance + lockset dataflow + dominance of range tests + call-graph reachability of blocking primitives',
            'Decides four structural clauses on every path of all EB_API functions: NULL-argument tests dominate every dereference '
            '(interprocedural), no API exit leaves a mutex held (so a rejected configuration leaves the handle usable), caller-controlled '
            'counts are range-tested before bounding array accesses in the set_parameter flow, and only allow-listed blocking primitives '
            'are reachable per API function. Structure, not behaviour: it does not execute call sequences.',
            'clang 14 front end/CFG; production flags from CMake (-DNDEBUG); handle-internal state (p_component_private) assumed valid; '
            'function-pointer targets resolved from address-taken facts',
            'DESIGN.md section 5 C14'),
    'C23': ('lockset dataflow (pairing, order, guarded-by with interprocedural entry locksets) + dominance/post-dominance (wait=>pop, push=>post) + control dependence + ring wrap-idiom recognition on EbSystemResourceManager.c',
            'Decides the structural protocol clauses of the System Resource Manager on every path of its 30-odd functions: lock pairing, '
            'queue->fifo lock order, guarded-by of ring buffers / fifo links / wrapper counters, push=>post, wait=>pop, quit-guarded pop, '
            'FIFO direction and ring index arithmetic shape, release condition. These are necessary conditions of safe hand-out and wake-up '
            'under every interleaving; liveness of the whole protocol and lost-wake-up freedom of the non-blocking get are not decided.',
            'pthread semantics; callers classified single-threaded (init/dctor) by call-graph reachability are excluded from the entry-lockset intersection',
            'DESIGN.md section 5 C23'),
}

NOT_APPLICABLE = {
    'C01': 'sample-exact equality of two long arithmetic pipelines over runtime samples; no code-shape clause decides it (C25/C06/C07 cover necessary table/dispatch conditions)',
    'C08': 'equality of decoded samples with reference decoders is a value-level property of ~60 kLOC of arithmetic; nothing structural to decide',
    'C11': 'memory safety / termination of the whole encoder for all contents and sizes; no sound static bound on ~150 kLOC of kernels is in reach (init/config-time slices are claimed under C14, C16)',
    'C19': 'key-frame placement is modular counter arithmetic across mini-GOP boundaries and decode-from-keyframe equality is value-level; not a shape property',
    'C26': 'numeric equality of SSE over runtime buffers; which buffers are compared depends on runtime frame type',
    'C27': 'quantifies over application call histories and pool occupancy; its only structural ingredient (polling APIs use the non-blocking get) is decided under C14 rule 4',
}


def main():
    props = [json.loads(l) for l in open(os.path.join(HERE, 'properties.jsonl'))]
    ids = [p['id'] for p in props]
    checks = []
    for pid in ids:
        if pid in CLAIMED:
            tech, text, note, ref = CLAIMED[pid]
            checks.append({
                'property_id': pid,
                'quick_cmd': './check %s --tier quick' % pid,
                'thorough_cmd': './check %s --tier thorough' % pid,
                'evidence_file': '/verif/evidence/%s.json' % pid,
                'replay_cmd_template': './check %s --replay {path}' % pid,
                'engine': 'svtfacts',
                'level_claimed': {'category': 'other', 'text': text, 'design_ref': ref},
                'level_note': note,
                'technique': 'static analysis: ' + tech,
            })
    na = []
    for pid in ids:
        if pid not in CLAIMED:
            reason = NOT_APPLICABLE.get(pid) or PENDING.get(pid)
            na.append({'property_id': pid, 'reason': reason})
    m = {
        'version': 1,
        'setup_cmd': 'python3 -m engine.setup',
        'hooks': {
            'guard': 'SVT_AV1_VERIF',
            'enable': 'no source hooks: the checkers read the unmodified tree (nothing is compiled with the guard)',
            'baseline_off_cmd': 'cmake --build /repo/_build --target SvtAv1ApiTests -j16 && ctest --test-dir /repo/_build -j8 --timeout 900',
            'source_commits': [],
            'add_only': True,
        },
        'engines': [{
            'name': 'svtfacts',
            'path': 'engine/',
            'serves_properties': sorted(CLAIMED),
            'kind_free_text': 'repository-specific static analyser: libTooling (clang 14) extractor emitting per-function event-CFGs, '
                              'structured control contexts, macro-expansion stacks, records and globals for every unit of the real '
                              'CMake compile database; Python rule modules (dominance, lockset, taint/nullness, call-graph reachability, '
                              'ownership, dependence) one per property',
        }],
        'checks': checks,
        'not_applicable': na,
        'notes': 'All checks are static (no execution of the encoder/decoder). exit 2 = analysis broken (anchor vanished / rule below its '
                 'instance floor). Known genuine defects: known_findings.json. See DESIGN.md.',
    }
    json.dump(m, open(os.path.join(HERE, 'MANIFEST.json'), 'w'), indent=1)
    print('MANIFEST: %d checks, %d not applicable' % (len(checks), len(na)))


# properties whose rule module is not implemented yet (kept honest: listed as not claimed until the check exists)
PENDING = {pid: 'static check designed (DESIGN.md section 5) but not yet implemented in this revision; not claimed'
           for pid in ['C02', 'C03', 'C04', 'C05', 'C06', 'C07', 'C09', 'C10', 'C12', 'C13', 'C15', 'C16', 'C17', 'C18', 'C20',
                       'C21', 'C22', 'C23', 'C24', 'C25'] if pid not in CLAIMED}

if __name__ == '__main__':
    main()
