#!/bin/bash
# usage: seed_take.sh <prop> <suffix> "<needs to manifest>"   -- copy the sub-agent's deliverables, confirm, write meta.json
P=$1; S=$2; N=$3
D=/verif/seeded/$P-$S
mkdir -p $D && cp -r ${SRC:-/tmp/seeds/w_$P}/seed_out/* $D/ && rm -rf $D/__pycache__
BASE=$(python3 -c "import json;b=json.load(open('/verif/tools/seed_bases.json'));print(b.get('$P-$S') or b['$P'])")
BASE=$BASE /verif/tools/seed_confirm.sh $D > /tmp/seeds/confirm_$P-$S.log 2>&1
tail -8 /tmp/seeds/confirm_$P-$S.log
if grep -q "RESULT demo0=0 pinned1=0 demo1=[1-9]" /tmp/seeds/confirm_$P-$S.log; then
  python3 /verif/tools/seed_meta.py $D $P "$N" > /dev/null
  python3 - $D $BASE <<'PY'
import json,sys
f=sys.argv[1]+"/meta.json"; m=json.load(open(f)); m["base_commit"]=sys.argv[2]; json.dump(m,open(f,"w"),indent=1)
PY
  echo "CONFIRMED $P-$S"
else echo "NOT CONFIRMED $P-$S"; fi
