#!/bin/bash
# Rebuild /repo/_build (guard off: no hooks exist) and run the pinned API test binary; compare with BASELINE.json.
set -e
cmake --build /repo/_build --target SvtAv1ApiTests -j16 > /tmp/svt_build.log 2>&1 || { tail -30 /tmp/svt_build.log; exit 1; }
cd /repo/_build
OUT=$(mktemp)
/repo/Bin/RelWithDebInfo/SvtAv1ApiTests --gtest_output=json:$OUT.json > $OUT.log 2>&1 || true
python3 - "$OUT.json" <<'PY'
import json,sys
base=json.load(open('/root/.vp/BASELINE.json'))
want=set(base['stable_pass'])
d=json.load(open(sys.argv[1]))
passed=set()
for s in d['testsuites']:
    for t in s['testsuite']:
        nm=s['name'].split('/')[-1] if False else s['name']
        ok = t.get('status')=='RUN' and not t.get('failures')
        # baseline names are Suite::test with parameter suffixes stripped
        suite=s['name'].split('/')[0] if '/' not in s['name'] else s['name'].split('/')[1] if s['name'].count('/')==1 and s['name'].split('/')[0].isalpha()==False else s['name'].split('/')[-1]
        name=t['name'].split('/')[0]
        if ok: passed.add(suite+'::'+name)
        else: passed.discard(suite+'::'+name)
missing=sorted(want-passed)
print('baseline stable tests passing: %d/%d' % (len(want&passed), len(want)))
if missing: print('MISSING:', missing); sys.exit(1)
PY
rm -f $OUT $OUT.json $OUT.log
