#!/usr/bin/env python3
"""Try mutants of selftest/mutants.json by id in a scratch worktree of /repo HEAD (never touches /repo's working tree).
Usage: tools/mut_id.py <mutant id> [...]   - prints the violations that the mutated tree has and the clean tree has not."""
import json, os, subprocess, sys, tempfile, shutil
V = os.path.dirname(os.path.dirname(os.path.abspath(__file__)))
muts = {m['id']: m for m in json.load(open(os.path.join(V, 'selftest', 'mutants.json')))['mutants']}
tmp = tempfile.mkdtemp(prefix='svt_mut_')
wt, cache, evid = os.path.join(tmp, 'wt'), os.path.join(tmp, 'cache'), os.path.join(tmp, 'evid')
os.makedirs(cache); os.makedirs(evid)
for f in ('svtfacts', 'svtfacts.srchash'):
    p = os.path.join(V, '.cache', f)
    if os.path.exists(p):
        shutil.copy2(p, os.path.join(cache, f))
env = dict(os.environ, SVT_REPO=wt, SVT_CACHE=cache, VERIF_EVID_DIR=evid)


def run(pid, cfg=None):
    e = dict(env)
    e.pop('VERIF_ALT_CONFIG', None)
    if cfg:
        e['VERIF_ALT_CONFIG'] = cfg
    r = subprocess.run([os.path.join(V, 'check'), pid], capture_output=True, text=True, env=e)
    return r.returncode, [l for l in r.stdout.splitlines() if l.startswith('violation')], r.stdout[-400:] + r.stderr[-400:]


try:
    subprocess.check_call(['git', '-C', '/repo', 'worktree', 'add', '--detach', wt, 'HEAD'], stdout=subprocess.DEVNULL, stderr=subprocess.DEVNULL)
    base = {}
    for mid in sys.argv[1:]:
        m = muts[mid]
        pid = m['property']
        cfg = m.get('config')
        if (pid, cfg) not in base:
            base[pid, cfg] = set(run(pid, cfg)[1])
        p = os.path.join(wt, m['file'])
        s = open(p).read()
        if s.count(m['old']) != 1:
            print(mid, 'site matches', s.count(m['old'])); continue
        open(p, 'w').write(s.replace(m['old'], m['new']))
        try:
            rc, v, tail = run(pid, cfg)
        finally:
            subprocess.run(['git', '-C', wt, 'checkout', '-q', '--', '.'])
        new = [x for x in v if x not in base[pid, cfg]]
        print(mid, 'exit', rc, 'CAUGHT' if new else 'MISSED')
        for x in new[:4]:
            print('    ' + x[:300])
        if rc == 2:
            print(tail)
finally:
    subprocess.run(['git', '-C', '/repo', 'worktree', 'remove', '--force', wt], capture_output=True)
    shutil.rmtree(tmp, ignore_errors=True)
