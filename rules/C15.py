"""C15 - teardown at any point releases every resource: ownership pairing and shutdown structure.

  C15.OWN      every Struct.field that receives an allocation / OS object (kind from the allocation macro's expansion)
               has a release site of a compatible kind and level; for fields allocated by single-threaded init code the
               release must sit in code reachable from the deinit API (the dctor chain)
  C15.SHUT     every SRM whose consumer FIFO is handed to a pipeline context is shut down by svt_av1_enc_deinit
               (exempt: output stream / output recon, whose consumer is the application)
  C15.GETFULL  every thread entry function obtains its input through EB_GET_FULL_OBJECT (the form that honours
               EB_NoErrorFifoShutdown by leaving the thread function)
  C15.WAITS    the set of blocking primitives pipeline threads may park on is the frozen set; those that deinit cannot
               wake are recorded findings
  C15.HANDLE   wherever an API function frees the component structure it has first released its private handle
"""
from engine.facts import pstr, strip, callee_name, subexprs, fields_in, last_field, root_of, AnalysisBroken
from engine.own import alloc_sites, release_sites, compatible
from engine.classes import Classes

PID = 'C15'

META = {
    'technique': 'ownership pairing of allocation/release facts derived from macro-expansion stacks (per type-resolved Struct.field, kind and level), call-graph reachability from the deinit API through resolved destructor pointers, set comparison of consumer SRMs vs shut-down SRMs, dominance on API error paths; escape of run-time allocations into members of pooled records versus the destructor of the pool object; release-before-reallocation on repeatable API entry points; two-sided hand-on of pool wrappers taken from queue entries',
    'text': 'Decides the structural half of teardown completeness: every field that ever receives an allocation, mutex, semaphore or thread has a matching release in the destructor chain reachable from deinit; every pipeline consumer queue is shut down so its thread can leave; thread functions use the shutdown-aware get; the component structure is never freed before its private handle. Quantifies over all teardown points because the destructor chain is the only release path and is checked field by field. Does not measure memory growth, and the fact that some kernel waits cannot be woken is recorded as a finding, not proved absent. Also decided: where cells of a member are allocated in a loop, the release loops of the destructor cover the same index range (bounds compared after canonical expansion and, where they differ, by finite evaluation over the inputs they share). Also decided: a buffer that pipeline code allocates into a member of a pooled object (picture control sets, packet headers) and frees in a later stage is also released by the destructor of that pool object (teardown while the object is in flight); an API function the application may repeat releases what an earlier call left in the handle before allocating again; a pool wrapper taken out of a queue entry and handed on under a test of a property of that entry is handed on in the other case too.',
    'note': 'decoder memory registered in the memory map (EB_MALLOC_DEC family) is released by the list walk in svt_av1_dec_deinit, which is checked to exist; ownership is field-based (two different objects of one struct type share the verdict)',
    'ref': 'DESIGN.md section 5 C15',
}

KERNEL_WAIT_PRIMS = ('svt_get_full_object', 'svt_get_empty_object', 'svt_wait_cond_var', 'svt_block_on_semaphore')
APP_CONSUMED = {'_EbEncHandle.output_stream_buffer_resource_ptr_array': 'consumer is the application (svt_av1_enc_get_packet)',
                '_EbEncHandle.output_recon_buffer_resource_ptr_array': 'consumer is the application (svt_av1_get_recon)'}


POOL_RECORDS = ('EbBufferHeaderType',)


def run(P, rep, tier):
    C = Classes(P)
    live = [f for f in P.fns if f.lib in ('Encoder', 'Common', 'Decoder') and f not in C.dead]
    alloc, rel, alias = {}, {}, {}
    for f in live:
        for ev, lf, kind, lvl, mac, t in alloc_sites(f):
            if lf:
                alloc.setdefault(lf, []).append((f, ev, kind, lvl, mac))
        for ev, lf, kind, lvl, mac, t in release_sites(f):
            if lf:
                rel.setdefault(lf, []).append((f, ev, kind, lvl, mac))
        # field-to-field pointer copies: releasing the copy releases the original (memory_map_init_address = memory_map)
        for ev in f.events(('st',)):
            e = ev['e']
            if e[0] == 'a' and e[1] == '=' and ev.get('pt'):
                l, r = last_field(strip(e[2])), last_field(strip(e[3]))
                rr = strip(e[3])
                if l and r and l != r and rr and rr[0] == 'm':
                    alias.setdefault(r, set()).add(l)
    if len(alloc) < 250:
        raise AnalysisBroken('only %d allocated fields found' % len(alloc))
    rep.explanation = ('%d fields receive an allocation / OS object in %d live functions; release facts for %d fields; pairing by kind '
                       '(MALLOC / ALIGNED / OBJECT / MUTEX / SEMAPHORE / THREAD) and level (array / element), destructor chain resolved '
                       'through the dctor function-pointer slots.' % (len(alloc), len(live), len(rel)))
    rep.analysed = {'allocated_fields': len(alloc), 'released_fields': len(rel), 'live_functions': len(live)}
    rep.assumptions = ['allocation macros are recognised through their expansion (store of the allocation result into the macro argument)',
                       'ownership is per Struct.field']

    # the decoder's memory-map walk exists and frees / destroys each registered kind
    dd = P.fn('svt_av1_dec_deinit')
    walk = {n for ev, n in dd.calls() if n in ('free', 'svt_destroy_semaphore', 'svt_destroy_thread', 'svt_destroy_mutex')}
    rep.ob('C15.OWN', 'decoder-memory-map-walk', walk >= {'free', 'svt_destroy_semaphore', 'svt_destroy_thread', 'svt_destroy_mutex'}, dd.loc(),
           'svt_av1_dec_deinit walks svt_dec_memory_map and releases kinds %s' % sorted(walk))
    ndecmap = 0
    for lf in sorted(alloc):
        sites = alloc[lf]
        rs = list(rel.get(lf, []))
        for a in alias.get(lf, ()):
            rs += rel.get(a, [])
        for kind in sorted({s[2] for s in sites}):
            ss = [s for s in sites if s[2] == kind]
            f0, ev0 = ss[0][0], ss[0][1]
            if kind == 'DECMAP':
                ndecmap += 1
                continue
            for lvl in sorted({s[3] for s in ss}):
                sl = [s for s in ss if s[3] == lvl]
                good = [r for r in rs if compatible(kind, r[2]) and (r[3] == lvl or lvl == 'top' and r[3] == 'top' or
                                                                     (lvl == 'elem' and r[3] == 'elem'))]
                init_only = all(C.single_threaded(s[0]) or s[0] in C.init_only for s in sl)
                if init_only:
                    good_d = [r for r in good if r[0] in C.deinit]
                else:
                    good_d = good
                key = '%s/%s/%s' % (lf, kind, lvl)
                # POOLOWN: a run-time allocation into a member of an object that lives in a pool (a record with a destructor
                # slot, or the buffer headers with their creator / destroyer pair) is still attached to that object when the
                # session is torn down mid-stream: the release the pipeline would have done later never happens, so teardown
                # itself must reach a release of that member
                rname = lf.split('.', 1)[0]
                pooled = rname in POOL_RECORDS or any(fd['n'] == 'dctor' for fd in (P.records.get(rname) or {}).get('fields', ()))
                if not init_only and pooled and kind in ('MALLOC', 'ALIGNED') and good:
                    in_deinit = [r for r in good if r[0] in C.deinit]
                    rep.ob('C15.POOLOWN', key, bool(in_deinit), sl[0][0].loc(sl[0][1]),
                           ('%s is allocated at run time in %s and also released by teardown (%s)' % (lf, sorted({s[0].name for s in sl})[:2], sorted({r[0].name for r in in_deinit})[:2])) if in_deinit else
                           ('%s is allocated at run time in %s and released only by %s: an object of the pool that still carries it when the session is torn down (picture in flight, packet not retrieved) leaks it - no destructor / destroyer releases this member' %
                            (lf, sorted({s[0].name for s in sl})[:2], sorted({r[0].name for r in good})[:3])))
                if good_d:
                    rep.ob('C15.OWN', key, True, sl[0][0].loc(sl[0][1]),
                           'allocated in %s (%s); released in %s' % (sorted({s[0].name for s in sl})[:3], sl[0][4], sorted({r[0].name for r in good_d})[:3]))
                elif _punned_release(P, lf, kind, sl, rel):
                    via = _punned_release(P, lf, kind, sl, rel)
                    rep.exempt('C15.OWN', lf, 'released as %s by the destructor %s that the constructor installs; the two structs are '
                               'layout-compatible up to that member (checked on every run)' % via)
                    rep.ob('C15.OWN', key, True, sl[0][0].loc(sl[0][1]), 'released through the layout-compatible view %s in %s' % via)
                else:
                    why = 'no release site of kind %s at %s level' % (kind, lvl)
                    if good and not good_d:
                        why = 'released only in %s, which the deinit API does not reach' % sorted({r[0].name for r in good})[:3]
                    elif rs:
                        why += ' (release sites exist with kind/level %s)' % sorted({(r[2], r[3]) for r in rs})
                    rep.ob('C15.OWN', key, False, sl[0][0].loc(sl[0][1]),
                           '%s allocated in %s via %s: %s' % (lf, sorted({s[0].name for s in sl})[:3], sl[0][4], why))
    rep.exempt('C15.OWN', 'EB_MALLOC_DEC family (%d fields)' % ndecmap, 'registered in svt_dec_memory_map and released by the list walk in svt_av1_dec_deinit')
    rep.floor('C15.OWN', 250)
    # buffer headers of different pools share one struct type; the packet payload is attached by packetization to headers of the
    # *output stream* pool, whose destroyer is the function registered next to svt_output_buffer_header_creator
    for alloc_fn, creator in (('malloc_p_buffer', 'svt_output_buffer_header_creator'),):
        af = P.fn(alloc_fn)
        dest = None
        for g in P.fns:
            if g.nocfg:
                continue
            for cev, n in g.calls('svt_system_resource_ctor'):
                fa = [strip(a) for a in cev['e'][2]]
                names = [a[1] for a in fa if a and a[0] == 'f']
                if creator in names and len(names) >= 2:
                    dest = names[names.index(creator) + 1] if names.index(creator) + 1 < len(names) else None
        if dest is None:
            raise AnalysisBroken('destroyer registered with %s not found' % creator)
        d = P.fn(dest)
        frees = [ev for ev in d.events(('call', 'st')) if ev.get('e') is not None and 'p_buffer' in pstr(ev['e']) and
                 (ev['k'] == 'call' and callee_name(ev['e']) == 'free' or 'EB_FREE' in ' '.join(ev.get('mx') or ()))]
        rep.ob('C15.POOLOWN', 'EbBufferHeaderType.p_buffer@output-stream-pool', bool(frees), d.loc(),
               ('%s releases the payload %s attaches to the headers of its pool' % (dest, alloc_fn)) if frees else
               ('%s attaches a payload (p_buffer) to the headers of the output-stream pool and only svt_av1_enc_release_out_buffer frees it; %s, the destroyer of that pool, frees the header alone: packets finished but not retrieved (or not released) when the session is torn down leak their payload' % (alloc_fn, dest)))
    rep.floor('C15.POOLOWN', 3)

    # REENTRY: an API function that may be called more than once on a handle (everything except the create / init / teardown
    # calls) and allocates into a member reachable from the handle must release what an earlier call left there first
    ONCE = ('svt_av1_enc_init_handle', 'svt_av1_enc_init', 'svt_av1_enc_deinit', 'svt_av1_enc_deinit_handle', 'svt_av1_dec_init_handle',
            'svt_av1_dec_init', 'svt_av1_dec_deinit', 'svt_av1_dec_deinit_handle')
    from engine.own import alloc_sites as _as, release_sites as _rs
    nre = 0
    for f in P.fns:
        if f.nocfg or f.name in ONCE or f.name not in P.apidecls or f.lib not in ('Encoder', 'Decoder'):
            continue
        for ev, lf, kind, lvl, mac, t in _as(f):
            if not lf or kind not in ('MALLOC', 'OBJECT', 'ALIGNED') or strip(t)[0] == 'v':
                continue
            r = root_of(strip(t))
            if r is None or r[2] != 'l' and not r[2].startswith('p'):
                continue
            # the target must hang off the handle (not off a local object created in this call)
            if r[2] == 'l' and not any(d['k'] == 'decl' and d['n'] == r[1] and d.get('e') is not None and last_field(strip(d['e'])) for d in f.events(('decl',))):
                continue
            nre += 1
            def _rel_first(rv):
                # the release runs before the allocation on every path: it dominates it, or sits before it under tests of the
                # released pointer alone (if (p) { if (p->dctor) p->dctor(p); free(p); } -- the body of EB_DELETE / EB_FREE)
                if f.ev_dominates(rv, ev):
                    return True
                ce, cr = f.ctl_chain(ev), f.ctl_chain(rv)
                extra = [x for x in cr if x not in ce]
                return (rv['l'] < ev['l'] and all(x in cr for x in ce) and
                        all(c is not None and (pstr(strip(t)) in pstr(strip(c)) or any(x[0] == 'm' and x[1] == lf for x in subexprs(c))) for k, c, l in extra))
            rel_before = [rv for rv, rlf, rkind, rlvl, rmac, rt in _rs(f) if rlf == lf and _rel_first(rv)]
            guard = any(c is not None and (pstr(strip(t)) in pstr(strip(c)) or any(x[0] == 'm' and x[1] == lf for x in subexprs(c))) for k, c, l in f.ctl_chain(ev))
            ok = bool(rel_before) or guard
            rep.ob('C15.REENTRY', '%s/%s' % (f.name, lf), ok, f.loc(ev),
                   ('%s releases %s before allocating it again' % (f.name, lf)) if ok else
                   ('%s may be called again on the same handle and allocates %s (%s) without releasing the object an earlier call left there: every repeated call leaks one' % (f.name, lf, mac)))
    rep.floor('C15.REENTRY', 1)

    # WRAPDROP: a pool wrapper read out of a queue entry is handed on (posted, released, or kept in a queue by a helper) under a
    # test of a property of that entry; the complementary case must hand it on too -- otherwise the object never returns to its
    # pool (and its payload is lost) for every entry with that property.  Tests of the loop position (the last entry of a
    # temporal unit is posted by the caller) are not properties of the entry and are not subject to this rule.
    def _keeps_wrapper(g, idx, depth=0):
        if g is None or g.nocfg or idx >= len(g.params):
            return False
        pn = g.params[idx][0]
        for sv in g.events(('st',)):
            e = strip(sv['e'])
            if e[0] == 'a' and e[1] == '=' and strip(e[3])[0] == 'v' and strip(e[3])[1] == pn and strip(e[2])[0] in ('m', 'i'):
                return True
        return False

    def _conj(c):
        c = strip(c)
        if c is not None and c[0] == 'b' and c[1] == '&&':
            return _conj(c[2]) + _conj(c[3])
        return [c]
    HANDON = ('svt_release_object', 'svt_post_full_object')
    nwd = 0
    for f in P.fns:
        if f.nocfg or f.lib != 'Encoder':
            continue
        wl = {}
        for dv in f.events(('decl',)):
            e = strip(dv.get('e')) if dv.get('e') is not None else None
            if dv.get('t', '').replace(' ', '') == 'EbObjectWrapper*' and e is not None and e[0] == 'm':
                r = root_of(e)
                if r is not None and r[2] == 'l':
                    wl[dv['n']] = r[1]
        if not wl:
            continue
        cons = {}
        for cv in f.events(('call',)):
            n = callee_name(cv['e'])
            for ai, a in enumerate(cv['e'][2] or ()):
                a = strip(a)
                if a is not None and a[0] == 'v' and a[1] in wl:
                    if n in HANDON or any(_keeps_wrapper(g, ai) for g in P.call_targets(f, cv)):
                        cons.setdefault(a[1], []).append(cv)
        for w, cvs in cons.items():
            ent = wl[w]
            for cv in cvs:
                c = cv.get('ctl', -1)
                while c is not None and c >= 0:
                    par, kind, cond, line = f.ctl[c]
                    if kind in ('if', 'else') and cond is not None:
                        props = [x for x in _conj(cond) if any(rr is not None and rr[1] == ent for rr in [root_of(strip(y)) for y in subexprs(x) if strip(y) is not None and strip(y)[0] == 'm'])]
                        if props:
                            nwd += 1
                            other = 'else' if kind == 'if' else 'if'
                            sib = [i for i, (p2, k2, c2, l2) in enumerate(f.ctl) if p2 == par and k2 == other and l2 == line]

                            def _under(ev2, cid):
                                x = ev2.get('ctl', -1)
                                while x is not None and x >= 0:
                                    if x == cid:
                                        return True
                                    x = f.ctl[x][0]
                                return False
                            ok = len(_conj(cond)) == len(props) and any(_under(o, sid) for sid in sib for o in cvs)
                            rep.ob('C15.WRAPDROP', '%s/%s@%s' % (f.name, w, pstr(props[0])), ok, f.loc(cv),
                                   ('%s hands %s on in both cases of %s' % (f.name, w, pstr(props[0]))) if ok else
                                   ('%s takes the pool wrapper %s out of %s and hands it on (%s) only when %s; in the other case the wrapper is neither posted, released nor queued, so the object never returns to its pool and whatever it carries is lost' % (f.name, w, ent, callee_name(cv['e']), pstr(props[0]))))
                    c = par
    rep.floor('C15.WRAPDROP', 1)

    # ---------------- DECMAP: memory obtained through the EB_MALLOC_DEC family is registered in the decoder memory map and is
    # released by the list walk of svt_av1_dec_deinit; a raw free() of the same pointer releases it twice
    DEC_MACROS = ('EB_MALLOC_DEC', 'EB_ALLIGN_MALLOC_DEC', 'EB_CALLOC_DEC')
    decfields = set()
    ndm = 0
    for f in live:
        if f.lib != 'Decoder':
            continue
        al = [(ev, lf, t) for ev, lf, kind, lvl, mac, t in alloc_sites(f) if kind == 'DECMAP']
        frees = [ev for ev, nm in f.calls('free') if not any(m in DEC_MACROS for m in ev.get('mx', ()))]
        for ev, lf, t in al:
            if lf:
                decfields.add(lf)
            ndm += 1
            dbl = [fe for fe in frees if pstr(strip(fe['e'][2][0])) == pstr(strip(t))]
            rep.ob('C15.DECMAP', '%s/%s' % (f.name, pstr(strip(t))[:60]), not dbl, f.loc(dbl[0]) if dbl else f.loc(ev),
                   'registered in the decoder memory map; %s' % ('also passed to free() here: svt_av1_dec_deinit frees it a second time' if dbl else 'released only by the map walk'))
    for f in live:
        if f.lib != 'Decoder':
            continue
        for fe, nm in f.calls('free'):
            if any(m in DEC_MACROS for m in fe.get('mx', ())):
                continue
            lf = last_field(strip(fe['e'][2][0]))
            if lf in decfields:
                rep.ob('C15.DECMAP', '%s/free:%s' % (f.name, lf), False, f.loc(fe), '%s holds map-registered memory and is passed to free(): released twice at deinit' % lf)
    rep.floor('C15.DECMAP', 60)

    # ---------------- COUNT: a member whose cells are allocated in a loop must be released by a loop that covers as many cells.
    # Bounds are compared after canonical expansion: single-definition locals are replaced by their defining expression,
    # constructor parameters keep their name, and object fields are replaced by the expression the (single) init-time store
    # gave them - so `obj->sb_size == MAX_SB_SIZE ? A : B` in the destructor and `sb_size == MAX_SB_SIZE ? A : B` in the
    # constructor (with `obj->sb_size = sb_size`) are the same bound, whatever the locals are called.
    def loopsig(f, ev, tgt):
        subs = set()
        for x in subexprs(tgt):
            if x[0] == 'i':
                for y in subexprs(x[2]):
                    if y[0] == 'v':
                        subs.add(y[1])
        out = []
        for kind, cond, line in f.ctl_chain(ev):
            if kind in ('for', 'while') and cond is not None:
                for y in subexprs(strip(cond)):
                    if y[0] == 'b' and y[1] in ('<', '<=') and strip(y[2])[0] == 'v' and strip(y[2])[1] in subs:
                        out.append((y[1], strip(y[3])))
        return out

    _ld = {}

    def local_defs(f):
        if f.key in _ld:
            return _ld[f.key]
        d = {}
        for ev in f.events(('decl', 'st')):
            e = ev.get('e')
            if ev['k'] == 'decl':
                d.setdefault(ev['n'], []).append(e)
            elif e and e[0] in ('a', 'u'):
                t = strip(e[2])
                if t and t[0] == 'v' and t[2] == 'l':
                    d.setdefault(t[1], []).append(e[3] if e[0] == 'a' and e[1] == '=' else 'step')
        r = {k: v[0] for k, v in d.items() if len(v) == 1 and v[0] is not None and v[0] != 'step'}
        _ld[f.key] = r
        return r
    # init-time single stores to object fields
    fstore = {}
    for f in live:
        if not C.single_threaded(f):
            continue
        for ev in f.events(('st',)):
            e = ev['e']
            if e[0] in ('a', 'u'):
                t = strip(e[2])
                if t and t[0] == 'm':
                    fstore.setdefault(t[1], []).append((f, e[3] if e[0] == 'a' and e[1] == '=' else None))
    for f in live:
        if C.single_threaded(f):
            continue
        for ev in f.events(('st',)):
            e = ev['e']
            t = strip(e[2]) if e[0] in ('a', 'u') else None
            if t and t[0] == 'm' and t[1] in fstore:
                fstore[t[1]].append((f, None))          # also written at run time: not a constant of the object

    def norm(f, e, depth=0, seen=()):
        """canonical, Python-evaluable spelling; inputs appear as v['...']"""
        e = strip(e)
        if e is None or depth > 10:
            return '?'
        k = e[0]
        if k == 'l':
            return str(e[1])
        if k == 'v':
            ld = local_defs(f)
            if e[2] == 'l' and e[1] in ld:
                return norm(f, ld[e[1]], depth + 1, seen)
            return "v['param:%s:%s']" % (f.name, e[1]) if e[2].startswith('p') else 'free:' + e[1]
        if k == 'm':
            ss = fstore.get(e[1], [])
            if len(ss) == 1 and ss[0][1] is not None and e[1] not in seen:
                return norm(ss[0][0], ss[0][1], depth + 1, seen + (e[1],))
            return "v['.%s']" % e[1]
        if k == 'b':
            op = {'/': '//', '&&': ' and ', '||': ' or '}.get(e[1], e[1])
            return '(%s %s %s)' % (norm(f, e[2], depth + 1, seen), op, norm(f, e[3], depth + 1, seen))
        if k == 'q':
            return '(%s if %s else %s)' % (norm(f, e[2], depth + 1, seen), norm(f, e[1], depth + 1, seen), norm(f, e[3], depth + 1, seen))
        if k == 'u' and e[1] in ('-', '+', '!'):
            return ('(not %s)' if e[1] == '!' else '(' + e[1] + '%s)') % norm(f, e[2], depth + 1, seen)
        return '?' + k

    def bound(f, op, b):
        n = norm(f, b)
        if op == '<=':
            n = str(int(n) + 1) if n.lstrip('-').isdigit() else '(%s + 1)' % n
        return n

    import re as _re, itertools as _it

    def covers(rb, ab):
        """'yes' / 'no: witness' / None (not comparable) for: some release bound in rb >= allocation bound ab on every input"""
        opaque = lambda x: 'free:' in x or '?' in x
        if opaque(ab):
            return None
        if ab in rb:
            return 'yes'
        leaves = lambda x: set(_re.findall(r"v\['([^']+)'\]", x))
        la_ = leaves(ab)
        cands = [r for r in rb if not opaque(r) and leaves(r) == la_]
        if not cands:
            return None
        lits = sorted({int(x) for r in cands + [ab] for x in _re.findall(r'(?<![\w\]])-?\d+', r)})
        dom = sorted({y for x in lits for y in (x - 1, x, x + 1) if y >= 0} | {0, 1})[:24]
        names = sorted(la_)
        if len(dom) ** len(names) > 200000:
            return None
        for vals in _it.product(dom, repeat=len(names)):
            v = dict(zip(names, vals))
            try:
                av = int(eval(ab, {'v': v}))
                if not any(int(eval(r, {'v': v})) >= av for r in cands):
                    return 'no: for %s the allocation loop runs to %d but the release loops only to %s' % (
                        ', '.join('%s=%d' % (n.split(':')[-1].lstrip('.'), x) for n, x in v.items()), av,
                        '/'.join(str(int(eval(r, {'v': v}))) for r in cands))
            except ZeroDivisionError:
                continue
            except Exception:
                return None
        return 'yes'
    la, lr = {}, {}
    for f in live:
        if f.lib == 'Decoder':
            continue
        for ev, lf, kind, lvl, mac, t in alloc_sites(f):
            if lf and C.single_threaded(f):
                for op, b in loopsig(f, ev, t):
                    la.setdefault(lf, []).append((f, ev, bound(f, op, b)))
        for ev, lf, kind, lvl, mac, t in release_sites(f):
            if lf and f in C.deinit:
                for op, b in loopsig(f, ev, t):
                    lr.setdefault(lf, []).append((f, ev, bound(f, op, b)))
    ncount = 0
    for lf in sorted(la):
        if lf not in lr:
            continue
        rb = sorted({b for _, _, b in lr[lf]})
        seenb = set()
        for f, ev, b in la[lf]:
            if b in seenb:
                continue
            seenb.add(b)
            verdict = covers(rb, b)
            if verdict is None:
                rep.note('loop bounds of %s not comparable (%s vs %s)' % (lf, b[:70], rb[:2]))
                continue
            ok = verdict == 'yes'
            ncount += 1
            rep.ob('C15.COUNT', '%s/%s' % (lf, f.name), ok, f.loc(ev),
                   ('cells allocated for index < %s; released for index < %s' % (b[:120], ' / '.join(rb)[:200])) +
                   ('' if ok else ' - the release loops do not cover the allocation loop (%s): the remaining cells are never freed' % verdict[4:]))
    rep.floor('C15.COUNT', 25)

    # ---------------- SHUT
    consumers = {}
    for f in live:
        for ev, n in f.calls('svt_system_resource_get_consumer_fifo'):
            lf = last_field(strip(ev['e'][2][0])) if ev['e'][2] else None
            if lf:
                consumers.setdefault(lf, []).append((f, ev))
    deinit = P.fn('svt_av1_enc_deinit')
    shut = set()
    for ev, n in deinit.calls('svt_shutdown_process'):
        lf = last_field(strip(ev['e'][2][0]))
        if lf:
            shut.add(lf)
    if len(consumers) < 12 or len(shut) < 12:
        raise AnalysisBroken('consumer SRMs %d / shut-down SRMs %d' % (len(consumers), len(shut)))
    for lf, ss in sorted(consumers.items()):
        f, ev = ss[0]
        # only consumers that feed a thread entry matter: the context ctor stores the fifo for its kernel
        if lf in APP_CONSUMED:
            rep.exempt('C15.SHUT', lf, APP_CONSUMED[lf])
            rep.ob('C15.SHUT', 'srm:' + lf, True, f.loc(ev), APP_CONSUMED[lf], nontrivial=False)
            continue
        # the shutdown must happen whenever the handle exists: thread creation can fail half-way through svt_av1_enc_init, and
        # the kernels that were already started sit in svt_get_full_object until their FIFO is shut down
        extra_cond = None
        for sev, sn in deinit.calls('svt_shutdown_process'):
            if last_field(strip(sev['e'][2][0])) != lf:
                continue
            for kind, cond, line in deinit.ctl_chain(sev):
                if cond is None or isinstance(cond[0], list):
                    continue
                flds = fields_in(cond)
                if flds - {lf}:
                    extra_cond = (sev, pstr(strip(cond))[:80])
        if lf in shut and extra_cond:
            rep.ob('C15.SHUT', 'srm:' + lf + '/unconditional', False, deinit.loc(extra_cond[0]),
                   'the shutdown of %s is skipped unless %s: kernels started before a failed thread creation are never released and svt_av1_enc_deinit_handle blocks in pthread_join' % (lf.split('.')[1], extra_cond[1]))
        rep.ob('C15.SHUT', 'srm:' + lf, lf in shut, f.loc(ev),
               'consumer FIFO taken in %s; %s' % (f.name, 'shut down by svt_av1_enc_deinit' if lf in shut else 'NOT shut down by svt_av1_enc_deinit: its thread never leaves svt_get_full_object'))
    rep.floor('C15.SHUT', 12)

    # ---------------- GETFULL
    for t in C.thread_fns:
        if t.lib == 'Decoder':
            continue
        gets = [(ev, n) for ev, n in t.calls('svt_get_full_object')]
        bad = [ev for ev, n in gets if 'EB_GET_FULL_OBJECT' not in ev.get('mx', ())]
        ok = bool(gets) and not bad
        rep.ob('C15.GETFULL', 'thread:' + t.name, ok, t.loc(bad[0]) if bad else t.loc(),
               'input obtained through EB_GET_FULL_OBJECT at %d site(s)' % len(gets) if ok else
               ('svt_get_full_object called outside EB_GET_FULL_OBJECT: shutdown result ignored' if gets else 'no svt_get_full_object in the thread function'))
    # the macro really leaves the thread function on shutdown: its expansion contains a return/break under the shutdown test
    rep.floor('C15.GETFULL', 14)

    # ---------------- WAITS
    cg = P.callgraph()
    prim_sites = {}
    for t in C.thread_fns:
        if t.lib == 'Decoder':
            continue
        seen = set()
        st = [t]
        while st:
            g = st.pop()
            if g in seen:
                continue
            seen.add(g)
            for ev, n in g.calls(KERNEL_WAIT_PRIMS):
                prim_sites.setdefault(n, []).append((t, g, ev))
            for h in cg.get(g, ()):
                if h.name in KERNEL_WAIT_PRIMS or h.name == 'lib_svt_encoder_send_error_exit':
                    continue
                if h not in seen:
                    st.append(h)
    for n in sorted(prim_sites):
        t, g, ev = prim_sites[n][0]
        aware = (n == 'svt_get_full_object')
        rep.ob('C15.WAITS', 'kernel-wait:' + n, aware, g.loc(ev),
               '%d site(s) in pipeline threads (e.g. %s in %s); %s' % (
                   len(prim_sites[n]), g.name, t.name,
                   'woken by svt_shutdown_process (quit_signal + post)' if aware else
                   'svt_av1_enc_deinit has no way to wake a thread parked here; svt_av1_enc_deinit_handle then hangs in the thread join'))
    rep.floor('C15.WAITS', 2)

    # ---------------- HANDLE
    n = 0
    for f in P.fns:
        if not f.api or f.nocfg:
            continue
        comp = set()
        for pn, pt in f.params:
            t = pt.replace(' ', '')
            if t == 'EbComponentType*':
                comp.add(pn)
            elif t == 'EbComponentType**':
                comp.add('*' + pn)
        if not comp:
            continue
        for ev, nm in f.calls('free'):
            a = pstr(strip(ev['e'][2][0]))
            if a not in comp:
                continue
            n += 1
            # a dominating call that releases p_component_private
            rel_calls = []
            for ev2, n2 in f.calls():
                if n2 is None or ev2 is ev:
                    continue
                for g in P.resolve(n2, f):
                    reach = P.reachable_from([g])
                    if any(last_field(strip(x[5])) == 'EbComponentType.p_component_private' or
                           (x[1] == 'EbComponentType.p_component_private') for h in reach for x in release_sites(h)) or \
                            any(pstr(strip(e3['e'][2][0])).endswith('p_component_private') for h in reach for e3, n3 in h.calls('free')):
                        rel_calls.append(ev2)
            ok = any(f.ev_dominates(r, ev) for r in rel_calls)
            why = 'dominated by a call that releases the component\'s private handle'
            if not ok and _free_only_without_handle(P, f, ev):
                ok = True
                why = ('reached only when the call that creates the private handle failed, and that call fails only when it stored no handle '
                       '(its failing returns are guarded by the stored pointer being NULL)')
            rep.ob('C15.HANDLE', '%s/free(%s)#%d' % (f.name, a, ev['b']), ok, f.loc(ev),
                   'free(%s) is %s%s' % (a, '' if ok else 'NOT ', why))
    rep.floor('C15.HANDLE', 3)


# ------------------------------------------------------------------------------------------------------------------
# HANDLE refinement: free(component) on a failure path of the call that creates the private handle

PRIV = 'EbComponentType.p_component_private'


def _stores_handle(P, g, seen=None):
    """g (transitively) stores the component's private handle: directly, or through an out-parameter that a caller
    binds to &component->p_component_private."""
    seen = seen if seen is not None else set()
    if g in seen:
        return False
    seen.add(g)
    for ev in g.events(('st',)):
        e = ev['e']
        if e[0] == 'a' and last_field(strip(e[2])) == PRIV:
            return True
    for ev, n in g.calls():
        for a in ev['e'][2]:
            a0 = strip(a)
            if a0 and a0[0] == 'u' and a0[1] == '&' and last_field(strip(a0[2])) == PRIV:
                return True
        if n:
            for h in P.resolve(n, g):
                if _stores_handle(P, h, seen):
                    return True
    return False


def _fails_only_without_handle(P, g, depth=0):
    """Every failing return of g happens before any handle is stored, or under a guard `stored pointer == NULL`."""
    if depth > 4 or g.nocfg:
        return False
    # what does g store into the handle (through an out-parameter `*pp = x` or the field itself)?
    stores = []
    for ev in g.events(('st',)):
        e = ev['e']
        if e[0] == 'a' and e[1] == '=':
            l = strip(e[2])
            if last_field(l) == PRIV or (l[0] == 'u' and l[1] == '*' and strip(l[2])[0] == 'v' and strip(l[2])[2].startswith('p')):
                stores.append((ev, pstr(strip(e[3]))))
    for ev in g.events(('ret',)):
        v = strip(ev.get('e')) if ev.get('e') is not None else None
        if v is None or (v[0] == 'l' and v[1] == 0):
            continue
        if v[0] == 'v' and v[2] == 'l':
            # a status variable that is only ever given the success literal
            dv = []
            for e2 in g.events(('st', 'decl')):
                e = e2.get('e')
                if e is None:
                    continue
                if e2['k'] == 'decl' and e2['n'] == v[1]:
                    dv.append(strip(e))
                elif e2['k'] == 'st' and e[0] == 'a' and pstr(strip(e[2])) == v[1]:
                    dv.append(strip(e[3]))
            if dv and all(d and d[0] == 'l' and d[1] == 0 for d in dv):
                continue
            return False
        if v[0] == 'c':
            n = callee_name(v)
            hs = P.resolve(n, g) if n else []
            if hs and all(_fails_only_without_handle(P, h, depth + 1) for h in hs):
                continue
            return False
        before = [s for s in stores if g.ev_dominates(s[0], ev) or s[0]['b'] == ev['b'] and s[0]['x'] < ev['x']]
        if not before:
            continue            # nothing stored yet on this failing path
        # the path took the handle back: the last store before the failing return clears the slot again
        nulls = [s_ for s_ in before if s_[1] in ('0', 'NULL', '(void *)0')]
        if nulls and all(s_ is nl or g.ev_dominates(s_[0], nl[0]) for nl in nulls[-1:] for s_ in before):
            continue
        if v[0] == 'l' and v[1] != 0:
            guards = [pstr(c[1]) for c in g.ctl_chain(ev) if c[0] == 'if' and c[1] is not None]
            if all(any(('(%s == 0)' % sv) in gd or ('!%s' % sv) == gd for gd in guards) for _, sv in before):
                continue
        return False
    return True


def _punned_release(P, lf, kind, alloc_sl, rel):
    """The constructor that allocates R.f installs a destructor that releases R2.f for a struct R2 which is
    layout-compatible with R up to and including member f (a context struct viewed through a sibling type).
    Returns (R2.f, destructor name) or None."""
    rname, fname = lf.split('.', 1)
    R = P.records.get(rname)
    if R is None:
        return None
    for lf2, rs in rel.items():
        r2name, f2 = lf2.split('.', 1)
        if f2 != fname or r2name == rname or r2name not in P.records:
            continue
        R2 = P.records[r2name]
        # layout prefix
        ok = False
        for i, (a, b) in enumerate(zip(R['fields'], R2['fields'])):
            if a['t'] != b['t'] or a.get('dims') != b.get('dims'):
                break
            if a['n'] == fname and b['n'] == fname:
                ok = True
                break
            if a['n'] == fname or b['n'] == fname:
                break
        if not ok:
            continue
        for r in rs:
            if not compatible(kind, r[2]):
                continue
            dname = r[0].name
            # every allocating constructor installs that destructor
            if all(any(e['e'][0] == 'a' and (last_field(strip(e['e'][2])) or '').endswith('.dctor') and
                       strip(e['e'][3]) and strip(e['e'][3])[0] == 'f' and strip(e['e'][3])[1] == dname
                       for e in s[0].events(('st',))) for s in alloc_sl):
                return (lf2, dname)
    return None


def _reaches(f, a, b):
    """event a may execute before event b (CFG path)."""
    if a['b'] == b['b'] and a['x'] < b['x']:
        return True
    seen, st = set(), [s for s in f.blocks[a['b']]['succ'] if s is not None]
    while st:
        x = st.pop()
        if x in seen:
            continue
        seen.add(x)
        if x == b['b']:
            return True
        st.extend(s for s in f.blocks[x]['succ'] if s is not None)
    return False


def _free_only_without_handle(P, f, ev):
    """free(component) is control-dependent on an error variable whose every definition is a call to a handle-creating
    function that fails only without a stored handle."""
    tested = set()
    for kind, cond, line in f.ctl_chain(ev):
        if cond is None or kind not in ('if', 'else'):
            continue
        for x in subexprs(cond):
            if x[0] == 'v' and x[2] == 'l':
                tested.add(x[1])
    if not tested:
        return False
    for v in tested:
        defs = []
        for e2 in f.events(('st', 'decl')):
            e = e2.get('e')
            if e is None:
                continue
            if not _reaches(f, e2, ev):
                continue
            if e2['k'] == 'decl' and e2['n'] == v:
                defs.append(strip(e))
            elif e2['k'] == 'st' and e[0] == 'a' and pstr(strip(e[2])) == v:
                defs.append(strip(e[3]))
        calls = [d for d in defs if d and d[0] == 'c']
        others = [d for d in defs if not (d and d[0] == 'c') and not (d and d[0] == 'l')]
        if others or not calls:
            return False
        for c in calls:
            n = callee_name(c)
            hs = P.resolve(n, f) if n else []
            if not hs:
                return False
            for h in hs:
                if not _stores_handle(P, h) or not _fails_only_without_handle(P, h):
                    return False
    return True
