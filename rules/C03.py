"""C03 - one packet per picture with its timestamps: the header-field propagation clause.

The library deep-copies the caller's EbBufferHeaderType twice (copy_input_buffer in EbEncHandle.c for every picture,
copy_input_buffer in EbResourceCoordinationProcess.c for overlay pictures).  Everything downstream reads the *copy*.

  C03.POPULATED  every header field the pipeline reads through PictureParentControlSet.input_ptr is written by each copy
                 function (or given a non-constant value by the input-buffer pool creator)
  C03.SIBLING    the two copy functions populate the same set of fields
  C03.PACKET     the packet fields pts / dts / p_app_private stored by the packetization thread have as sources the
                 displayed picture's input header (dts from pts), and no later store in the packetization path replaces
                 the application pointer with something else
"""
from engine.facts import fields_in, pstr, strip, callee_name, subexprs, last_field, root_of, AnalysisBroken
from engine.classes import Classes

PID = 'C03'

META = {
    'technique': 'type-resolved field def-use: fields read through the copied input header in pipeline code vs fields stored by the copy-in functions and the pool creator; sibling agreement of the two copy functions; reaching sources of the packet timestamp / private-pointer stores',
    'text': 'Decides the propagation clause of C03: what a packet reports (pts, dts, application pointer, picture type, qp, flags, metadata) can only be right if the copy-in functions populate every header field that is read downstream and the packetization thread stores them from the displayed picture. Counting packets, their order and EOS placement are run-time queue properties and are not decided. Also decided: every computation on a timestamp (the show-existing queue is ordered by pts) stays in the signed 64-bit type - no narrowing or unsigned cast or local. Also decided: the end-of-stream chain - input flags & EOS -> end_of_sequence_flag -> terminating picture -> EOS bit of exactly that packet, moved to the trailing show-existing packet when there is one.',
    'note': 'fields the application never sets (n_tick_count, size ...) are irrelevant: the rule is "read implies populated"',
    'ref': 'DESIGN.md section 5 C03',
}

HDR = 'EbBufferHeaderType.'
VIA = 'PictureParentControlSet.input_ptr'


def run(P, rep, tier):
    C = Classes(P)
    reads = {}
    for f in P.fns:
        if f.lib != 'Encoder' or f not in C.kernel or f.nocfg:
            continue
        trees = []
        for ev in f.events():
            e = ev.get('e')
            if e is None:
                continue
            if ev['k'] == 'st' and e[0] == 'a' and e[1] == '=':
                trees.append((e[3], ev))
                # the base of the LHS is read too, but a field that is only *stored* through input_ptr is not a read
            elif ev['k'] in ('dr', 'ix'):
                continue
            else:
                trees.append((e, ev))
        for b in f.blocks.values():
            if b.get('fullcond') is not None and b['id'] in f.reach():
                trees.append((b['fullcond'], {'l': b.get('tl', f.line)}))
        for t, ev in trees:
            for x in subexprs(t):
                if x[0] == 'm' and x[1].startswith(HDR):
                    b = strip(x[3])
                    if b and b[0] == 'm' and b[1] == VIA:
                        reads.setdefault(x[1][len(HDR):], []).append((f, ev))
    if len(reads) < 5:
        raise AnalysisBroken('only %d header fields read through input_ptr' % len(reads))
    copies = [g for g in P.by_name.get('copy_input_buffer', []) if not g.nocfg]
    if len(copies) != 2:
        raise AnalysisBroken('expected the two copy_input_buffer functions, found %d' % len(copies))
    wsets = {}
    for g in copies:
        dst = g.params[1][0]
        w = set()
        for ev in g.events(('st',)):
            e = ev['e']
            if e[0] == 'a':
                lf = last_field(strip(e[2]))
                r = root_of(strip(e[2]))
                if lf and lf.startswith(HDR) and r is not None and r[1] == dst:
                    w.add(lf[len(HDR):])
        # fields filled by callees that receive dst (copy_metadata_buffer, copy_frame_buffer -> p_buffer contents)
        for ev, n in g.calls():
            for a in ev['e'][2]:
                x = strip(a)
                if x and last_field(x) and last_field(x).startswith(HDR) and root_of(x) is not None and root_of(x)[1] == dst:
                    w.add(last_field(x)[len(HDR):])
        wsets[g] = w
    # pool creator: non-constant initialisation
    creator = P.fn('svt_input_buffer_header_creator')
    cw = set()
    for ev in creator.events(('st', 'call')):
        e = ev['e']
        if ev['k'] == 'st' and e[0] == 'a':
            lf = last_field(strip(e[2]))
            if lf and lf.startswith(HDR) and not (strip(e[3]) and strip(e[3])[0] == 'l'):
                cw.add(lf[len(HDR):])
        elif ev['k'] == 'call':
            for a in ev['e'][2]:
                x = strip(a)
                if x and x[0] == 'u' and x[1] == '&':
                    x = strip(x[2])
                if x and last_field(x) and last_field(x).startswith(HDR):
                    cw.add(last_field(x)[len(HDR):])
    rep.explanation = ('Header fields read through input_ptr in pipeline code: %s. Copy functions: %s. Creator-initialised: %s.' %
                       (sorted(reads), [g.loc() for g in copies], sorted(cw)))
    rep.analysed = {'read_fields': sorted(reads), 'copy_functions': [g.loc() for g in copies]}
    rep.assumptions = ['the pipeline reads the application header only through PictureParentControlSet.input_ptr']
    for fld in sorted(reads):
        f, ev = reads[fld][0]
        for g in copies:
            ok = fld in wsets[g] or fld in cw
            rep.ob('C03.POPULATED', 'field:%s/%s' % (fld, g.file.rsplit('/', 1)[-1]), ok, g.loc(),
                   'field %s is read at %s (%s); %s' % (fld, f.loc(ev) if 'b' in ev else '%s:%s' % (f.loc().rsplit(':', 1)[0], ev['l']), f.name,
                                                        'populated by the copy-in' if ok else
                                                        'never populated by copy_input_buffer (%s) - the pipeline reads whatever the pool creator left there' % g.loc()))
    rep.floor('C03.POPULATED', 10)
    a, b = copies
    rep.ob('C03.SIBLING', 'copy_input_buffer-x2', wsets[a] == wsets[b], b.loc(),
           'both copy functions populate %s' % sorted(wsets[a]) if wsets[a] == wsets[b] else
           'the copy functions disagree: only in %s: %s ; only in %s: %s' % (a.loc(), sorted(wsets[a] - wsets[b]), b.loc(), sorted(wsets[b] - wsets[a])))

    # ---------------- PACKET
    pk = P.fn('packetization_kernel')
    scope = [g for g in P.reachable_from([pk]) if g.file == pk.file]
    want = {'pts': 'pts', 'dts': None, 'p_app_private': 'p_app_private'}
    for fld, src in want.items():
        stores = []
        for g in scope:
            for ev in g.events(('st',)):
                e = ev['e']
                if e[0] == 'a' and last_field(strip(e[2])) == HDR + fld:
                    stores.append((g, ev))
        if not stores:
            rep.ob('C03.PACKET', 'packet:' + fld, False, pk.loc(), 'the packetization path never stores the packet\'s %s' % fld)
            continue
        for g, ev in stores:
            rhs = strip(ev['e'][3])
            if fld == 'dts':
                ok = last_field(rhs) == HDR + 'pts'
                why = 'dts is taken from the packet\'s pts' if ok else 'dts source is %s' % pstr(rhs)
            else:
                ok = last_field(rhs) == HDR + src and any(x[0] == 'm' and x[1] == VIA for x in subexprs(rhs))
                why = ('taken from the displayed picture\'s input header' if ok else
                       'stored from %s, not from the submitted picture\'s %s' % (pstr(rhs), src))
            rep.ob('C03.PACKET', 'packet:%s@%s' % (fld, g.name), ok, g.loc(ev), 'packet %s: %s' % (fld, why))
    rep.floor('C03.PACKET', 3)

    # ---------------- PTSWIDTH: timestamps are signed 64-bit application values; wherever the library computes with them (the
    # show-existing queue is *ordered* by pts) the computation must stay in that type.  A timestamp expression that is cast,
    # or stored into a local, of a narrower or unsigned type changes the order of some pts pairs (differences >= 2^31,
    # negative values), and the packet popped for a show-existing frame then carries another picture's pts / dts.
    PTS = HDR + 'pts'
    WIDE = ('int64_t', 'long', 'long long', 'const int64_t', 'const long', 'const long long', '__int64_t')
    npts = 0
    for g in P.fns:
        if g.lib != 'Encoder' or g.nocfg:
            continue
        for ev in g.events(('st', 'decl', 'ret', 'call')):
            e = ev.get('e')
            if e is None or PTS not in fields_in(e):
                continue
            # plain header-to-header copies of the field are not computations
            if ev['k'] == 'st' and e[0] == 'a' and e[1] == '=' and strip(e[3])[0] == 'm' and last_field(strip(e[2])) in (HDR + 'pts', HDR + 'dts'):
                continue
            npts += 1
            bad = None
            for x in subexprs(e):
                if x[0] == 'k' and PTS in fields_in(x[2]) and strip(x[2])[0] != 'm' and x[1].strip() not in WIDE and not x[1].rstrip().endswith('*'):
                    bad = 'a timestamp expression (%s) is cast to %s' % (pstr(x[2])[:60], x[1])
                elif x[0] == 'k' and strip(x[2])[0] == 'm' and strip(x[2])[1] == PTS and x[1].strip() not in WIDE:
                    bad = 'a timestamp is cast to %s' % x[1]
            if ev['k'] == 'decl' and ev.get('t', '').strip() not in WIDE and not ev.get('t', '').rstrip().endswith('*'):
                bad = 'a timestamp is stored in the local %s of type %s' % (ev['n'], ev['t'])
            rep.ob('C03.PTSWIDTH', '%s/%s@%s' % (g.name, ev['k'], pstr(e)[:50]), bad is None, g.loc(ev),
                   'timestamp computation stays in the signed 64-bit type' if bad is None else
                   bad + ': narrower / unsigned arithmetic reorders some timestamp pairs (differences >= 2^31, negative pts)')
    rep.floor('C03.PTSWIDTH', 1)

    # ---------------- PTSORDER: pts is an opaque application label ("all pts sequences"): the library may copy it, never order by
    # it.  Any relational comparison whose two operands both read EbBufferHeaderType.pts decides an order from application
    # values and relabels packets as soon as the sequence is not increasing.
    PTSF = 'EbBufferHeaderType.pts'
    npo = 0
    for g in P.fns:
        if g.lib != 'Encoder' or g.nocfg:
            continue
        seen_l = set()
        for ev in g.events():
            e = ev.get('e')
            if e is None:
                continue
            for x in subexprs(e):
                if x[0] == 'b' and x[1] in ('<', '>', '<=', '>=') and ev.get('l') not in seen_l:
                    if any(y[0] == 'm' and y[1] == PTSF for y in subexprs(x[2])) and any(y[0] == 'm' and y[1] == PTSF for y in subexprs(x[3])):
                        seen_l.add(ev.get('l'))
                        npo += 1
                        rep.ob('C03.PTSORDER', '%s/cmp' % g.name, False, g.loc(ev),
                               '%s orders by comparing two application pts values (%s): with a pts sequence that is not increasing the packets keep their order but get the labels of other pictures' % (g.name, pstr(x)[:60]))
    if not npo:
        rep.ob('C03.PTSORDER', 'no-pts-comparison', True, 'Source/Lib/Encoder', 'no relational comparison between two pts values in the encoder library')
    rep.floor('C03.PTSORDER', 1)

    # ---------------- EOS: the end-of-stream flag of the application's last picture arrives on exactly the last packet.  Chain of
    # necessary links, each a dependence visible in the code:
    #   input flags & EOS -> pcs.end_of_sequence_flag (resource coordination)
    #   pcs.end_of_sequence_flag -> EncodeContext.terminating_sequence_flag_received / terminating_picture_number (picture decision)
    #   those two -> the EOS bit of the packet's flags (packetization)
    #   when the EOS packet is followed by a show-existing packet, the bit moves to that packet (cleared on one, set on the other)
    from rules.C20 import value_reads
    EOSV = 1

    def is_lit_any(x):
        x = strip(x)
        return bool(x) and x[0] in ('l',) or (bool(x) and x[0] == 'u' and x[1] in ('~', '-') and strip(x[2])[0] == 'l')

    def lit_name(x, name):
        x = strip(x)
        return bool(x) and x[0] == 'l' and len(x) > 2 and x[2] and name in str(x[2])

    def reads(e):
        return {x[1] for x in value_reads(e) if x[0] == 'm'}

    def ctl_reads(f, ev):
        out = set()
        for kind, cond, line in f.ctl_chain(ev):
            if cond is not None and not isinstance(cond[0], list):
                out |= reads(cond)
        return out
    rc = P.fn('resource_coordination_kernel')
    l1 = []
    for ev in rc.events(('st', 'decl')):
        e = ev.get('e')
        if e is None:
            continue
        rhs = e if ev['k'] == 'decl' else (e[3] if e[0] == 'a' else None)
        if rhs is not None and any(lit_name(x, 'EB_BUFFERFLAG_EOS') for x in subexprs(rhs)) and HDR + 'flags' in reads(rhs):
            l1.append(ev)
    rep.ob('C03.EOS', 'link1:input-flags->end_of_sequence_flag', bool(l1), rc.loc(l1[0]) if l1 else rc.loc(),
           'resource coordination derives the end-of-sequence state from (input flags & EB_BUFFERFLAG_EOS)' if l1 else
           'nothing in resource_coordination_kernel tests the submitted picture\'s flags for EB_BUFFERFLAG_EOS')
    tsf = 'EncodeContext.terminating_sequence_flag_received'
    tpn = 'EncodeContext.terminating_picture_number'
    l2 = []
    for g in P.fns:
        if g.lib != 'Encoder' or g.nocfg:
            continue
        for ev in g.events(('st',)):
            e = ev['e']
            if e[0] == 'a' and last_field(strip(e[2])) == tsf and not (strip(e[3])[0] == 'l' and strip(e[3])[1] == 0):
                l2.append((g, ev, any(x.endswith('.end_of_sequence_flag') for x in ctl_reads(g, ev) | reads(e[3]))))
    rep.ob('C03.EOS', 'link2:end_of_sequence_flag->terminating', bool(l2) and all(ok for _, _, ok in l2), l2[0][0].loc(l2[0][1]) if l2 else pk.loc(),
           ('terminating_sequence_flag_received is raised in %s under a condition on end_of_sequence_flag' % sorted({g.name for g, _, _ in l2})) if (l2 and all(ok for _, _, ok in l2)) else
           'terminating_sequence_flag_received is raised without consulting end_of_sequence_flag (or never)')
    # link 2b: the terminating picture is recorded in the numbering packetization compares it with.  Packetization tests
    # decode_order == terminating_picture_number; decode_order counts coded pictures (overlays included), picture_number counts
    # displayed ones.  The value stored into terminating_picture_number must therefore come from the same source members as
    # decode_order does (or from decode_order itself).
    dsrc = set()
    for g in P.fns:
        if g.lib != 'Encoder' or g.nocfg:
            continue
        for ev in g.events(('st',)):
            e = ev['e']
            if e[0] == 'a' and e[1] == '=' and last_field(strip(e[2])) == 'PictureParentControlSet.decode_order':
                dsrc |= {x for x in reads(e[3])}
    dsrc.add('PictureParentControlSet.decode_order')
    l2b = []
    for g in P.fns:
        if g.lib != 'Encoder' or g.nocfg:
            continue
        for ev in g.events(('st',)):
            e = ev['e']
            if e[0] == 'a' and e[1] == '=' and last_field(strip(e[2])) == tpn and not is_lit_any(e[3]):
                rd = set(reads(e[3]))
                # through locals with a single definition (`const uint64_t last = pcs->picture_number_alt; ctx->terminating = last;`)
                for x in value_reads(e[3]):
                    if x[0] == 'v' and x[2] == 'l':
                        defs = [d for d in g.events(('decl', 'st')) if (d['k'] == 'decl' and d['n'] == x[1] and d.get('e') is not None) or
                                (d['k'] == 'st' and d['e'][0] == 'a' and d['e'][1] == '=' and strip(d['e'][2]) == x)]
                        if len(defs) == 1:
                            rd |= reads(defs[0]['e'] if defs[0]['k'] == 'decl' else defs[0]['e'][3])
                l2b.append((g, ev, bool(rd & dsrc)))
    rep.ob('C03.EOS', 'link2b:terminating-number-domain', bool(l2b) and all(ok for _, _, ok in l2b), l2b[0][0].loc(l2b[0][1]) if l2b else pk.loc(),
           ('terminating_picture_number is taken from a source of decode_order (%s)' % sorted(x.split('.')[1] for x in dsrc)[:4]) if (l2b and all(ok for _, _, ok in l2b)) else
           'terminating_picture_number is not taken from any member decode_order is derived from: it is compared with decode_order (coded-picture numbering, overlays included), so EOS lands on the wrong packet when the two numberings differ')
    l3 = []
    for g in scope:
        for ev in g.events(('st',)):
            e = ev['e']
            if e[0] == 'a' and last_field(strip(e[2])) == HDR + 'flags' and any(lit_name(x, 'EB_BUFFERFLAG_EOS') for x in subexprs(e[3])) and e[1] in ('|=', '='):
                if g.name in ('set_eos_flag',):
                    continue
                dep = reads(e[3]) | ctl_reads(g, ev)
                l3.append((g, ev, tsf in dep and tpn in dep))
    rep.ob('C03.EOS', 'link3:terminating->packet-flags', bool(l3) and all(ok for _, _, ok in l3), l3[0][0].loc(l3[0][1]) if l3 else pk.loc(),
           'the packet EOS bit is set from terminating_sequence_flag_received && decode_order == terminating_picture_number' if (l3 and all(ok for _, _, ok in l3)) else
           'the packet EOS bit is set without comparing against the terminating picture (or never set)')
    clears = [ev for ev, n in pk.calls('clear_eos_flag')]
    sets = [ev for ev, n in pk.calls('set_eos_flag')]
    def reaches(f, a, b):
        seen, st = set(), [a['b']]
        first = True
        while st:
            x = st.pop()
            if x == b['b'] and (not first or b['x'] > a['x'] or x != a['b']):
                if x != a['b'] or b['x'] > a['x'] or not first:
                    return True
            first = False
            if x in seen:
                continue
            seen.add(x)
            st.extend(s2 for s2 in f.blocks[x]['succ'] if s2 is not None)
        return False
    moved = bool(clears) and bool(sets) and all(any(reaches(pk, c, s2) for s2 in sets) for c in clears)
    rep.ob('C03.EOS', 'link4:eos-moves-to-show-existing', moved, pk.loc(clears[0]) if clears else pk.loc(),
           'when the EOS packet is followed by a show-existing packet the bit is cleared on the first and set on the second' if moved else
           'the EOS bit is cleared for a packet with a trailing show-existing frame but not set on that frame\'s packet (or the hand-over is gone): the stream ends without EOS or with EOS before the last packet')
    recon_eos_atomic(P, rep, 'C03.EOS', 'link5:recon-eos-atomic')
    rep.floor('C03.EOS', 6)


def recon_eos_atomic(P, rep, rule, key):
    """Reconstructed pictures: which buffer carries EOS is decided by comparing a shared counter with terminating_picture_number.
    The decision, the counter increment and the delivery of that buffer must be one critical section: if the buffer is posted
    after the lock is dropped, another picture that took a later counter value can be delivered first, and an application
    that stops at the EOS-flagged recon picture never sees it."""
    from engine.locks import LockAnalysis
    f = P.fn('recon_output')
    la = LockAnalysis(P)
    CNT = 'EncodeContext.total_number_of_recon_frames'
    MUT = 'EncodeContext.total_number_of_recon_frame_mutex'
    rmw = [ev for ev in f.events(('st',)) if ev['e'][0] in ('a', 'u') and last_field(strip(ev['e'][2])) == CNT]
    posts = [ev for ev, n in f.calls(('svt_post_full_object',))]
    if not rmw or not posts:
        raise AnalysisBroken('recon_output: counter update (%d) / post (%d) not found' % (len(rmw), len(posts)))
    probs = []
    for ev in rmw:
        must, may = la.held_classes_at(f, ev)
        if MUT not in must:
            probs.append('counter updated at line %s without the counter mutex' % ev.get('l'))
    for ev in posts:
        must, may = la.held_classes_at(f, ev)
        if MUT not in must:
            probs.append('the recon buffer is posted (line %s) after the counter mutex was released: a picture with a later count can be delivered before the EOS-flagged one' % ev.get('l'))
    rep.ob(rule, key, not probs, f.loc(posts[0]),
           'recon_output: EOS decision, counter increment and delivery of the buffer form one critical section under total_number_of_recon_frame_mutex' if not probs else '; '.join(probs))
