"""C12 - parameter validation accepts exactly the documented parameter domain.

Oracle  : the parameter tables of Docs/svt-av1_encoder_user_guide.md (columns "Configuration file parameter", "Range",
          "Default"), joined to EbSvtAv1EncConfiguration members through the application's real option table
          (config_entry[] in Source/App/EncApp/EbAppConfig.c -> setter -> the member the setter stores the parsed number
          into, untransformed).
Code    : the accepted set of svt_av1_enc_set_parameter = copy_api_from_app followed by verify_settings, obtained by
          evaluating their extracted CFGs (C integer semantics, engine/cinterp.py) on the default configuration with one
          member set to a probe value.  Probe values = every literal the member is compared with (+-1), the documented
          bounds (+-1), the default, and the extremes of the member's C type: the member is only touched through
          comparisons with literals, so this finite partition decides the predicate for every value.
Rules   : C12.RANGE   per documented member: code-accepted set == documented set (both directions, value by value)
          C12.COUPLED documented cross-parameter constraints (frozen table, documentation line cited)
"""
import os, re

from engine.facts import pstr, strip, callee_name, subexprs, fields_in, last_field, root_of, AnalysisBroken, REPO
from engine.cinterp import Machine, V, Unknown, Unsupported, UB

PID = 'C12'

META = {
    'technique': 'evaluation of the extracted copy_api_from_app + verify_settings control-flow graphs (C integer semantics) over the finite literal-induced partition of each configuration member, compared with the documented range table joined through the application option table',
    'text': 'Decides, for every configuration member with a documented numeric range, that the set of values svt_av1_enc_set_parameter accepts equals the documented set - for all values of the member, because the code only compares it with literals and the probe set contains every comparison boundary - and checks the documented cross-parameter constraints. Divergences that exist today are genuine (code or documentation is wrong) and are frozen value-by-value in known_findings.json; a new divergence is a violation. Also decided: every member verify_settings tests is taken over from the caller by copy_api_from_app on every path, or under the same guard member under which it is tested (no stale values from an earlier call).',
    'note': 'oracle = Docs/svt-av1_encoder_user_guide.md; members whose option setter transforms the parsed number (units, shifts) or that have no numeric range in the table are not compared (listed in the evidence); other members are held at their defaults (plus the documented enabling context from the coupling table) while one member is probed',
    'ref': 'DESIGN.md section 5 C12',
}

DOC = 'Docs/svt-av1_encoder_user_guide.md'
CFG = 'EbSvtAv1EncConfiguration'

# context needed for a member's range to be meaningful (documented couplings): other members set while probing
PROBE_CONTEXT = {
    'intrabc_mode': {'screen_content_mode': 1},          # doc: IntraBC applies to screen content
    'number_hme_search_region_in_width': {'enable_hme_flag': 1},
    'number_hme_search_region_in_height': {'enable_hme_flag': 1},
    # EbSvtAv1Enc.h: min/max QP are "only applicable when rate control mode is set to 1" (copy_api_from_app overrides them
    # with 1/63 in CQP), so their range is probed where it applies
    'max_qp_allowed': {'rate_control_mode': 1, 'look_ahead_distance': 0, 'min_qp_allowed': 0},
    'min_qp_allowed': {'rate_control_mode': 1, 'look_ahead_distance': 0},
}

# documented cross-parameter constraints: (key, doc citation, assignments, expect_reject)
COUPLED = [
    ('intra-period-255-when-rc', DOC + ' IntraPeriod: "if RateControlMode >= 1 intra-period limited to [-2, 255]"',
     {'rate_control_mode': 1, 'intra_period_length': 256, 'look_ahead_distance': 0}, True),
    ('intra-period-255-ok-when-rc', DOC + ' IntraPeriod: "[-2, 255]" with RateControlMode >= 1',
     {'rate_control_mode': 1, 'intra_period_length': 255, 'look_ahead_distance': 0}, False),
    ('intra-period-large-cqp', DOC + ' IntraPeriod: range [-2 - 2^31-2] in CQP',
     {'rate_control_mode': 0, 'intra_period_length': 1000}, False),
    ('min-qp-le-max-qp', 'Source/API/EbSvtAv1Enc.h max_qp_allowed: "It has to be greater or equal to minQpAllowed"',
     {'rate_control_mode': 1, 'min_qp_allowed': 40, 'max_qp_allowed': 30, 'look_ahead_distance': 0}, True),
    ('min-qp-eq-max-qp', 'Source/API/EbSvtAv1Enc.h max_qp_allowed: "greater or equal to minQpAllowed"',
     {'rate_control_mode': 1, 'min_qp_allowed': 30, 'max_qp_allowed': 30, 'look_ahead_distance': 0}, False),
    ('superres-not-with-2pass', 'Source/Lib/Encoder/Globals/EbEncHandle.c verify_settings message + ' + DOC + ' (super-resolution is 1-pass only)',
     {'superres_mode': 1, 'rc_firstpass_stats_out': 1}, True),
    ('profile0-420-only', 'Source/API/EbSvtAv1Enc.h profile: main profile is 4:2:0 8/10 bit',
     {'profile': 0, 'encoder_color_format': 2}, True),
    ('bitdepth-8-or-10', DOC + ' EncoderBitDepth [8 , 10]', {'encoder_bit_depth': 12}, True),
]


def parse_int(s):
    s = s.strip().replace(' ', '')
    m = re.fullmatch(r'(-?\d+)', s)
    if m:
        return int(m.group(1))
    m = re.fullmatch(r'2\^(\d+)(-(\d+))?', s)
    if m:
        return 2 ** int(m.group(1)) - (int(m.group(3)) if m.group(3) else 0)
    return None


def parse_range(r):
    """-> list of candidate accepted-set descriptions [('range', lo, hi) | ('set', {...})], or None."""
    r = r.strip()
    r = r.replace(']]', ']')
    m = re.fullmatch(r'\[(.*)\]', r)
    if not m:
        return None
    body = m.group(1).strip()
    # "a - b" / "a-b"
    m2 = re.fullmatch(r'\s*(-?\s*[\d^]+(?:\s*-\s*\d+)?)\s*-\s*(-?\s*[\d^]+(?:\s*-\s*\d+)?)\s*', body)
    parts = [p for p in body.split(',')]
    if ',' in body:
        vals = [parse_int(p) for p in parts]
        if any(v is None for v in vals):
            return None
        out = [('set', set(vals))]
        if len(vals) == 2 and vals[0] < vals[1]:
            out.append(('range', vals[0], vals[1]))
        return out
    # single dash forms: try every split position of ' - ' / '-'
    cands = []
    for mm in re.finditer(r'-', body):
        i = mm.start()
        if i == 0:
            continue
        lo, hi = parse_int(body[:i]), parse_int(body[i + 1:])
        if lo is not None and hi is not None and lo <= hi:
            cands.append(('range', lo, hi))
    return cands[:1] or None


def doc_table():
    p = os.path.join(REPO, DOC)
    rows = {}
    for i, line in enumerate(open(p, encoding='utf-8', errors='replace'), 1):
        if not line.startswith('| **'):
            continue
        cells = [c.strip() for c in line.strip().strip('|').split('|')]
        if len(cells) < 4 or cells[0].startswith('**Configuration'):
            continue
        name = cells[0].strip('* ').strip()
        rows[name] = {'line': i, 'range': cells[2], 'default': cells[3]}
    return rows


def token_fields(P):
    """{config-file token: (member, setter name)} for setters that store the parsed number unchanged."""
    g = [x for x in P.globals if x['name'] == 'config_entry' and x.get('e')]
    if not g:
        raise AnalysisBroken('application option table config_entry[] not found')
    out, skipped = {}, {}
    for ent in g[0]['e'][1]:
        if ent[0] != 'il' or len(ent[1]) < 4:
            continue
        tok = ent[1][2]
        fn = ent[1][3]
        if not tok or tok[0] != 's' or not fn or fn[0] != 'f':
            continue
        cands = P.by_name.get(fn[1], [])
        if not cands:
            continue
        f = cands[0]
        stores = [ev for ev in f.events(('st',)) if ev['e'][0] in ('a', 'u')]
        tg = [last_field(strip(ev['e'][2])) for ev in stores]
        tg = [t for t in tg if t and t.startswith(CFG + '.')]
        if len(stores) != 1 or len(tg) != 1 or stores[0]['e'][0] != 'a' or stores[0]['e'][1] != '=':
            skipped[tok[1]] = 'setter %s is not a single plain store' % fn[1]
            continue
        rhs = strip(stores[0]['e'][3])
        if not (rhs and rhs[0] == 'c' and callee_name(rhs) in ('strtol', 'strtoul', 'strtoll', 'strtoull', 'atoi')):
            skipped[tok[1]] = 'setter %s transforms the parsed value' % fn[1]
            continue
        if strip(stores[0]['e'][2])[0] != 'm' or strip(stores[0]['e'][2])[1] != tg[0]:
            skipped[tok[1]] = 'setter %s stores into a sub-object' % fn[1]
            continue
        out[tok[1]] = (tg[0].split('.', 1)[1], fn[1])
    return out, skipped


class Oracle:
    """Accept/reject of a configuration = defaults + overrides, by evaluating the extracted code."""

    def __init__(self, P):
        self.P = P
        self.d = P.fn('svt_svt_enc_init_parameter')
        self.c = P.fn('copy_api_from_app')
        self.v = P.fn('verify_settings', 'EbEncHandle.c')
        setp = P.fn('svt_av1_enc_set_parameter')
        self.cfg_param = None
        for ev, n in setp.calls('copy_api_from_app'):
            for i, a in enumerate(ev['e'][2]):
                r = root_of(strip(a))
                if r is not None and r[1] == setp.params[1][0]:
                    self.cfg_param = self.c.params[i][0]
        order = [n for ev, n in setp.calls() if n in ('copy_api_from_app', 'verify_settings')]
        if self.cfg_param is None or order[:2] != ['copy_api_from_app', 'verify_settings']:
            raise AnalysisBroken('set_parameter no longer runs copy_api_from_app then verify_settings')
        M = Machine(P)
        r = M.run(self.d, {self.d.params[0][0]: ('CFG',)})
        self.base = dict(M.mem)
        self.ftypes = {f['n']: (f['bits'], f['signed']) for f in P.record(CFG)['fields'] if 'bits' in f and not f.get('dims')}
        for f in P.record(CFG)['fields']:
            if f.get('enum') and not f.get('dims'):
                self.ftypes[f['n']] = (32, False)
        self.cache = {}

    def rejected(self, over):
        key = tuple(sorted(over.items()))
        if key in self.cache:
            return self.cache[key]
        M = Machine(self.P)
        M.mem = dict(self.base)
        M.mem[('CFG', 'source_width')] = V(640, 32, False)
        M.mem[('CFG', 'source_height')] = V(480, 32, False)
        for k, v in over.items():
            if k == 'rc_twopass_stats_in.sz':
                M.mem[('CFG', 'rc_twopass_stats_in', 'sz')] = V(v, 64, False)
                continue
            t = self.ftypes.get(k)
            if t is None:
                raise AnalysisBroken('member %s is not a scalar of %s' % (k, CFG))
            M.mem[('CFG', k)] = V(v, t[0], t[1])
        M.lenient_ub = True
        try:
            M.run(self.c, {self.c.params[0][0]: ('SCS',), self.cfg_param: ('CFG',)})
            r = M.run(self.v, {self.v.params[0][0]: ('SCS',)})
            # a configuration that is rejected anyway is "rejected" even if a later range expression shifts out of
            # range on the way; an *accepted* configuration whose validation hit undefined behaviour is reported
            res = (r.v != 0, '' if (r.v != 0 or not M.ub_hits) else 'accepted although validation performs: ' + M.ub_hits[0])
        except UB as e:
            res = (None, 'undefined behaviour: %s' % e)
        except Unknown as e:
            res = (None, 'unknown: %s' % e)
        self.cache[key] = res
        return res


def literals_for(P, member):
    """Literals the member (in the caller struct or its static_config copy) is compared with anywhere in copy/verify."""
    out = set()
    fid = CFG + '.' + member
    for f in (P.fn('copy_api_from_app'), P.fn('verify_settings', 'EbEncHandle.c')):
        conds = [b.get('fullcond') for b in f.blocks.values() if b.get('fullcond') is not None]
        for ev in f.events(('st', 'decl')):
            if ev.get('e') is not None:
                conds.append(ev['e'])
        for c in conds:
            for x in subexprs(c):
                if x[0] == 'b' and x[1] in ('<', '<=', '>', '>=', '==', '!='):
                    for a, b in ((x[2], x[3]), (x[3], x[2])):
                        bb = strip(b)
                        if bb and bb[0] == 'l' and fid in fields_in(a):
                            out.add(bb[1])
                            # values that reach the literal through simple arithmetic on the member (1 << m, m % k)
                            for y in subexprs(a):
                                if y[0] == 'b' and y[1] == '<<':
                                    for s in range(0, 9):
                                        out.add(s)
    return out


def run(P, rep, tier):
    rows = doc_table()
    if len(rows) < 100:
        raise AnalysisBroken('only %d parameter rows parsed from %s' % (len(rows), DOC))
    tf, skipped = token_fields(P)
    if len(tf) < 90:
        raise AnalysisBroken('only %d option tokens joined to configuration members' % len(tf))
    orc = Oracle(P)
    rep.explanation = ('%d documented parameters parsed from %s; %d joined to %s members through config_entry[]; accepted sets decided by '
                       'evaluating the extracted CFGs of copy_api_from_app (%d blocks) and verify_settings (%d blocks) on the default '
                       'configuration with one member probed over its literal-induced partition.' %
                       (len(rows), DOC, len(tf), CFG, len(orc.c.blocks), len(orc.v.blocks)))
    rep.assumptions = ['the documentation table is the oracle', 'other members at their library defaults (640x480 source) while one is probed']
    compared = []
    notcomp = []
    for tok in sorted(rows):
        row = rows[tok]
        if tok not in tf:
            notcomp.append('%s: %s' % (tok, skipped.get(tok, 'no library member set by this option')))
            continue
        member, setter = tf[tok]
        cands = parse_range(row['range'])
        if not cands:
            notcomp.append('%s: range "%s" is not numeric' % (tok, row['range']))
            continue
        t = orc.ftypes.get(member)
        if t is None:
            notcomp.append('%s: member %s is not a scalar' % (tok, member))
            continue
        bits, sg = t
        tmin, tmax = (-(1 << (bits - 1)), (1 << (bits - 1)) - 1) if sg else (0, (1 << bits) - 1)
        dflt = parse_int(row['default'])
        probes = set()
        for c in cands:
            if c[0] == 'range':
                probes |= {c[1] - 1, c[1], c[1] + 1, c[2] - 1, c[2], c[2] + 1}
            else:
                for v in c[1]:
                    probes |= {v - 1, v, v + 1}
        for l in literals_for(P, member):
            probes |= {l - 1, l, l + 1}
        if dflt is not None:
            probes.add(dflt)
        lib_default = orc.base.get(('CFG', member))
        if lib_default is not None:
            probes.add(lib_default.v)
        probes |= {tmin, tmax, 0}
        probes = sorted(p for p in probes if tmin <= p <= tmax)
        ctx = PROBE_CONTEXT.get(member, {})
        code_acc, code_rej, undecided = set(), set(), {}
        for p in probes:
            o = dict(ctx)
            o[member] = p
            r, why = orc.rejected(o)
            if r is None:
                undecided[p] = why
            elif r:
                code_rej.add(p)
            else:
                code_acc.add(p)
                if why:
                    undecided[p] = why
        best = None
        for c in cands:
            if c[0] == 'range':
                doc_acc = {p for p in probes if c[1] <= p <= c[2]}
            else:
                doc_acc = {p for p in probes if p in c[1]}
            # the documented default (e.g. -1 = DEFAULT) is part of the documented domain
            if dflt is not None and dflt in probes:
                doc_acc.add(dflt)
            over_acc = sorted((code_acc | set(undecided)) - doc_acc)
            over_rej = sorted(code_rej & doc_acc)
            score = len(over_acc) + len(over_rej)
            if best is None or score < best[0]:
                best = (score, c, over_acc, over_rej, doc_acc)
        score, c, over_acc, over_rej, doc_acc = best
        where = '%s:%d' % (DOC, row['line'])
        desc = 'doc %s range %s default %s -> member %s (%s%d); probes %s; code rejects %s' % (
            tok, row['range'], row['default'], member, 'i' if sg else 'u', bits, _short(probes), _short(sorted(code_rej)))
        compared.append(tok)

        def cls(vals):
            """describe a violating value set stably: listed values, extremes named"""
            return ','.join('TYPE_MAX' if v == tmax and v > 1000 else 'TYPE_MIN' if v == tmin and v < -1000 else str(v) for v in vals)
        if over_rej:
            rep.ob('C12.RANGE', '%s/over-reject:{%s}' % (member, cls(over_rej)), False, where,
                   'documented-valid value(s) %s of %s are rejected by set_parameter. %s' % (over_rej, tok, desc))
        else:
            rep.ob('C12.RANGE', '%s/over-reject' % member, True, where, 'every documented-valid probe value is accepted. ' + desc)
        if over_acc:
            ub = {p: undecided[p] for p in over_acc if p in undecided}
            rep.ob('C12.RANGE', '%s/over-accept:{%s}' % (member, cls(over_acc)), False, where,
                   'value(s) %s outside the documented range of %s are accepted by set_parameter%s. %s' %
                   (over_acc, tok, (' (evaluation of some hits ' + str(ub) + ')') if ub else '', desc))
        else:
            rep.ob('C12.RANGE', '%s/over-accept' % member, True, where, 'every probe value outside the documented range is rejected. ' + desc)
    # probe verdicts for the (manual, triage-only) replay against the built library: tools/c12_replay.py
    try:
        import json
        dump = [{'over': dict(k), 'rejected': v[0], 'note': v[1]} for k, v in orc.cache.items()]
        json.dump(dump, open(os.path.join(os.path.dirname(os.path.dirname(os.path.abspath(__file__))), '.cache', 'c12_probes.json'), 'w'))
    except Exception:
        pass
    for n in notcomp:
        rep.note('not compared - ' + n)
    rep.analysed = {'documented_parameters': len(rows), 'joined': len(tf), 'compared': compared}
    rep.floor('C12.RANGE', 120)

    # ---------------- COUPLED
    for key, cite, over, expect in COUPLED:
        r, why = orc.rejected(over)
        ok = (r == expect)
        rep.ob('C12.COUPLED', key, ok, cite.split(' ')[0],
               '%s: configuration %s is %s by set_parameter, documentation requires %s' %
               (cite, over, 'rejected' if r else ('accepted' if r is False else 'undecided (%s)' % why), 'rejection' if expect else 'acceptance'))
    rep.floor('C12.COUPLED', 6)
    run_copy(P, rep)


def _short(vals):
    vals = list(vals)
    if len(vals) > 14:
        return str(vals[:7])[:-1] + ', ..., ' + str(vals[-5:])[1:]
    return str(vals)


def run_copy(P, rep):
    """C12.COPY - what verify_settings judges is what the caller passed *this time*: every member it tests is assigned by
    copy_api_from_app on every path, or is assigned and tested under the same guard member (manual prediction structure,
    HME region counts).  A member that is refreshed only under an unrelated condition keeps the value of an earlier call
    (or zero), so out-of-range input is accepted and a stale invalid value rejects a valid configuration."""
    vs = P.fn('verify_settings', 'EbEncHandle.c')
    cap = P.fn('copy_api_from_app')
    CFG = 'EbSvtAv1EncConfiguration.'
    tests = {}
    for parent, kind, cond, line in vs.ctl:
        if cond is None or isinstance(cond[0], list) or kind not in ('if', 'else', 'for', 'while'):
            continue
    # tests with their own guards: walk events / blocks
    for bid in vs.reach():
        b = vs.blocks[bid]
        c = b.get('fullcond')
        if c is None:
            continue
        flds = {x for x in fields_in(c) if x.startswith(CFG)}
        if not flds:
            continue
        guards = set()
        evs = b['ev']
        if evs:
            for kind, cond, line in vs.ctl_chain(evs[-1]):
                if cond is not None and not isinstance(cond[0], list) and pstr(strip(cond)) != pstr(strip(c)):
                    guards |= {x for x in fields_in(cond) if x.startswith(CFG)}
        for fl in flds:
            # members read by the same condition (e.g. the region count passed along with the array) guard the test as well
            tests.setdefault(fl, []).append((guards | flds) - {fl})
    if len(tests) < 60:
        raise AnalysisBroken('only %d configuration members found in the conditions of verify_settings' % len(tests))
    n = 0
    for fld in sorted(tests):
        sts = [ev for ev in cap.events(('st',)) if ev['e'][0] in ('a', 'u') and last_field(strip(ev['e'][2])) == fld]
        if not sts:
            # copied with a memory copy (array members): not a per-path question
            cps = [ev for ev, nm in cap.calls() if ev['e'][2] and any(last_field(strip(a)) == fld for a in ev['e'][2])]
            rep.ob('C12.COPY', 'member:%s' % fld.split('.')[1], bool(cps), cap.loc(cps[0]) if cps else cap.loc(),
                   'taken over by a block copy' if cps else 'tested by verify_settings but never taken over from the caller in copy_api_from_app', nontrivial=bool(cps))
            continue
        blocks = {ev['b'] for ev in sts}
        seen, st, escaped = set(), [cap.entry], False
        while st:
            x = st.pop()
            if x in seen or x in blocks:
                continue
            seen.add(x)
            if x == cap.exit:
                escaped = True
                break
            st.extend(s2 for s2 in cap.blocks[x]['succ'] if s2 is not None)
        n += 1
        if not escaped:
            rep.ob('C12.COPY', 'member:%s' % fld.split('.')[1], True, cap.loc(sts[0]), 'assigned from the caller on every path')
            continue
        g = None
        for ev in sts:
            gs = set()
            for kind, cond, line in cap.ctl_chain(ev):
                if cond is not None and not isinstance(cond[0], list):
                    gs |= {x for x in fields_in(cond) if x.startswith(CFG)}
            g = gs if g is None else (g & gs)
        g = (g or set()) - {fld}
        same_guard = bool(g) and all(t & g for t in tests[fld])
        rep.ob('C12.COPY', 'member:%s' % fld.split('.')[1], same_guard, cap.loc(sts[0]),
               ('assigned and tested under the same guard (%s)' % sorted(x.split('.')[1] for x in g)) if same_guard else
               ('taken over from the caller only under %s, but verify_settings tests it regardless: on the other paths it keeps the value of an earlier call (or zero), '
                'so out-of-range input is accepted and a stale value can reject a valid configuration' %
                (sorted(x.split('.')[1] for x in g) or 'some condition')))
    rep.floor('C12.COPY', 60)
    run_accum(P, rep)


def run_accum(P, rep):
    """C12.ACCUM: verify_settings accumulates its verdict in one local that it returns.  A rejection recorded there must survive to
    the return: after its initialisation the accumulator may only be assigned an error literal, be merged (`x = c ? err : x`,
    `if (x == EB_ErrorNone) x = f()`), or be assigned a callee's verdict when nothing could have been recorded yet.  A plain
    `x = helper(..)` later in the function resets earlier rejections whenever the helper is satisfied."""
    from engine.facts import strip, pstr, subexprs, callee_name
    n = 0
    for f in P.fns:
        if f.nocfg or f.lib != 'Encoder' or f.name not in ('verify_settings',) and not f.name.startswith('verify_'):
            continue
        rets = [ev for ev in f.events(('ret',)) if ev.get('e') is not None and strip(ev['e'])[0] == 'v']
        accs = {strip(ev['e'])[1] for ev in rets}
        for acc in sorted(accs):
            stores = [ev for ev in f.events(('st',)) if ev['e'][0] == 'a' and ev['e'][1] == '=' and strip(ev['e'][2])[0] == 'v' and strip(ev['e'][2])[1] == acc]
            errs = [ev for ev in stores if strip(ev['e'][3])[0] == 'l' and strip(ev['e'][3])[1] != 0]
            if len(errs) < 2:
                continue
            first_err = min(ev.get('l', 0) for ev in errs)
            for ev in stores:
                r = strip(ev['e'][3])
                if r[0] == 'l':
                    continue
                n += 1
                merged = any(x[0] == 'v' and x[1] == acc for x in subexprs(r)) or \
                    any(c is not None and any(x[0] == 'v' and x[1] == acc for x in subexprs(c)) for k, c, l in f.ctl_chain(ev))
                early = ev.get('l', 0) < first_err
                ok = merged or early
                rep.ob('C12.ACCUM', '%s/%s=%s' % (f.name, acc, pstr(r)[:40]), ok, f.loc(ev),
                       ('%s takes the verdict of %s %s' % (acc, pstr(r)[:40], 'merged with what was recorded' if merged else 'before any rejection can have been recorded')) if ok else
                       ('%s = %s overwrites the accumulated verdict: every rejection recorded above this line is lost whenever %s is satisfied, and the invalid configuration is accepted' % (acc, pstr(r)[:40], callee_name(r) or 'the right-hand side')))
    if not n:
        rep.ob('C12.ACCUM', 'verify_settings/accumulator', True, P.fn('verify_settings', 'EbEncHandle.c').loc(), 'the verdict accumulator of verify_settings is only ever assigned error literals')
    rep.floor('C12.ACCUM', 1)

    run_twin(P, rep)


# ---------------- TWIN: several configuration members exist twice in the sequence control set - once inside static_config, which
# verify_settings range-tests, and once as a member of the control set itself, which the pipeline reads.  Validation means something
# only if the two stay equal: in copy_api_from_app every store to the copy the pipeline reads is chained with, or takes its value from,
# the validated copy (and vice versa for stores that do not simply take the caller's value).
def run_twin(P, rep):
    f = P.fn('copy_api_from_app')
    CFG = 'EbSvtAv1EncConfiguration.'
    SCS = 'SequenceControlSet.'

    def chain(e):
        out = []
        e = strip(e)
        while e is not None and e[0] == 'a' and e[1] == '=':
            out.append(strip(e[2]))
            e = strip(e[3])
        return out, e
    stores = {}
    for ev in f.events(('st',)):
        tg, rhs = chain(ev['e'])
        flds = [last_field(t) for t in tg if t is not None and t[0] == 'm']
        for fl in flds:
            if fl and (fl.startswith(CFG) or fl.startswith(SCS)):
                stores.setdefault(fl, []).append((ev, set(x for x in flds if x), rhs))
    names = {k.split('.', 1)[1] for k in stores if k.startswith(SCS)} & {k.split('.', 1)[1] for k in stores if k.startswith(CFG)}
    if len(names) < 3:
        raise AnalysisBroken('only %d members are kept both in static_config and in the sequence control set' % len(names))
    n = 0
    for nm in sorted(names):
        for ev, fl, rhs in stores[SCS + nm]:
            n += 1
            ok = (CFG + nm) in fl or (rhs is not None and any(x[0] == 'm' and x[1] == CFG + nm for x in subexprs(rhs)))
            rep.ob('C12.TWIN', '%s=%s' % (nm, pstr(rhs)[:48] if rhs is not None else '?'), ok, f.loc(ev),
                   ('the copy of %s the pipeline reads is assigned together with (or from) the validated copy' % nm) if ok else
                   ('copy_api_from_app gives scs_ptr->%s the value %s without giving static_config.%s the same value: verify_settings range-tests static_config.%s, the pipeline uses the other copy, so out-of-range values pass and in-range values can be rejected' %
                    (nm, pstr(rhs)[:60] if rhs is not None else '?', nm, nm)))
    rep.floor('C12.TWIN', 6)
