"""C05 - output does not depend on the number of threads / core pinning: values derived from the core count stay inside the
parallel geometry.

  C05.GEOM   G = the fields that hold parallel geometry: everything load_default_buffer_configuration_settings derives from the
             core count (process counts, pool / FIFO depths, segment row / column counts), fields that are pure functions of
             those, and the segment tables of EncDecSegments.  In pipeline (run-time) code a value read from G, or a local
             computed from one, may be used only to
               (a) bound a loop (for / while initialiser, condition, increment) - the loop then visits a partition-independent
                   set of superblocks, so the loop counter itself is not geometry;
               (b) compute another geometry local (segment index arithmetic) or be stored into another G field;
               (c) subscript a G table or be passed to the segment / resource-manager / allocation infrastructure;
               (d) be compared with a segment-completion accumulator (the counters guarded under C04).
             Any other use - a geometry value deciding an `if` / `?:`, or flowing into a field or call argument outside G -
             lets the thread count select coding decisions and is reported.
"""
from engine.facts import is_lit, pstr, strip, callee_name, subexprs, fields_in, last_field, root_of, AnalysisBroken
from engine.classes import Classes
from rules.C20 import value_reads

PID = 'C05'

META = {
    'technique': 'field-based taint closure from the core count (configuration function: any dependence; elsewhere: pure functions only) + per-function local taint with the loop-bound idiom + classification of every use site of a geometry value in pipeline code against an enumerated set of harmless idioms; coverage comparison of zero-fill loops against the read loops of the same per-thread context array (per subscript: declared extent, or the read bound)',
    'text': 'Decides that the only things the logical-processor count can influence in the running pipeline are how the work is cut up and how many workers / buffers exist: every read of a core-count-derived geometry value in thread code is a loop bound, segment index arithmetic, a table subscript, an infrastructure argument or a completion-counter comparison. A geometry value that steers a coding decision (the way thread-count dependence actually creeps in) is reported with its site. It does not decide that the wavefront makes the same neighbours available for every grid (C24 covers its structure). Also decided: where a kernel zero-fills an array of its per-thread context and reads it later in the same function, the fill is not demonstrably narrower than a read (a narrower fill leaves elements holding what the previous work item of that thread wrote, which makes the result depend on the distribution of work over threads); bounds that cannot be compared are listed, not decided.',
    'note': 'two documented dependences exist today (pic_based_rate_est keyed on a 1x1 segment grid; enable_pic_mgr_dec_order keyed on logical_processors == 1): recorded findings',
    'ref': 'DESIGN.md section 5 C05',
}

CFG = 'EbSvtAv1EncConfiguration.'
SRC = (CFG + 'logical_processors', CFG + 'unpin', CFG + 'target_socket')
SEG_RECORDS = ('EncDecSegments', 'EncDecSegSegmentRow', 'EncDecSegDependencyMap')
# functions that *are* the partitioning (they compute / consume the segment tables and nothing else)
GEOMETRY_PRODUCERS = {
    'assign_enc_dec_segments': 'wavefront segment hand-out: reads and updates only the segment tables (structure decided under C24)',
    'enc_dec_segments_init': 'builds the segment tables of one tile group from the segment counts and the superblock grid',
    'init_enc_dec_segement': 'sizes the per-tile-group segment grids (clamps the counts to the tile-group size) and fills the tables',
}
# (geometry field, function) pairs where the value only gates *when* a picture is started / fed back, never what is coded
SCHEDULING_ONLY = {
    ('SequenceControlSet.enable_dec_order', 'picture_manager_kernel'): 'gates availability_flag (start pictures in decode order when lp == 1)',
    ('SequenceControlSet.enable_dec_order', 'packetization_kernel'): 'decides whether packetization feeds the decode-order token back to the picture manager',
    ('SequenceControlSet.enable_pic_mgr_dec_order', 'picture_manager_kernel'): 'gates availability_flag (start pictures in decode order without waiting for feedback)',
}
# calls that are part of the parallel infrastructure: geometry values may be passed to them
INFRA_PREFIX = ('svt_', 'assign_enc_dec_segments', 'enc_dec_segments_init', 'memset', 'memcpy', 'malloc', 'calloc', 'free', 'EB_', 'SVT_LOG', 'printf',
                'svt_log', 'fprintf')


def run(P, rep, tier):
    C = Classes(P)
    live = [f for f in P.fns if f.lib == 'Encoder' and not f.nocfg and f not in C.dead]
    ld = P.fn('load_default_buffer_configuration_settings')
    G = set(SRC)
    for r in SEG_RECORDS:
        for x in P.record(r)['fields']:
            if not x['t'].startswith('EbHandle'):
                G.add('%s.%s' % (r, x['n']))
    tl = {(ld.key, 'core_count'), (ld.key, 'lp_count')}
    if not any(ev['k'] == 'decl' and ev['n'] == 'core_count' for ev in ld.events(('decl',))):
        raise AnalysisBroken('load_default_buffer_configuration_settings no longer has a local core_count')

    def is_g(f, x):
        return (x[0] == 'm' and x[1] in G) or (x[0] == 'v' and (f.key, x[1]) in tl)

    def anyg(f, e):
        return any(is_g(f, x) for x in value_reads(e))

    def g_subscript_reads(e):
        """ids of the value-read nodes that only select an element of a G table (scs->seg_count_array[pcs->temporal_layer_index])"""
        out = set()
        for x in subexprs(e):
            if x[0] == 'i' and last_field(strip(x[1])) in G:
                for y in value_reads(x[2]):
                    out.add(id(y))
        return out

    def pure(f, e):
        skip = g_subscript_reads(e)
        rs = [x for x in value_reads(e) if not (x[0] == 'v' and x[2] in ('g', 's')) and id(x) not in skip]
        return bool(rs) and all(is_g(f, x) for x in rs)

    # phase 1: single-threaded configuration / init code - any data or control dependence on the core count makes a field geometry
    initfns = [f for f in live if C.single_threaded(f)]
    ch = True
    while ch:
        ch = False
        for f in initfns:
            for ev in f.events(('decl', 'st')):
                e = ev.get('e')
                if e is None:
                    continue
                if ev['k'] == 'decl':
                    if anyg(f, e) and (f.key, ev['n']) not in tl:
                        tl.add((f.key, ev['n'])); ch = True
                elif e[0] == 'a':
                    t = strip(e[2])
                    if ev.get('pt') or ev.get('mx') or any(x[0] == 'c' for x in subexprs(e[3])):
                        continue            # pointers / allocation results / call results are objects, not geometry values
                    dep = anyg(f, e[3]) or any(k in ('if', 'else') and c is not None and not isinstance(c[0], list) and anyg(f, c) for k, c, l in f.ctl_chain(ev))
                    if dep:
                        if t[0] == 'v' and t[2] == 'l':
                            if (f.key, t[1]) not in tl:
                                tl.add((f.key, t[1])); ch = True
                        else:
                            lf = last_field(t)
                            if lf and lf not in G:
                                G.add(lf); ch = True
    g0 = len(G)
    if g0 < 30:
        raise AnalysisBroken('only %d geometry fields derived from the core count' % g0)
    # phase 2: fields that are pure functions of G (copies into per-picture control sets ...)
    ch = True
    while ch:
        ch = False
        for f in live:
            for ev in f.events(('st',)):
                e = ev['e']
                if e[0] == 'a' and e[1] == '=' and pure(f, e[3]):
                    t = strip(e[2])
                    lf = last_field(t) if t[0] != 'v' else None
                    if lf and lf not in G:
                        G.add(lf); ch = True
    rep.analysed = {'geometry_fields': sorted(G)}
    rep.explanation = '%d geometry fields (%d from the configuration function, %d segment-table members / pure copies)' % (len(G), g0, len(G) - g0)
    rep.assumptions = ['a loop whose bounds come from the geometry visits a set of superblocks / segments that does not depend on the partition',
                       'the infrastructure calls (svt_* resource manager, allocation, segment assignment) do not feed their geometry arguments back into coding decisions']
    guarded = set()
    try:
        from rules.C04 import GUARDS
        guarded = set(GUARDS)
    except Exception:
        pass

    # fields that are accumulated somewhere in live code (completion counters): comparing a geometry total with one is idiom (d)
    acc = set(guarded)
    for f in live:
        for ev in f.events(('st',)):
            e = ev['e']
            if e[0] == 'u' or (e[0] == 'a' and e[1] in ('+=', '-=')):
                lf = last_field(strip(e[2]))
                if lf:
                    acc.add(lf)

    n = {}
    done = {}

    def analyse(f, init, depth=0):
        """classify every use of a geometry value in f; `init` = parameters that carry geometry (from a caller)"""
        key = (f.key, frozenset(init))
        if key in done:
            return
        done[key] = True
        # iterators (locals that are stepped: ++ / -- / += literal) are not geometry: a loop started at a segment's first
        # superblock visits superblocks, whatever the partition (idiom a)
        iters = set()
        for ev in f.events(('st',)):
            e = ev['e']
            t = strip(e[2]) if e[0] in ('a', 'u') else None
            if t is not None and t[0] == 'v' and t[2] == 'l' and (e[0] == 'u' or (e[0] == 'a' and e[1] in ('+=', '-=') and is_lit(e[3]))):
                iters.add(t[1])
        loc = set(init)
        ch = True
        while ch:
            ch = False
            for ev in f.events(('decl', 'st')):
                e = ev.get('e')
                if e is None:
                    continue
                name, rhs = None, None
                if ev['k'] == 'decl':
                    name, rhs = ev['n'], e
                elif e[0] == 'a':
                    t = strip(e[2])
                    if t[0] == 'v' and t[2] in ('l',) or (t[0] == 'v' and t[2].startswith('p')):
                        name, rhs = t[1], e[3]
                if name is None or name in loc or name in iters:
                    continue
                if any(is_g(f, x) or (x[0] == 'v' and x[1] in loc) for x in value_reads(rhs)):
                    loc.add(name); ch = True

        def tainted(e):
            return any(is_g(f, x) or (x[0] == 'v' and x[1] in loc) for x in value_reads(e))

        def report(kind, ev, e, why):
            k = (f.name, kind, pstr(strip(e))[:60])
            n[k] = n.get(k, 0) + 1
            if n[k] > 1:
                return
            rep.ob('C05.GEOM', '%s/%s@%s' % (f.name, kind, pstr(strip(e))[:60]), False, f.loc(ev) if isinstance(ev, dict) else ev,
                   'core-count-derived geometry (%s) %s' % (', '.join(sorted({pstr(x)[:40] for x in value_reads(e) if is_g(f, x) or (x[0] == 'v' and x[1] in loc)}))[:120], why))

        nuse = 0
        # conditions of if / switch statements (loop conditions are idiom a; ?: and && / || inside an assignment are value flow,
        # judged by the store they feed)
        for bid in f.reach():
            b = f.blocks[bid]
            c = b.get('fullcond')
            if c is None or b.get('tk') not in ('IfStmt', 'SwitchStmt') or not tainted(c):
                continue
            nuse += 1
            # (d) every comparison that reads geometry compares it with a completion accumulator
            cmps = [y for y in subexprs(strip(c)) if y[0] == 'b' and y[1] in ('==', '!=', '<', '>', '<=', '>=') and (tainted(y[2]) or tainted(y[3]))]
            if cmps and all(last_field(strip(y[2])) in acc or last_field(strip(y[3])) in acc for y in cmps):
                continue
            greads = {x[1] for x in value_reads(c) if x[0] == 'm' and x[1] in G}
            if greads and not any(x[0] == 'v' and x[1] in loc for x in value_reads(c)) and all((g, f.name) in SCHEDULING_ONLY for g in greads):
                for g in greads:
                    rep.exempt('C05.GEOM', '%s in %s' % (g, f.name), SCHEDULING_ONLY[(g, f.name)])
                continue
            report('cond', '%s:%d' % (f.loc().rsplit(':', 1)[0], b.get('tl', f.line)), c, 'decides a branch in pipeline code')
        # stores into non-geometry fields, call arguments outside the infrastructure
        for ev in f.events(('st', 'call')):
            e = ev['e']
            if ev['k'] == 'st' and e[0] == 'a':
                t = strip(e[2])
                if t[0] == 'v' and (t[2] == 'l' or t[2].startswith('p')):
                    continue
                lf = last_field(t)
                if tainted(e[3]):
                    nuse += 1
                    if lf in G or lf is None:
                        continue
                    report('store:%s' % lf, ev, e[3], 'is stored into %s, which is not geometry' % lf)
            elif ev['k'] == 'call':
                nm = callee_name(e) or ''
                if nm.startswith(INFRA_PREFIX) or nm in GEOMETRY_PRODUCERS:
                    continue
                targs = [i for i, a in enumerate(e[2]) if tainted(a)]
                if not targs:
                    continue
                nuse += len(targs)
                tg = [g for g in P.resolve(nm, f) if not g.nocfg and g.lib == 'Encoder'] if nm else []
                if not tg:
                    continue
                if depth >= 2:
                    report('arg:%s' % nm, ev, e[2][targs[0]], 'is passed to %s (call chain too deep to follow)' % nm)
                    continue
                # follow the value into the callee: its parameter is geometry there and is judged by the same idioms
                for g in tg:
                    analyse(g, {g.params[i][0] for i in targs if i < len(g.params)}, depth + 1)
        if nuse:
            rep.ob('C05.GEOM', '%s/geometry-uses' % f.name, True, f.loc(), '%d uses of geometry values classified' % nuse, nontrivial=True)

    for f in live:
        if f not in C.runtime:
            continue
        if f.name in GEOMETRY_PRODUCERS:
            rep.exempt('C05.GEOM', f.name, GEOMETRY_PRODUCERS[f.name])
            continue
        analyse(f, set())
    rep.floor('C05.GEOM', 12)

    run_scratch(P, rep, C)
    run_phase(P, rep, C)


_lc = {}


def loop_counters(f):
    """locals that are initialised or stepped in a for-statement header or compared in a loop condition"""
    if f.key in _lc:
        return _lc[f.key]
    out = set()
    for parent, kind, cond, line in f.ctl:
        if kind in ('for', 'while', 'do') and cond is not None and not isinstance(cond[0], list):
            for y in subexprs(strip(cond)):
                if y[0] == 'b' and y[1] in ('<', '<=', '>', '>=', '!='):
                    l = strip(y[2])
                    if l and l[0] == 'v' and l[2] == 'l':
                        out.add(l[1])
    _lc[f.key] = out
    return out


def is_loop_cond(f, bid):
    b = f.blocks[bid]
    c = b.get('fullcond')
    if c is None:
        return False
    cs = pstr(strip(c))
    for parent, kind, cond, line in f.ctl:
        if kind in ('for', 'while', 'do') and cond is not None and not isinstance(cond[0], list) and pstr(strip(cond)) == cs:
            return True
    return False


# ---------------- SCRATCH: the processes of one stage are interchangeable only if the per-thread context carries nothing from one work
# item to the next.  Where a kernel zero-fills an array of its context at the start of a work item and reads it later in the same
# function, the zero-fill must cover every element the reads can touch: per subscript position, either the fill runs over the
# declared extent (constant bound >= dimension) or its bound is the read's bound.  A fill demonstrably narrower than a read of the
# same function (`i < X` against `i <= X`, or a guard the read does not have on the same bound expression) leaves elements
# holding whatever the previous work item of *that thread* left there: the result then depends on which thread got which item.
# Only the demonstrably narrower case is reported; bounds that cannot be compared are listed as information.
def _idx_chain(t):
    idx = []
    t = strip(t)
    while t is not None and t[0] == 'i':
        idx.append(strip(t[2]))
        t = strip(t[1])
    if t is not None and t[0] == 'm':
        return t, list(reversed(idx))
    return None, None


def _conj(c):
    c = strip(c)
    if c is not None and c[0] == 'b' and c[1] == '&&':
        return _conj(c[2]) + _conj(c[3])
    return [c]


def _upper(f, ev, var):
    """upper bounds on local `var` at ev from enclosing loops and guards: [(strict?, bound expr string, is guard)]"""
    out = []
    for kind, cond, line in f.ctl_chain(ev):
        if cond is None or kind not in ('for', 'while', 'if'):
            continue
        for c in _conj(cond):
            if c is None or c[0] != 'b' or c[1] not in ('<', '<='):
                continue
            l, r = strip(c[2]), strip(c[3])
            if l is not None and l[0] == 'v' and l[1] == var:
                out.append((c[1] == '<', pstr(r), kind == 'if', r))
    return out


def run_scratch(P, rep, C):
    ninst = 0
    for f in P.fns:
        if f.lib != 'Encoder' or f.nocfg or f not in C.runtime:
            continue
        fills = {}
        for ev in f.events(('st', 'call')):
            e = ev['e']
            tgt = None
            if ev['k'] == 'st' and e[0] == 'a' and e[1] == '=':
                r = strip(e[3])
                if r is not None and r[0] == 'l' and r[1] == 0:
                    tgt = e[2]
            elif ev['k'] == 'call' and callee_name(e) == 'memset' and len(e[2]) >= 2:
                v = strip(e[2][1])
                if v is not None and v[0] == 'l' and v[1] == 0:
                    tgt = e[2][0]
            if tgt is None:
                continue
            m, idx = _idx_chain(tgt)
            if m is None or not idx or not m[1].split('.')[0].endswith('Context'):
                continue
            if not all(i is not None and i[0] == 'v' and i[2] == 'l' for i in idx):
                continue
            if not any(k == 'for' for k, c, l in f.ctl_chain(ev)):
                continue
            fills.setdefault(m[1], []).append((ev, idx))
        for fld, fl in fills.items():
            dims = None
            rec = P.record(fld.split('.')[0])
            for fd in (rec or {}).get('fields', ()):
                if fd['n'] == fld.split('.')[1]:
                    import re as _re
                    dims = [int(x) for x in _re.findall(r'\[(\d+)\]', fd.get('t', ''))]
            reads = []
            fill_evs = {id(ev) for ev, idx in fl}
            for ev in f.events(('st', 'decl', 'call', 'ret')):
                e = ev.get('e')
                if e is None or id(ev) in fill_evs:
                    continue
                srcs = [e] if ev['k'] != 'st' or e[0] not in ('a',) else [e[3]] + [strip(e[2])[2]] if strip(e[2])[0] == 'i' else [e[3]]
                for src in srcs:
                    if src is None:
                        continue
                    for x in subexprs(src):
                        if x[0] == 'i':
                            m, idx = _idx_chain(x)
                            if m is not None and m[1] == fld and idx and len(idx) >= len(fl[0][1]):
                                reads.append((ev, idx))
            if not reads:
                continue
            for fev, fidx in fl:
                ninst += 1
                probs, notes = [], []
                for d, iv in enumerate(fidx):
                    fb = _upper(f, fev, iv[1])
                    full = [b for b in fb if b[3] is not None and b[3][0] == 'l' and dims and d < len(dims) and (b[3][1] + (0 if b[0] else 1)) >= dims[d]]
                    narrow = [b for b in fb if b not in full]
                    if not narrow:
                        continue
                    for rev, ridx in reads:
                        if d >= len(ridx):
                            continue
                        rv = ridx[d]
                        if rv is None or rv[0] != 'v':
                            continue
                        rb = _upper(f, rev, rv[1])
                        for strict, bs, guard, _b in narrow:
                            same = [b for b in rb if b[1] == bs]
                            if same and all((not b[0]) for b in same) and strict:
                                probs.append('subscript %d is filled for %s < %s but read for %s <= %s (line %d)' % (d, iv[1], bs, rv[1], bs, rev.get('l', 0)))
                            elif not same:
                                notes.append('subscript %d: fill bound %s not comparable with the read at line %d' % (d, bs, rev.get('l', 0)))
                probs = sorted(set(probs))
                rep.ob('C05.SCRATCH', '%s/%s@%s' % (f.name, fld, fev.get('l')), not probs, f.loc(fev),
                       ('zero-fill of %s covers every element the %d reads of %s can touch%s' % (fld.split('.')[1], len(reads), f.name, ('; ' + notes[0]) if notes else '')) if not probs else
                       ('the zero-fill of the per-thread scratch array %s is narrower than a read in the same function: %s; the elements left out keep what the previous work item of the same thread wrote, so the result depends on the distribution of work over threads' % (fld.split('.')[1], '; '.join(probs[:3]))))
    rep.analysed['scratch_fills'] = ninst
    rep.floor('C05.SCRATCH', 1)


# ---------------- PHASE: a kernel iteration that runs phase A and then phase B on the same per-thread context (mode decision, then the
# encode pass) must not let A read a member that only B defines: A then sees what B left there in the *previous* iteration of the same
# thread, i.e. the value belonging to whichever work item that thread happened to process before - which depends on the number of
# threads and on scheduling.  Decided per member of the records reached through per-thread context arrays: defining stores (same-member
# copies do not count) whose target is rooted in the context, classified by call-graph reachability from the two phase entry points.
def _ctx_rooted(P, f, x, depth=0):
    """the object expression x designates storage owned by a per-thread context (a member chain through a *Context record),
    looking through single-assignment locals and, for parameters, through every call site"""
    x = strip(x)
    while x is not None and x[0] in ('k',):
        x = strip(x[-1])
    if x is None or depth > 4:
        return False
    if x[0] == 'u' and x[1] in ('&', '*'):
        return _ctx_rooted(P, f, x[2], depth)
    if x[0] == 'a' and x[1] == '=':
        return _ctx_rooted(P, f, x[3], depth)              # value of a chained assignment  p = ctx->p = &...
    if x[0] == 'i':
        return _ctx_rooted(P, f, x[1], depth)
    if x[0] == 'm':
        if x[1].split('.')[0].endswith('Context') and not x[1].split('.')[0].startswith(('PictureControl', 'EncodeContext', 'SequenceControl')):
            return True
        return _ctx_rooted(P, f, x[3], depth) if len(x) > 3 else False
    if x[0] == 'v':
        pn = [n for n, t in f.params]
        if x[1] in pn:
            idx = pn.index(x[1])
            sites = P.call_sites(f.name)
            return bool(sites) and all(len(cv['e'][2]) > idx and _ctx_rooted(P, cf, cv['e'][2][idx], depth + 1) for cf, cv in sites)
        defs = []
        for d in f.events(('decl', 'st')):
            e = d.get('e')
            if e is None:
                continue
            if d['k'] == 'decl' and d['n'] == x[1]:
                defs.append(strip(e))
            elif d['k'] == 'st' and e[0] == 'a' and e[1] == '=':
                t = strip(e[2])
                if t is not None and t[0] == 'v' and t[1] == x[1]:
                    r = strip(e[3])
                    # chained assignment  a = b = expr
                    while r is not None and r[0] == 'a' and r[1] == '=':
                        r = strip(r[3])
                    defs.append(r)
        return bool(defs) and all(_ctx_rooted(P, f, dd, depth + 1) for dd in defs)
    return False


def run_phase(P, rep, C):
    K = P.fn('mode_decision_kernel')
    A = P.fn('mode_decision_sb')
    B = P.fn('av1_encode_decode')
    if K is None or A is None or B is None:
        raise AnalysisBroken('C05.PHASE: mode_decision_kernel / mode_decision_sb / av1_encode_decode not found')
    ca = [ev for ev, n in K.calls(A.name)]
    cb = [ev for ev, n in K.calls(B.name)]
    if not ca or not cb or not all(a['l'] < b['l'] for a in ca for b in cb):
        raise AnalysisBroken('C05.PHASE: the kernel no longer runs mode decision before the encode pass')
    ra = set(P.reachable_from([A]))
    rb = set(P.reachable_from([B]))
    only_a = {g for g in ra - rb if not g.nocfg}
    only_b = {g for g in rb - ra if not g.nocfg}
    defs_b, defs_a, reads_a = {}, {}, {}
    for g in (ra | rb | {K}):
        if g.nocfg or g.lib != 'Encoder':
            continue
        for ev in g.events(('st', 'decl', 'call', 'ret')):
            e = ev.get('e')
            if e is None:
                continue
            tgt = None
            if ev['k'] == 'st' and e[0] in ('a', 'u'):
                t = strip(e[2])
                if t is not None and t[0] == 'm':
                    tgt = t
                    rr = strip(e[3]) if e[0] == 'a' and e[1] == '=' else None
                    copy = rr is not None and rr[0] == 'm' and rr[1] == t[1]
                    if not copy:
                        if g in only_b:
                            if len(t) > 3 and _ctx_rooted(P, g, t[3]):
                                defs_b.setdefault(t[1], []).append((g, ev))
                        else:
                            defs_a.setdefault(t[1], []).append((g, ev))
            if g in only_a:
                for x in subexprs(e):
                    if x[0] == 'm' and x is not tgt:
                        reads_a.setdefault(x[1], []).append((g, ev))
    n = 0
    for fld, ds in sorted(defs_b.items()):
        n += 1
        other = defs_a.get(fld, [])
        rd = reads_a.get(fld, [])
        bad = bool(rd) and not other
        g0, ev0 = ds[0]
        rep.ob('C05.PHASE', 'encode-pass-defines:%s' % fld, not bad, g0.loc(ev0),
               ('%s is defined in the per-thread context by the encode pass (%s); %s' % (fld.split('.')[1], g0.name, 'mode decision does not read it' if not rd else 'mode decision (or the kernel) defines it too: %s' % other[0][0].name)) if not bad else
               ('%s of the per-thread context is defined only by the encode pass (%s) and read by mode decision (%s): mode decision runs first, so it reads what the encode pass of the previous superblock processed by the same thread left there; which superblock that was depends on the number of threads' %
                (fld.split('.')[1], g0.name, ', '.join(sorted({g.name for g, ev in rd})[:4]))))
    rep.analysed['phase_members'] = n
    rep.floor('C05.PHASE', 10)
