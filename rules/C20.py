"""C20 - disabled coding tools never appear; the requested tiling is used: the user switch reaches every assignment of the
sequence / picture level signal that enables the tool.

  C20.DEP   for every (switch, signal) row of the table below and every store to the signal in live encoder code: the store writes
            the "off" literal, or is control-dependent on a condition that reads the switch, or its value reads the switch -
            directly, through locals all of whose definitions depend on the switch, through another field already proved
            dependent on the switch (least fixpoint over fields: caches such as last_i_picture_sc_detection, first-level signals
            such as seq_header.cdef_level), or because every call site of the enclosing function is itself control-dependent on
            the switch.  A store that fails is a place where a preset / tuning decision overrides what the user asked for.
  C20.OFF   polarity: under the assumption static_config.<switch> == <the value that disables the tool>, conditional constant
            propagation over every function that stores the signal (branches decided by the assumption are pruned, locals and
            cache fields that become constant are followed, functions all of whose call sites are pruned are skipped) shows that
            every store that can still execute writes the off value
  C20.TILESYM the derivation of log2_tile_rows in set_tile_info is the derivation of log2_tile_cols with rows<->cols (helpers
            expanded): each request is limited by the frame-size limit of its own dimension (name-based transposition: the member
            names are the AV1 specification's, min/max_log2_tile_cols/rows)
  C20.ARG   call-argument signals (global motion): the level argument of every set_gm_controls call depends on the switch, and
            set_gm_controls is the only writer of GmControls.enabled
"""
from engine.facts import is_lit, pstr, strip, callee_name, subexprs, fields_in, last_field, root_of, AnalysisBroken
from engine.classes import Classes
from engine.reach import reaching

PID = 'C20'

META = {
    'technique': 'conditional constant propagation under switch = off (per function, with call-site feasibility and cache-field resolution) + dependence analysis (structured control dependence + value dependence, least fixpoint over type-resolved fields, call-site intersection) from each configuration switch to every store of the enabling signal; who-writes check for call-argument signals; the same constant propagation with the enabling signal at its off value proves the search / apply calls of the in-loop filters unreachable (C20.APPLY)',
    'text': 'Decides, for each user-visible tool switch (loop filter, CDEF, restoration, palette / screen content, intra block copy, global motion, warped motion, OBMC, filter intra, inter-intra compound, super-resolution, tile rows / columns), that no assignment of the sequence- or picture-level signal that turns the tool on is made without consulting the switch - on every path and for every preset, because it is a property of every store. For the on/off tools it also decides the polarity: with the switch set to its disabling value every store that can still execute writes the off value (conditional constant propagation under that assumption). The requested tile rows / columns are additionally checked to be limited by the limits of their own dimension (row derivation = transposed column derivation). It does not decide that block-level mode decision honours the picture-level signal nor what the entropy coder finally writes. Also decided for the three in-loop filters: with the enabling signal at its off value every call that searches the filter parameters or applies the filter to the reconstruction is unreachable in pipeline code (a guard that mentions the signal without implying that it is on is reported).',
    'note': 'CONFIG = EbSvtAv1EncConfiguration (scs->static_config); a signal whose stores are all dependent becomes a source for the signals derived from it',
    'ref': 'DESIGN.md section 5 C20',
}

CFG = 'EbSvtAv1EncConfiguration.'
import os
TRACE = bool(os.environ.get('C20_TRACE'))
# switch(es) -> [(signal field, off literal or None)]
TABLE = [
    (('disable_dlf_flag',), [('PictureParentControlSet.loop_filter_mode', 0)]),
    (('cdef_level',), [('SeqHeader.cdef_level', 0), ('PictureParentControlSet.cdef_level', 0)]),
    (('enable_restoration_filtering',), [('SeqHeader.enable_restoration', 0)]),
    (('screen_content_mode',), [('PictureParentControlSet.sc_content_detected', 0), ('FrameHeader.allow_screen_content_tools', 0)]),
    (('palette_level', 'screen_content_mode'), [('PictureParentControlSet.palette_level', 0)]),
    (('intrabc_mode', 'screen_content_mode'), [('FrameHeader.allow_intrabc', 0), ('PictureParentControlSet.ibc_mode', 0)]),
    (('enable_warped_motion',), [('SeqHeader.enable_warped_motion', 0), ('FrameHeader.allow_warped_motion', 0)]),
    (('obmc_level',), [('PictureParentControlSet.pic_obmc_level', 0)]),
    (('filter_intra_level',), [('SeqHeader.filter_intra_level', 0), ('PictureControlSet.pic_filter_intra_level', 0), ('ModeDecisionContext.md_filter_intra_level', 0)]),
    (('inter_intra_compound',), [('SeqHeader.enable_interintra_compound', 0)]),
    (('superres_mode',), [('PictureParentControlSet.frame_superres_enabled', 0), ('SeqHeader.enable_superres', 0)]),
    (('tile_rows',), [('PictureParentControlSet.log2_tile_rows', None), ('Av1Common.log2_tile_rows', None)]),
    (('tile_columns',), [('PictureParentControlSet.log2_tile_cols', None), ('Av1Common.log2_tile_cols', None)]),
]


def value_reads(e):
    """The scalar values an expression reads: the outermost member of every access path (not the members / pointer variables the
    path goes through - they select *which* object, not the value) plus subscript expressions and free-standing variables."""
    e = strip(e)
    if not isinstance(e, list) or not e or not isinstance(e[0], str):
        return
    k = e[0]
    if k == 'm':
        yield e
        b = strip(e[3])
        while b:
            if b[0] == 'i':
                for y in value_reads(b[2]):
                    yield y
                b = strip(b[1])
            elif b[0] == 'm':
                b = strip(b[3])
            elif b[0] == 'u' and b[1] in ('*', '&'):
                b = strip(b[2])
            elif b[0] == 'b' and b[1] in ('+', '-'):
                for y in value_reads(b[3]):
                    yield y
                b = strip(b[2])
            else:
                break
    elif k == 'v':
        yield e
    elif k == 'i':
        for y in value_reads(e[2]):
            yield y
        for y in value_reads(e[1]):
            yield y
    elif k in ('u', 'k'):
        for y in value_reads(e[2]):
            yield y
    elif k in ('b', 'a'):
        for y in value_reads(e[2]):
            yield y
        for y in value_reads(e[3]):
            yield y
    elif k == 'q':
        for z in (e[1], e[2], e[3]):
            for y in value_reads(z):
                yield y
    elif k == 'c':
        for a in e[2]:
            for y in value_reads(a):
                yield y


def run(P, rep, tier):
    C = Classes(P)
    live = [f for f in P.fns if f.lib == 'Encoder' and not f.nocfg and f not in C.dead]
    cfg = P.record('EbSvtAv1EncConfiguration')
    cfg_fields = {x['n'] for x in cfg['fields']}
    stores = {}
    for f in live:
        for ev in f.events(('st',)):
            e = ev['e']
            if e[0] in ('a', 'u'):
                t = strip(e[2])
                if t and t[0] == 'm':
                    stores.setdefault(t[1], []).append((f, ev))
        # memset / struct copies are not tracked: signals are scalar members assigned individually (checked by the floors)
    csites = {}
    for f in live:
        for ev, nm in f.calls():
            if nm:
                csites.setdefault(nm, []).append((f, ev))
    rep.explanation = ('%d (switch -> signal) rows; every store to a signal in %d live encoder functions is one obligation; dependence = '
                       'control (enclosing conditions, call-site intersection), value (locals by reaching definitions, fields by least fixpoint).' %
                       (sum(len(x[1]) for x in TABLE), len(live)))
    rep.analysed = {'switches': sorted({s for sw, _ in TABLE for s in sw}), 'signals': [s for _, sg in TABLE for s, _ in sg]}
    rep.assumptions = ['signals are assigned member by member (no memcpy of the enclosing struct carries a non-zero value in)',
                       'zero-filled objects (EB_NEW / calloc) start with every tool off']

    def make_dep(switches):
        src = {CFG + s for s in switches}
        proved, failed = set(src), set()
        lmemo, cmemo = {}, {}
        selfsig = set()       # the signal under proof: reading it (a refinement such as S = min(S, limit)) is accepted coinductively

        def local_dep(f, name, seen, at=None):
            """every definition of local `name` (reaching `at`, when given) depends on the switch - or reaches `at` only through
            a branch on the switch that lies after it (the override idiom: x = preset; if (cfg.X != DEFAULT) x = cfg.X; use x)"""
            key = (f.key, name, (at['b'], at['x']) if at is not None else None)
            if key in lmemo:
                return lmemo[key]
            if key in seen:
                return False
            seen = seen | {key}
            defs = []
            if at is not None:
                for d in reaching(f).at(at, name):
                    if isinstance(d, tuple):
                        defs.append((None, 'param'))
                    elif d['k'] == 'call':
                        defs.append((d, 'opaque'))
                    elif d['k'] == 'decl':
                        defs.append((d, d.get('e')))
                    else:
                        defs.append((d, d['e'][3] if d['e'][0] == 'a' else None))
            else:
                for ev in f.events(('decl', 'st')):
                    e = ev.get('e')
                    if ev['k'] == 'decl' and ev['n'] == name:
                        defs.append((ev, e))
                    elif ev['k'] == 'st' and e and e[0] in ('a', 'u'):
                        t = strip(e[2])
                        if t and t[0] == 'v' and t[1] == name:
                            defs.append((ev, e[3] if e[0] == 'a' else None))
            if not defs:
                lmemo[key] = False
                return False
            # switch branches dominating the use
            guards = []
            if at is not None:
                for bid in f.reach():
                    c = f.blocks[bid].get('cond')
                    if c is not None and bid != at['b'] and f.block_dominates(bid, at['b']) and expr_dep(f, c, seen):
                        guards.append(bid)

            def one(ev, rhs):
                if isinstance(rhs, str):
                    return False
                if rhs is not None and is_lit(rhs, 0):
                    return None                     # the off literal: neutral
                if ev is not None and ((rhs is not None and expr_dep(f, rhs, seen, ev)) or ctl_dep(f, ev, seen)):
                    return True
                # x++ / x-- (rhs None): a counter depends on the switch when the loop that steps it does (handled by ctl_dep above)
                if ev is not None and any(not (f.block_dominates(g, ev['b']) and ev['b'] != g) for g in guards):
                    return True                     # defined before a dominating branch on the switch
                return False
            res = [one(ev, rhs) for ev, rhs in defs]
            r = all(x is not False for x in res) and any(x is True for x in res)
            lmemo[key] = r
            return r

        def expr_dep(f, e, seen, at=None):
            for x in value_reads(e):
                if x[0] == 'm' and field_dep(x[1], seen):
                    if TRACE:
                        print('   ' * len(seen), 'expr %s dependent via field %s' % (pstr(e)[:50], x[1]))
                    return True
                if x[0] == 'v' and x[2] == 'l' and local_dep(f, x[1], seen, at):
                    if TRACE:
                        print('   ' * len(seen), 'expr %s dependent via local %s in %s' % (pstr(e)[:50], x[1], f.name))
                    return True
            return False

        def ctl_dep(f, ev, seen, depth=0):
            ck = (f.key, ev['b'], ev['x'])
            if ck in cmemo:
                return cmemo[ck]
            cmemo[ck] = False          # cycle guard
            r = _ctl_dep(f, ev, seen, depth)
            cmemo[ck] = r
            return r

        def _ctl_dep(f, ev, seen, depth=0):
            for kind, cond, line in f.ctl_chain(ev):
                if cond is not None and kind in ('if', 'else', 'cond', 'switch', 'case', 'for', 'while') and not isinstance(cond[0], list) and expr_dep(f, cond, seen):
                    return True
            # every call site of f is control-dependent on the switch
            if depth < 2:
                sites = [(g, cev) for g, cev in csites.get(f.name, []) if f in P.resolve(f.name, g)]
                if sites and all(ctl_dep(g, cev, seen, depth + 1) for g, cev in sites):
                    return True
            return False

        def store_dep(f, ev, fld, seen, off=None):
            e = ev['e']
            rhs = e[3] if e[0] == 'a' and e[1] == '=' else None
            if rhs is not None and off is not None and is_lit(rhs, off):
                return True, 'stores the off literal'
            if rhs is not None and strip(rhs)[0] == 'm' and strip(rhs)[1] == fld:
                return True, 'copy of the same signal of another picture'
            if rhs is not None and expr_dep(f, rhs, seen, ev):
                return True, 'value depends on the switch'
            if ctl_dep(f, ev, seen):
                return True, 'control-dependent on the switch'
            return False, 'neither its value nor any enclosing condition (nor every call site of %s) depends on %s' % (f.name, '/'.join(switches))

        def field_dep(fld, seen=frozenset()):
            if fld in proved or fld in selfsig:
                return True
            if fld in failed or ('F', fld) in seen or fld.startswith(CFG):
                return False
            ss = stores.get(fld)
            if not ss:
                return False
            seen = seen | {('F', fld)}
            nz = [(f, ev) for f, ev in ss if not (ev['e'][0] == 'a' and ev['e'][1] == '=' and is_lit(ev['e'][3], 0))]
            if not nz:
                return False
            ok = all(store_dep(f, ev, fld, seen)[0] for f, ev in nz)
            if ok:
                proved.add(fld)
            elif len(seen) == 1:
                failed.add(fld)
            return ok
        def reset(sig=None):
            lmemo.clear(); cmemo.clear(); failed.clear()
            selfsig.clear()
            if sig:
                selfsig.add(sig)
        return store_dep, field_dep, reset

    def infeasible(f, ev):
        """the store sits on a branch of  if (X)  that no execution takes: X is a field whose every live store is a literal of the
        other truth value (re-evaluated on every run: one new store to X makes the branch feasible again)"""
        for kind, cond, line in f.ctl_chain(ev):
            c = strip(cond) if cond is not None and not isinstance(cond[0], list) else None
            if c is None or c[0] != 'm' or kind not in ('if', 'else'):
                continue
            ss = stores.get(c[1], [])
            vals = [strip(e2['e'][3])[1] if e2['e'][0] == 'a' and e2['e'][1] == '=' and is_lit(e2['e'][3]) else None for g, e2 in ss]
            if not vals or any(v is None for v in vals):
                continue
            if kind == 'else' and all(v != 0 for v in vals):
                return 'else-branch of if (%s), and every store to %s writes a non-zero literal (%d stores)' % (pstr(c), c[1], len(vals))
            if kind == 'if' and all(v == 0 for v in vals):
                return 'then-branch of if (%s), and every store to %s writes 0 (%d stores)' % (pstr(c), c[1], len(vals))
        return None

    n = {}
    for switches, sigs in TABLE:
        for s in switches:
            if s not in cfg_fields:
                raise AnalysisBroken('configuration switch %s no longer exists' % s)
        store_dep, field_dep, reset = make_dep(switches)
        for sig, off in sigs:
            ss = stores.get(sig)
            if not ss:
                raise AnalysisBroken('signal %s has no store in live encoder code' % sig)
            # strict pass: which stores are proved without reading the signal itself
            reset(None)
            strict = [store_dep(f, ev, sig, frozenset([('F', sig)]), off) for f, ev in ss]
            based = any(ok and why != 'stores the off literal' for ok, why in strict)
            reset(sig)
            for (f, ev), (sok, swhy) in zip(ss, strict):
                inf = infeasible(f, ev)
                if inf:
                    rep.note('store to %s at %s not enumerated: %s' % (sig, f.loc(ev), inf))
                    continue
                ok, why = (sok, swhy) if sok else store_dep(f, ev, sig, frozenset([('F', sig)]), off)
                if ok and not sok:
                    ok = based
                    why = 'refines the value an earlier store of the same signal derived from the switch' if based else \
                        'only reads the signal itself, and no store of the signal derives it from %s' % '/'.join(switches)
                k = (sig, f.name)
                n[k] = n.get(k, 0) + 1
                rep.ob('C20.DEP', '%s<-%s/%s#%d' % (sig, '+'.join(switches), f.name, n[k]), ok, f.loc(ev),
                       '%s = %s: %s' % (sig.split('.')[1], pstr(strip(ev['e'][3]))[:50] if ev['e'][0] == 'a' else ev['e'][1], why))
            reset(None)
    rep.floor('C20.DEP', 45)

    # ---------------- ARG: global motion
    store_dep, field_dep, reset = make_dep(('enable_global_motion',))
    sites = csites.get('set_gm_controls', [])
    if not sites:
        raise AnalysisBroken('set_gm_controls has no live call site')
    for i, (g, cev) in enumerate(sites):
        a = cev['e'][2][1] if len(cev['e'][2]) > 1 else None
        ok = a is not None and (is_lit(a, 0) or any(True for x in value_reads(a) if (x[0] == 'm' and field_dep(x[1])) or
                                                  (x[0] == 'v' and x[2] == 'l' and _local_dep_gm(P, C, g, x[1], field_dep))))
        rep.ob('C20.ARG', 'set_gm_controls#%d@%s' % (i + 1, g.name), ok, g.loc(cev),
               'global-motion level argument %s %s on enable_global_motion' % (pstr(strip(a))[:40] if a is not None else '?', 'depends' if ok else 'does NOT depend'))
    writers = sorted({f.name for f, ev in stores.get('GmControls.enabled', [])})
    rep.ob('C20.ARG', 'GmControls.enabled/only-writer', writers == ['set_gm_controls'], P.fn('set_gm_controls').loc(),
           'GmControls.enabled is written by %s' % writers)
    rep.floor('C20.ARG', 2)
    run_off(P, rep, C, live, stores, csites)
    run_apply(P, rep, C)
    run_tilesym(P, rep, C, live, stores)


def _local_dep_gm(P, C, f, name, field_dep):
    """local `name`: every non-zero definition reads a dependent field or sits under a condition that does"""
    defs = []
    for ev in f.events(('decl', 'st')):
        e = ev.get('e')
        if ev['k'] == 'decl' and ev['n'] == name:
            defs.append((ev, e))
        elif ev['k'] == 'st' and e and e[0] in ('a', 'u'):
            t = strip(e[2])
            if t and t[0] == 'v' and t[1] == name:
                defs.append((ev, e[3] if e[0] == 'a' else None))
    nz = [(ev, rhs) for ev, rhs in defs if rhs is None or not is_lit(rhs, 0)]
    if not nz:
        return bool(defs)          # only ever the off literal
    for ev, rhs in nz:
        ok = rhs is not None and any(x[0] == 'm' and field_dep(x[1]) for x in value_reads(rhs))
        if not ok:
            for kind, cond, line in f.ctl_chain(ev):
                if cond is not None and not isinstance(cond[0], list) and any(x[0] == 'm' and field_dep(x[1]) for x in value_reads(cond)):
                    ok = True
        if not ok:
            return False
    return True


# ------------------------------------------------------------------------------------------------------------------------
# C20.OFF - the tool really is off when the user says off: conditional constant propagation under the assumption
# `static_config.<switch> == <off value>` over every function that stores the signal; on every path that stays feasible under
# that assumption the stored value must evaluate to the off value.  This decides the polarity that C20.DEP cannot see
# (e.g. `if (cfg.X == 1) s = cfg.X` depends on the switch but leaves the preset's value in place when the user says 0).

OFF_TABLE = [
    ('disable_dlf_flag', 1, [('PictureParentControlSet.loop_filter_mode', 0)]),
    ('cdef_level', 0, [('SeqHeader.cdef_level', 0), ('PictureParentControlSet.cdef_level', 0)]),
    ('enable_restoration_filtering', 0, [('SeqHeader.enable_restoration', 0)]),
    ('palette_level', 0, [('PictureParentControlSet.palette_level', 0), ('ModeDecisionContext.md_palette_level', 0)]),
    ('intrabc_mode', 0, [('FrameHeader.allow_intrabc', 0), ('PictureParentControlSet.ibc_mode', 0)]),
    ('enable_warped_motion', 0, [('SeqHeader.enable_warped_motion', 0), ('FrameHeader.allow_warped_motion', 0)]),
    ('obmc_level', 0, [('PictureParentControlSet.pic_obmc_level', 0), ('ModeDecisionContext.md_pic_obmc_level', 0)]),
    ('filter_intra_level', 0, [('SeqHeader.filter_intra_level', 0), ('PictureControlSet.pic_filter_intra_level', 0), ('ModeDecisionContext.md_filter_intra_level', 0)]),
    ('inter_intra_compound', 0, [('SeqHeader.enable_interintra_compound', 0), ('ModeDecisionContext.md_inter_intra_level', 0)]),
    ('superres_mode', 0, [('PictureParentControlSet.frame_superres_enabled', 0), ('SeqHeader.enable_superres', 0)]),
    ('screen_content_mode', 0, [('PictureParentControlSet.sc_content_detected', 0), ('FrameHeader.allow_screen_content_tools', 0)]),
]

UNK = None


def _ev(e, env, loc):
    """partial evaluation: int or None.  env: field id -> int ; loc: local name -> int"""
    e = strip(e)
    if e is None:
        return UNK
    k = e[0]
    if k == 'l':
        return e[1] if isinstance(e[1], int) else UNK
    if k == 'm':
        return env.get(e[1], UNK)
    if k == 'v':
        return loc.get(e[1], UNK) if e[2] not in ('g', 's') else UNK
    if k == 'u':
        v = _ev(e[2], env, loc)
        if e[1] == '!':
            return UNK if v is UNK else int(not v)
        if e[1] == '-':
            return UNK if v is UNK else -v
        if e[1] == '+':
            return v
        return UNK
    if k == 'b':
        op = e[1]
        a, b = _ev(e[2], env, loc), _ev(e[3], env, loc)
        if op == '&&':
            if a == 0 or b == 0:
                return 0
            return 1 if (a is not UNK and b is not UNK) else UNK
        if op == '||':
            if (a is not UNK and a != 0) or (b is not UNK and b != 0):
                return 1
            return 0 if (a == 0 and b == 0) else UNK
        if a is UNK or b is UNK:
            if op in ('*', '&') and (a == 0 or b == 0):
                return 0
            return UNK
        try:
            return {'==': lambda: int(a == b), '!=': lambda: int(a != b), '<': lambda: int(a < b), '<=': lambda: int(a <= b), '>': lambda: int(a > b),
                    '>=': lambda: int(a >= b), '+': lambda: a + b, '-': lambda: a - b, '*': lambda: a * b, '&': lambda: a & b, '|': lambda: a | b,
                    '>>': lambda: a >> b, '<<': lambda: a << b}[op]()
        except Exception:
            return UNK
    if k == 'c':
        return env.get('call:' + (callee_name(e) or ''), UNK)
    if k == 'q':
        c = _ev(e[1], env, loc)
        if c is UNK:
            x, y = _ev(e[2], env, loc), _ev(e[3], env, loc)
            return x if (x is not UNK and x == y) else UNK
        return _ev(e[2], env, loc) if c else _ev(e[3], env, loc)
    return UNK


def sccp(f, env):
    """conditional constant propagation of locals under env; returns (in-states per feasible block, transfer)"""
    def tr(ev, st):
        e = ev.get('e')
        if ev['k'] == 'decl':
            d = dict(st)
            v = _ev(e, env, d) if e is not None else UNK
            if v is UNK:
                d.pop(ev['n'], None)
            else:
                d[ev['n']] = v
            return tuple(sorted(d.items()))
        if ev['k'] == 'st' and e is not None and e[0] in ('a', 'u'):
            t = strip(e[2])
            if t is not None and t[0] == 'v' and t[2] not in ('g', 's'):
                d = dict(st)
                v = _ev(e[3], env, d) if (e[0] == 'a' and e[1] == '=') else UNK
                if v is UNK:
                    d.pop(t[1], None)
                else:
                    d[t[1]] = v
                return tuple(sorted(d.items()))
        elif ev['k'] == 'call' and e is not None:
            # a local whose address is passed may be overwritten
            d = dict(st)
            ch = False
            for a in e[2]:
                a = strip(a)
                if a and a[0] == 'u' and a[1] == '&' and strip(a[2]) and strip(a[2])[0] == 'v' and strip(a[2])[1] in d:
                    d.pop(strip(a[2])[1]); ch = True
            if ch:
                return tuple(sorted(d.items()))
        return st
    ins = {f.entry: ()}
    work = [f.entry]
    seen_edges = set()
    while work:
        b = work.pop()
        st = ins[b]
        for ev in f.blocks[b]['ev']:
            st = tr(ev, st)
        blk = f.blocks[b]
        succ = blk['succ']
        c = blk.get('cond')
        take = list(range(len(succ)))
        if c is not None and len([s for s in succ if s is not None]) == 2:
            v = _ev(c, env, dict(st))
            if v is not UNK:
                take = [0] if v else [1]
        for i in take:
            s = succ[i]
            if s is None:
                continue
            if s not in ins:
                ins[s] = st
                work.append(s)
            else:
                old = dict(ins[s]); new = dict(st)
                m = tuple(sorted((k, v) for k, v in old.items() if new.get(k, UNK) == v))
                if m != ins[s]:
                    ins[s] = m
                    work.append(s)
    return ins, tr


def run_off(P, rep, C, live, stores, csites):
    memo = {}
    for sw, offv, sigs in OFF_TABLE:
        env = {CFG + sw: offv}
        proved = {}
        cache = {}

        def analysed(f):
            if f.key not in cache:
                cache[f.key] = sccp(f, env)
            return cache[f.key]

        def feasible_fn(f, depth=0):
            """some call site of f is feasible under env (or f has no resolvable call site / is a thread entry)"""
            key = ('feas', f.key)
            if key in cache:
                return cache[key]
            cache[key] = True
            sites = [(g, cev) for g, cev in csites.get(f.name, []) if f in P.resolve(f.name, g)]
            if not sites or depth > 2:
                return True
            r = False
            for g, cev in sites:
                ins, tr = analysed(g)
                if cev['b'] in ins and feasible_fn(g, depth + 1):
                    r = True
                    break
            cache[key] = r
            return r
        def field_const(fld, guess, seen, depth=0):
            """the value every feasible store of `fld` writes under the assumption (fields start zero-filled), or UNK"""
            if fld in env:
                return env[fld]
            if fld in seen:
                return guess                 # coinductive: judged by the other stores
            if depth > 3 or fld.startswith(CFG):
                return UNK
            ss = stores.get(fld, [])
            if not ss or len(ss) > 12:
                return UNK
            vals = set()
            for g, sev in ss:
                ins, tr = analysed(g)
                if sev['b'] not in ins or not feasible_fn(g):
                    continue
                x = sev['e']
                if x[0] != 'a' or x[1] != '=':
                    return UNK
                envx = dict(env)
                for y in value_reads(x[3]):
                    if y[0] == 'm' and y[1] not in envx:
                        fv = field_const(y[1], guess, seen | {fld}, depth + 1)
                        if fv is not UNK:
                            envx[y[1]] = fv
                v = _ev(x[3], envx, dict(g.state_at(ins, tr, sev) or ()))
                if v is UNK:
                    return UNK
                vals.add(v)
            vals.add(0)                      # zero-filled start value
            return vals.pop() if len(vals) == 1 else UNK
        changed = True
        results = {}
        rounds = 0
        while changed and rounds < 4:
            changed = False
            rounds += 1
            cache.clear()
            env = dict({CFG + sw: offv}, **proved)
            for sig, want in sigs:
                res = []
                for f, ev in stores.get(sig, []):
                    ins, tr = analysed(f)
                    if ev['b'] not in ins or not feasible_fn(f):
                        res.append((f, ev, 'infeasible', None))
                        continue
                    st = f.state_at(ins, tr, ev)
                    e = ev['e']
                    v = _ev(e[3], env, dict(st or ())) if (e[0] == 'a' and e[1] == '=') else UNK
                    if v is UNK and e[0] == 'a' and e[1] == '=':
                        # the value may come through other fields (caches, derived signals): resolve those that are
                        # themselves constant under the assumption (every feasible store of theirs evaluates to one value)
                        env2 = dict(env)
                        for x in value_reads(e[3]):
                            if x[0] == 'm' and x[1] not in env2:
                                fv = field_const(x[1], want, frozenset([sig]))
                                if fv is not UNK:
                                    env2[x[1]] = fv
                        v = _ev(e[3], env2, dict(st or ()))
                    # a copy of the same signal from another picture keeps its value
                    if v is UNK and e[0] == 'a' and e[1] == '=' and strip(e[3])[0] == 'm' and strip(e[3])[1] == sig:
                        v = want
                    res.append((f, ev, 'ok' if v == want else 'bad', v))
                results[sig] = res
                if all(r[2] != 'bad' for r in res) and sig not in proved:
                    proved[sig] = want
                    changed = True
        n = {}
        for sig, want in sigs:
            for f, ev, status, v in results.get(sig, []):
                if status == 'infeasible':
                    continue
                k = (sig, f.name)
                n[k] = n.get(k, 0) + 1
                rep.ob('C20.OFF', '%s==%d|%s=%d/%s#%d' % (sig, want, sw, offv, f.name, n[k]), status == 'ok', f.loc(ev),
                       ('with %s = %d this store writes %d' % (sw, offv, want)) if status == 'ok' else
                       ('with %s = %d (tool disabled by the user) this store is reachable and writes %s instead of %d: %s' %
                        (sw, offv, 'a value the switch does not determine' if v is UNK else v, want, pstr(strip(ev['e'][3]))[:60] if ev['e'][0] == 'a' else ev['e'][1])))
    rep.floor('C20.OFF', 25)


def run_tilesym(P, rep, C, live, stores):
    """C20.TILESYM - the requested tile rows and columns are limited by the frame-size limits of their own dimension: the
    stores that derive Av1Common.log2_tile_rows are the stores that derive Av1Common.log2_tile_cols with every member renamed
    rows<->cols (the two configurations are the same algorithm on transposed quantities; helper calls are expanded with their
    arguments substituted).  A row request clamped by the column limit (or vice versa) silently changes the tiling on pictures
    whose two limits differ."""
    import re

    def single_defs(f):
        d = {}
        for ev in f.events(('decl', 'st')):
            e = ev.get('e')
            if ev['k'] == 'decl':
                d.setdefault(ev['n'], []).append(e)
            elif e and e[0] in ('a', 'u'):
                t = strip(e[2])
                if t and t[0] == 'v' and t[2] == 'l':
                    d.setdefault(t[1], []).append(e[3] if e[0] == 'a' and e[1] == '=' else 'step')
        return {k: v[0] for k, v in d.items() if len(v) == 1 and v[0] is not None and v[0] != 'step'}

    def expand(f, e, env=None, depth=0):
        e = strip(e)
        if e is None or depth > 8:
            return '?'
        k = e[0]
        if k == 'l':
            return str(e[1])
        if k == 'v':
            if env and e[1] in env:
                return env[e[1]]
            sd = single_defs(f)
            if e[2] == 'l' and e[1] in sd:
                return expand(f, sd[e[1]], env, depth + 1)
            return e[1]
        if k == 'm':
            return '.' + e[1].split('.', 1)[1]
        if k == 'b':
            return '(%s %s %s)' % (expand(f, e[2], env, depth + 1), e[1], expand(f, e[3], env, depth + 1))
        if k == 'q':
            return '(%s ? %s : %s)' % (expand(f, e[1], env, depth + 1), expand(f, e[2], env, depth + 1), expand(f, e[3], env, depth + 1))
        if k == 'u':
            return e[1] + expand(f, e[2], env, depth + 1)
        if k == 'c':
            n = callee_name(e)
            tg = [g for g in P.resolve(n, f) if not g.nocfg and g.file == f.file] if n else []
            if len(tg) == 1 and depth < 3:
                g = tg[0]
                rets = [ev for ev in g.events(('ret',)) if ev.get('e') is not None]
                if len(rets) == 1 and not any(True for _ in g.events(('st',))):
                    env2 = {pn: expand(f, a, env, depth + 1) for (pn, pt), a in zip(g.params, e[2])}
                    return expand(g, rets[0]['e'], env2, depth + 1)
            return '%s(%s)' % (n or '?', ', '.join(expand(f, a, env, depth + 1) for a in e[2]))
        return pstr(e)

    SW = {'rows': 'cols', 'cols': 'rows', 'row': 'col', 'col': 'row', 'height': 'width', 'width': 'height'}

    def swap(s):
        return re.sub(r'rows|cols|row|col|height|width', lambda m: SW[m.group()], s)
    sti = P.fn('set_tile_info')
    cols = [expand(sti, ev['e'][3]) for ev in sti.events(('st',)) if ev['e'][0] == 'a' and strip(ev['e'][2])[0] == 'm' and strip(ev['e'][2])[1] == 'Av1Common.log2_tile_cols']
    rows = [expand(sti, ev['e'][3]) for ev in sti.events(('st',)) if ev['e'][0] == 'a' and strip(ev['e'][2])[0] == 'm' and strip(ev['e'][2])[1] == 'Av1Common.log2_tile_rows']
    # also through helpers that store the member themselves (same file, one level)
    if not cols or not rows:
        raise AnalysisBroken('set_tile_info no longer stores Av1Common.log2_tile_cols / log2_tile_rows directly')
    want = sorted(swap(c) for c in cols)
    got = sorted(rows)
    rep.ob('C20.TILESYM', 'set_tile_info/rows-mirror-cols', want == got, sti.loc(),
           ('row derivation = column derivation with rows<->cols: %s' % got[-1][:120]) if want == got else
           ('the row derivation is not the transposed column derivation: expected %s, found %s' % (want, got)))
    rep.floor('C20.TILESYM', 1)


# ------------------------------------------------------------------------------------------------------------------------
# C20.APPLY - the enabling signal is honoured where the tool is applied.  OFF shows that the signal carries the off value when the
# user says off; APPLY shows that with the signal at its off value no call that searches the tool's parameters or applies it to the
# reconstruction stays feasible in pipeline code (conditional constant propagation of the calling function under signal == off;
# the call's block must be unreachable).  A guard that mentions the signal but does not imply "signal != off" is reported.
APPLY_TABLE = [
    ('PictureParentControlSet.loop_filter_mode', 0, ('svt_av1_loop_filter_frame', 'svt_av1_pick_filter_level', 'loop_filter_sb')),
    ('PictureParentControlSet.cdef_level', 0, ('svt_av1_cdef_frame', 'av1_cdef_frame16bit', 'finish_cdef_search', 'cdef_seg_search', 'cdef_seg_search16bit')),
    ('SeqHeader.enable_restoration', 0, ('svt_av1_loop_restoration_filter_frame', 'restoration_seg_search', 'rest_finish_search', 'svt_av1_pick_filter_restoration')),
]


def run_apply(P, rep, C):
    n = 0
    for sig, offv, calls in APPLY_TABLE:
        env = {sig: offv}
        for f in P.fns:
            if f.lib != 'Encoder' or f.nocfg or f not in C.runtime:
                continue
            sites = [(ev, nm) for ev, nm in f.calls(calls)]
            if not sites:
                continue
            # only functions in which the signal is visible: a helper that is itself only called under the guard is judged at its caller
            if not any(x[0] == 'm' and x[1] == sig for ev in f.events() if ev.get('e') is not None for x in subexprs(ev['e'])) and \
               not any(c is not None and any(x[0] == 'm' and x[1] == sig for x in subexprs(c)) for par, k, c, l in f.ctl):
                continue
            ins, tr = sccp(f, env)
            for ev, nm in sites:
                n += 1
                ok = ev['b'] not in ins
                guards = [pstr(strip(c))[:110] for k, c, l in f.ctl_chain(ev) if c is not None and k in ('if', 'else') and any(x[0] == 'm' and x[1] == sig for x in subexprs(c))]
                rep.ob('C20.APPLY', '%s/%s@%d' % (f.name, nm, ev['l']), ok, f.loc(ev),
                       ('%s is unreachable in %s when %s == %d' % (nm, f.name, sig.split('.')[1], offv)) if ok else
                       ('%s stays reachable in %s with %s == %d%s: the tool is searched / applied although the configuration switched it off, and the frame header then carries its parameters' %
                        (nm, f.name, sig.split('.')[1], offv, (' (guard: %s)' % guards[0]) if guards else ' (no guard on the signal)')))
    rep.analysed['apply_sites'] = n
    rep.floor('C20.APPLY', 4)
