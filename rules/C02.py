"""C02 - every output packet is one well-formed temporal unit: structure of the OBU writers (not the bytes).

  C02.TD      every packet posted to the output-stream queue by the packetization thread is dominated, for the same buffer,
              by a call that writes a temporal delimiter on every non-error path (encode_tu / encode_show_existing)
  C02.FRAME   OBU framing typestate in every OBU writer: write_obu_header(.., D) is followed on every path by
              write_uleb_obu_size(h, p, D) on the same buffer, with obu_mem_move(h, p, D) (same h, p, D) in between whenever
              the payload can be non-empty; the header announces a size field (literal 1 for obu_has_size_field)
  C02.SPS     a single sequence-header writer (the OBU_SEQUENCE_HEADER type constant is used only by encode_sps_av1), shared
              by the stream-header API and by the key-frame branch of the packetization thread, which emits it before the
              frame header, under the frame_type == KEY_FRAME condition
"""
from engine.facts import pstr, ptext, strip, callee_name, subexprs, last_field, root_of, AnalysisBroken

PID = 'C02'

META = {
    'technique': 'dominance / must-pass-through on the event-CFG of the packetization thread (temporal delimiter before every post), typestate of the OBU writers (header -> memmove -> size with agreeing argument expressions, by dominance and post-dominance), who-may-use check of the sequence-header type constant; interprocedural effect (store-set) analysis of the stream-header API with ownership of the objects created by the call propagated to callee parameters',
    'text': 'Decides the structural part of packet well-formedness on every path: no packet can be posted without a temporal delimiter having been written into that buffer, every OBU writer frames its payload consistently (size field announced, payload shifted by the same amounts the size is written with), and the sequence header has one writer used by both the API and the key-frame path. The contents of the OBUs, exactly-one-shown-frame and EOS placement depend on queue contents at run time and are not decided. The framing clause follows helper functions: the gap opened for the size field (uleb length of X) and the value written into it must be the same X after inlining locals and substituting helper parameters. Also decided: every member the sequence-header writer reads is final before the pipeline starts (no run-time store of a non-zero value) - the condition under which the header is byte-identical each time and to svt_av1_enc_stream_header (4 recorded findings, replayed); and EB_AV1_KEY_PICTURE is reported only under the key-frame predicate. Also decided: svt_av1_enc_stream_header, which the application may call at any time, stores only into objects created by that call or has the effects the in-band header path has itself (no store to session state the packetization path reads); the header serialiser and the entry shared by the API and the key-frame path are identified structurally, and an entry that replays stored bytes is accepted only when the serialiser runs before the pipeline starts. Also decided: for every boundary size the tile size field width announced by write_tile_info holds the stored value tile_size - 1.',
    'note': 'error packets posted by lib_svt_encoder_send_error_exit (p_buffer NULL, size 0) are not stream packets; allocation-failure returns are error exits',
    'ref': 'DESIGN.md section 5 C02',
}

TD_WRITER = 'encode_td_av1'


def error_exit_blocks(f):
    """Blocks that end in an error return (non-zero literal) - removed for must-pass-through."""
    out = set()
    for ev in f.events(('ret',)):
        v = strip(ev['e']) if ev.get('e') is not None else None
        if v is not None and v[0] == 'l' and v[1] != 0 and f.ret == 'EbErrorType':
            out.add(ev['b'])
    return out


def must_pass(f, is_target, _cache={}):
    """Every path from entry to a normal exit passes through an event for which is_target(ev) holds."""
    bad = error_exit_blocks(f)
    tgt = {ev['b'] for ev in f.events(('call',)) if is_target(ev)}
    seen, st = set(), [f.entry]
    while st:
        b = st.pop()
        if b in seen or b in tgt or b in bad:
            continue
        seen.add(b)
        if b == f.exit:
            return False
        st.extend(s for s in f.blocks[b]['succ'] if s is not None)
    return bool(tgt)


def run(P, rep, tier):
    pk = P.fn('packetization_kernel')
    rep.explanation = 'Packetization thread %s; OBU writers = all callers of write_obu_header; sequence-header constant users.' % pk.loc()
    rep.assumptions = ['the output-stream buffers are the EbBufferHeaderType objects of the wrappers posted by packetization_kernel']

    # ---------------- TD writers (transitively: must call encode_td_av1 on every normal path)
    tdw = {TD_WRITER}
    changed = True
    while changed:
        changed = False
        for f in P.fns:
            if f.lib != 'Encoder' or f.nocfg or f.name in tdw:
                continue
            if not any(n in tdw for ev, n in f.calls()):
                continue
            if must_pass(f, lambda ev: callee_name(ev['e']) in tdw):
                tdw.add(f.name)
                changed = True
    rep.analysed = {'td_writers': sorted(tdw)}

    # buffers: local B = (EbBufferHeaderType *) W->object_ptr
    bufof = {}
    for ev in pk.events(('decl', 'st')):
        e = ev.get('e')
        if e is None:
            continue
        if ev['k'] == 'decl':
            name, rhs, typ = ev['n'], e, ev['t']
        elif e[0] == 'a' and e[1] == '=' and strip(e[2])[0] == 'v':
            name, rhs, typ = strip(e[2])[1], e[3], (e[3][1] if e[3] and e[3][0] == 'k' else '')
        else:
            continue
        r = strip(rhs)
        if 'EbBufferHeaderType' in typ and r and r[0] == 'm' and r[1] == 'EbObjectWrapper.object_ptr':
            w = pstr(strip(r[3]))
            bufof.setdefault(w, set()).add(name)
    posts = [(ev, pstr(strip(ev['e'][2][0]))) for ev, n in pk.calls('svt_post_full_object')]
    npost = 0
    for ev, w in posts:
        if w not in bufof:
            continue        # not an output-stream wrapper (rate-control task, picture-manager result ...)
        npost += 1
        bufs = bufof[w]
        doms = []
        for ev2, n2 in pk.calls():
            if n2 in tdw and any(pstr(strip(a)) in bufs for a in ev2['e'][2]) and pk.ev_dominates(ev2, ev):
                doms.append((ev2, n2))
        rep.ob('C02.TD', 'packetization_kernel/post:%s' % w, bool(doms), pk.loc(ev),
               'post of %s (buffer %s) is %sdominated by a temporal-delimiter writer on that buffer%s' %
               (w, sorted(bufs), '' if doms else 'NOT ', (' (%s at %s)' % (doms[0][1], pk.loc(doms[0][0]))) if doms else ''))
    if npost < 2:
        raise AnalysisBroken('only %d output-stream posts found in packetization_kernel' % npost)
    # the TD is written into the packet buffer: its argument derives from that buffer's p_buffer
    for name in sorted(tdw - {TD_WRITER}):
        f = P.fn(name)
        for ev, n in f.calls(TD_WRITER):
            a = strip(ev['e'][2][0])
            ok = False
            if a[0] == 'v':
                for e2 in f.events(('decl', 'st')):
                    e = e2.get('e')
                    if e is None:
                        continue
                    nm = e2['n'] if e2['k'] == 'decl' else (pstr(strip(e[2])) if e[0] == 'a' else None)
                    rhs = e if e2['k'] == 'decl' else (e[3] if e[0] == 'a' and e[1] == '=' else None)
                    if nm == a[1] and rhs is not None and any(x[0] == 'm' and x[1] == 'EbBufferHeaderType.p_buffer' for x in subexprs(rhs)):
                        ok = True
            rep.ob('C02.TD', '%s/td-into-packet-buffer' % name, ok, f.loc(ev), 'temporal delimiter is written to a position derived from the packet\'s p_buffer')
    rep.floor('C02.TD', 4)

    # ---------------- FRAME
    woh = P.fn('write_obu_header')
    lits = [(pstr(strip(ev['e'][2][1])), pstr(strip(ev['e'][2][2]))) for ev, n in woh.calls('svt_aom_wb_write_literal') if len(ev['e'][2]) >= 3]
    ok = len(lits) >= 5 and lits[3] == ('1', '1') and lits[0] == ('0', '1') and lits[1][1] == '4'
    rep.ob('C02.FRAME', 'write_obu_header/has-size-field', ok, woh.loc(),
           'header bits written: %s (forbidden=0, type:4, ext:1, has_size_field=1, reserved)' % lits[:5])
    writers = sorted({f for f in P.fns if f.lib == 'Encoder' for ev, n in f.calls('write_obu_header')}, key=lambda f: f.line)
    if len(writers) < 4:
        raise AnalysisBroken('only %d OBU writers found' % len(writers))

    # --- expression helpers: inline single-definition locals, substitute parameters by actual arguments
    def single_defs(f):
        d = {}
        for ev in f.events(('decl', 'st')):
            e = ev.get('e')
            if ev['k'] == 'decl':
                d.setdefault(ev['n'], []).append(e)
            elif e and e[0] in ('a', 'u'):
                t = strip(e[2])
                if t and t[0] == 'v' and t[2] == 'l':
                    d.setdefault(t[1], []).append(e[3] if e[0] == 'a' and e[1] == '=' else 'step')
        return {k: v[0] for k, v in d.items() if len(v) == 1 and v[0] is not None and v[0] != 'step'}

    def expand(f, e, env=None, depth=0):
        """canonical string of e inside f: casts dropped, single-definition locals inlined, parameters replaced via env"""
        e = strip(e)
        if e is None or depth > 10:
            return '?'
        k = e[0]
        if k == 'l':
            return str(e[1])
        if k == 'v':
            if env is not None and e[1] in env:
                return env[e[1]]
            sd = single_defs(f)
            if e[2] == 'l' and e[1] in sd:
                return expand(f, sd[e[1]], env, depth + 1)
            return e[1]
        if k == 'b':
            return '(%s %s %s)' % (expand(f, e[2], env, depth + 1), e[1], expand(f, e[3], env, depth + 1))
        if k == 'c':
            return '%s(%s)' % (callee_name(e) or '?', ', '.join(expand(f, a, env, depth + 1) for a in e[2]))
        if k == 'u':
            return e[1] + expand(f, e[2], env, depth + 1)
        if k == 'q':
            return '(%s ? %s : %s)' % (expand(f, e[1], env, depth + 1), expand(f, e[2], env, depth + 1), expand(f, e[3], env, depth + 1))
        return pstr(e)

    def summaries(f, env=None, depth=0):
        """(gaps, vals) produced by calling into f: gap = argument of svt_aom_uleb_size_in_bytes in a function that also moves
        memory; val = (payload-size argument, buffer argument) of write_uleb_obu_size.  Follows static helpers of the same file."""
        gaps, vals = [], []
        moves = any(n in ('memmove', 'svt_memmove', 'memcpy') for ev, n in f.calls())
        for ev, n in f.calls():
            if n == 'svt_aom_uleb_size_in_bytes' and moves and f is not P.fn('write_uleb_obu_size'):
                gaps.append((expand(f, ev['e'][2][0], env), ev, f))
            elif n == 'write_uleb_obu_size' and len(ev['e'][2]) >= 3:
                vals.append((expand(f, ev['e'][2][1], env), expand(f, ev['e'][2][2], env), ev, f))
            elif n and depth < 2:
                for g in P.resolve(n, f):
                    if g.file == f.file and not g.nocfg and g.name not in ('write_uleb_obu_size', 'write_obu_header') and g not in writers:
                        if not any(True for _ in g.calls(('svt_aom_uleb_size_in_bytes', 'write_uleb_obu_size'))):
                            continue
                        env2 = {pn: expand(f, a, env) for (pn, pt), a in zip(g.params, ev['e'][2])}
                        g2, v2 = summaries(g, env2, depth + 1)
                        gaps += [(x, ev, f) for x, _, _ in g2]
                        vals += [(x, d, ev, f) for x, d, _, _ in v2]
        return gaps, vals

    for f in writers:
        gaps, vals = summaries(f)
        for hev, n in f.calls('write_obu_header'):
            D = expand(f, hev['e'][2][2])
            key = '%s/obu@%s' % (f.name, ptext(strip(hev['e'][2][0])))
            good = [v for v in vals if v[1] == D and (f.ev_postdominates(v[2], hev) or hev['b'] == v[2]['b'])]
            if not good:
                rep.ob('C02.FRAME', key, False, f.loc(hev), 'write_obu_header(.., %s) is not followed on every path by a size field written on the same buffer '
                       '(write_uleb_obu_size directly or through a helper)' % D)
                continue
            val = good[0]
            if val[0] == '0':
                rep.ob('C02.FRAME', key, True, f.loc(hev), 'empty payload: header followed by size field 0 on the same buffer')
                continue
            okg = [g for g in gaps if f.ev_dominates(hev, g[1]) and (g[1] is val[2] or f.ev_dominates(g[1], val[2]))]
            same = [g for g in okg if g[0] == val[0]]
            # the header size used must come from write_obu_header's result
            hdr_ok = any(e2['k'] == 'st' and e2['e'][0] == 'a' and strip(e2['e'][3]) == strip(hev['e']) for e2 in f.events(('st',))) or \
                any(e2['k'] == 'decl' and e2.get('e') is not None and strip(e2['e']) == strip(hev['e']) for e2 in f.events(('decl',)))
            rep.ob('C02.FRAME', key, bool(same) and hdr_ok, f.loc(hev),
                   ('header -> gap of uleb_size(%s) bytes opened by a memmove -> size field value %s on %s' % (val[0][:60], val[0][:60], D)) if same else
                   ('no payload move between header and size field' if not okg else
                    'the gap opened for the size field is sized for uleb(%s) but the value written is %s: when the two need a different number '
                    'of leb128 bytes the payload is shifted by the wrong amount and the packet stops being a valid OBU sequence' % (okg[0][0][:80], val[0][:80])))
    rep.floor('C02.FRAME', 5)

    # ---------------- SPS
    users = []
    for f in P.fns:
        if f.lib != 'Encoder':
            continue
        for ev in f.events(('call',)):
            for a in ev['e'][2]:
                a0 = strip(a)
                if a0 and a0[0] == 'l' and len(a0) > 2 and a0[2] == 'OBU_SEQUENCE_HEADER':
                    users.append((f, ev))
    wnames = sorted({f.name for f, ev in users})
    rep.ob('C02.SPS', 'single-sequence-header-writer', len(wnames) == 1,
           users[0][0].loc(users[0][1]) if users else 'Source/Lib/Encoder', 'OBU_SEQUENCE_HEADER is written by %s' % wnames)
    if not users:
        raise AnalysisBroken('no function writes OBU_SEQUENCE_HEADER')
    W = users[0][0]
    api = P.fn('svt_av1_enc_stream_header')
    from engine.classes import Classes as _Cl
    _C = _Cl(P)
    wchain = [g for g in P.reachable_from([W]) if g.lib == 'Encoder' and not g.nocfg]
    wstores = set()
    for g in wchain:
        for sv in g.events(('st',)):
            lf0 = last_field(strip(sv['e'][2])) if sv['e'][0] in ('a', 'u') else None
            if lf0 and lf0.split('.')[0] in ('EncodeContext', 'SequenceControlSet', 'EbEncHandle'):
                wstores.add(lf0)

    def _reach_w(f):
        return W in P.reachable_from([f])

    def _reads_stored(f):
        for ev in f.events():
            e = ev.get('e')
            if e is not None and any(x[0] == 'm' and x[1] in wstores for x in subexprs(e)):
                return True
        return False
    # the function both the API and the packetization kernel call to put a sequence header into a buffer: it runs the single
    # serialiser, or replays bytes the serialiser stored in the session -- the latter only when the serialiser runs before the
    # pipeline starts (not from pipeline code and not from an API call the application may make at any time)
    INIT_API = ('svt_av1_enc_init', 'svt_av1_enc_set_parameter', 'svt_av1_enc_init_handle')
    direct_pk = {n for ev, n in pk.calls() if n}
    direct_api = {n for ev, n in api.calls() if n}
    entries = []
    for n in sorted(direct_pk & direct_api):
        g = P.fn(n)
        if g is None or g.nocfg or g.lib != 'Encoder':
            continue
        if _reach_w(g):
            entries.append((g, 'runs'))
        elif _reads_stored(g):
            entries.append((g, 'replays'))
    if not entries:
        rep.ob('C02.SPS', 'stream-header-api-uses-it', False, api.loc(), 'svt_av1_enc_stream_header and packetization_kernel have no common callee that runs %s or replays what it stored' % W.name)
        raise AnalysisBroken('no common sequence-header entry of the API and the packetization kernel')
    ENTRY = entries[0][0].name
    if entries[0][1] == 'replays':
        bad = sorted(a.name for a in P.fns if a.lib == 'Encoder' and not a.nocfg and _reach_w(a) and
                     (a in _C.runtime or (a.name in P.apidecls and a.name not in INIT_API)))
        bad = [b for b in bad if b != W.name and P.fn(b) not in wchain] + ([W.name] if W in _C.runtime else [])
        rep.ob('C02.SPS', 'stream-header-api-uses-it', not bad, api.loc(),
               ('%s replays the bytes %s stored; %s runs only before the pipeline starts' % (ENTRY, W.name, W.name)) if not bad else
               ('%s replays the bytes %s stored in the session, and %s is run again by %s after the pipeline has started: the stored header can change between two key frames' % (ENTRY, W.name, W.name, bad[:4])))
    else:
        rep.ob('C02.SPS', 'stream-header-api-uses-it', True, api.loc(), 'svt_av1_enc_stream_header and packetization_kernel both call %s, which runs %s' % (ENTRY, W.name))
    ks = [ev for ev, n in pk.calls(ENTRY)]
    okk = False
    for ev in ks:
        conds = [pstr(c[1]) for c in pk.ctl_chain(ev) if c[0] == 'if' and c[1] is not None]
        if any('frame_type' in c and '== 0' in c.replace('KEY_FRAME', '0') for c in conds):
            okk = True
    rep.ob('C02.SPS', 'key-frame-branch-uses-it', okk, pk.loc(ks[0]) if ks else pk.loc(),
           'packetization_kernel emits the sequence header under frame_type == KEY_FRAME')
    fh = [ev for ev, n in pk.calls('write_frame_header_av1')]
    if ks and fh:
        # the SPS call's branch joins before the frame header: every path through the SPS call reaches the frame header later
        first = [h for h in fh if pk.ev_postdominates(h, ks[0])]
        rep.ob('C02.SPS', 'sequence-header-before-frame-header', bool(first), pk.loc(ks[0]),
               'the frame header writer post-dominates the sequence header writer (header first, then frame)')
    # API and stream pass the instance's sequence control set
    for f, label in ((api, 'api'), (pk, 'stream')):
        for ev, n in f.calls(ENTRY):
            a = strip(ev['e'][2][1])
            rep.ob('C02.SPS', '%s-passes-scs' % label, a is not None and a[0] == 'v', f.loc(ev), 'sequence control set argument: %s' % pstr(a))
    rep.floor('C02.SPS', 5)

    # ---------------- SPSSTATE: the sequence header is byte-identical each time it is written and equal to what
    # svt_av1_enc_stream_header returns - whenever the application calls it.  The header is one function over the SeqHeader of
    # the sequence control set, so that holds iff every member the writer reads is final when svt_av1_enc_init returns:
    # no pipeline (run-time) code may store to such a member.  Exempt: stores made by the writer chain itself (re-derived at
    # every write, same value each time) and member-to-same-member copies between sequence control sets.
    from engine.classes import Classes
    C = Classes(P)
    sps = P.fn(ENTRY)
    # the writer chain: encode_sps_av1 plus whichever functions call the member-by-member serialiser (a refactoring may move
    # the serialisation out of encode_sps_av1 and leave a copy of the stored bytes there)
    wroots = [sps] + [g for g in P.fns if g.lib == 'Encoder' and not g.nocfg and any(True for _ in g.calls('write_sequence_header'))]
    chain = [g for g in P.reachable_from(wroots) if g.lib == 'Encoder' and not g.nocfg]
    HDR_RECS = ('SeqHeader', 'OrderHintInfo', 'EbColorConfig', 'EbTimingInfo', 'DecoderModelInfo', 'EbAv1OperatingPoint')
    read = set()
    for g in chain:
        for ev in g.events():
            e = ev.get('e')
            if e is not None:
                read |= {x[1] for x in subexprs(e) if x[0] == 'm' and x[1].split('.')[0] in HDR_RECS}
        for b in g.blocks.values():
            c = b.get('fullcond')
            if c is not None:
                read |= {x[1] for x in subexprs(c) if x[0] == 'm' and x[1].split('.')[0] in HDR_RECS}
    if len(read) < 15:
        raise AnalysisBroken('only %d sequence-header members read by the writer chain' % len(read))
    late = {}
    for f in P.fns:
        if f.lib != 'Encoder' or f.nocfg or f not in C.runtime or f in chain:
            continue
        for ev in f.events(('st',)):
            e = ev['e']
            if e[0] not in ('a', 'u'):
                continue
            t = strip(e[2])
            if t[0] != 'm' or t[1] not in read:
                continue
            r = root_of(t)
            if r is not None and r[2] == 'l' and not ev.get('pt') and not any(x[0] == 'm' and x[2] for x in subexprs(t)):
                continue                                 # a local struct variable (scratch copy), not the sequence control set
            if e[0] == 'a' and e[1] == '=' and strip(e[3])[0] == 'm' and strip(e[3])[1] == t[1]:
                continue                                 # same-member copy between sequence control sets
            if e[0] == 'a' and e[1] == '=' and strip(e[3])[0] == 'l' and strip(e[3])[1] == 0:
                continue                                 # the zero-filled start value again: cannot change a header
            late.setdefault((f.name, t[1]), []).append((f, ev))
    byfn = {}
    for (fn, fld), lst in late.items():
        byfn.setdefault(fn, []).append((fld, lst[0]))
    for fld in sorted(read):
        if not any(fl == fld for (fn, fl) in late):
            rep.ob('C02.SPSSTATE', 'member:%s' % fld, True, sps.loc(), 'read by the sequence-header writer; never given a non-zero value by pipeline code')
    for fn, lst in sorted(byfn.items()):
        f, ev = lst[0][1]
        rep.ob('C02.SPSSTATE', 'late-stores@%s' % fn, False, f.loc(ev),
               '%s stores %s after the pipeline has started; the sequence-header writer reads them, so a header written before that point '
               '(svt_av1_enc_stream_header before the first picture, an earlier key frame) differs from one written after it'
               % (fn, ', '.join(sorted(fl.split('.', 1)[1] for fl, _ in lst))))
    rep.floor('C02.SPSSTATE', 15)

    # ---------------- APIEFFECT: svt_av1_enc_stream_header may be called at any time, also while pictures are in flight.  What it
    # writes must stay in objects of its own (its output buffer, its local bit-stream writer) -- apart from the effects the
    # in-band path has itself when it writes a header (the re-derived level / tier members).  A store to a member of a session
    # object that the packetization path reads lets a call from the application change what later key frames carry.
    inband = set(g for g in P.reachable_from([pk]) if g.lib == 'Encoder' and not g.nocfg)
    inread = set()
    for g in inband:
        for ev in g.events():
            e = ev.get('e')
            if e is not None:
                inread |= {x[1] for x in subexprs(e) if x[0] == 'm'}
    from engine.own import alloc_sites as _alloc_sites
    nae = 0
    apichain = [h for h in P.reachable_from([api]) if h.lib == 'Encoder' and not h.nocfg]

    def _own_locals(g, own_params):
        """locals of g that designate objects created by this call of the API: struct-typed locals, locals receiving an
        allocation, parameters to which every call site in the API chain passes such an object, and locals pointing at them"""
        own = {d['n'] for d in g.events(('decl',)) if '*' not in d.get('t', '')}
        own |= {strip(t)[1] for ev, lf, kind, lvl, mac, t in _alloc_sites(g) if strip(t)[0] == 'v'}
        own |= {g.params[i][0] for i in own_params if i < len(g.params)}
        for _ in range(3):
            for d in g.events(('decl', 'st')):
                e = d.get('e')
                if e is None:
                    continue
                if d['k'] == 'decl':
                    n, rhs = d['n'], strip(e)
                elif e[0] == 'a' and e[1] == '=' and strip(e[2])[0] == 'v':
                    n, rhs = strip(e[2])[1], strip(e[3])
                else:
                    continue
                while rhs is not None and rhs[0] == 'k':
                    rhs = strip(rhs[-1])
                if rhs is None:
                    continue
                if rhs[0] == 'c' and callee_name(rhs) in ('malloc', 'calloc'):
                    own.add(n)
                elif rhs[0] == 'u' and rhs[1] == '&':
                    r0 = root_of(strip(rhs[2]))
                    if r0 is not None and r0[2] == 'l' and r0[1] in own:
                        own.add(n)
                elif rhs[0] == 'v' and rhs[2] == 'l' and rhs[1] in own:
                    own.add(n)
        return own

    def _is_own(a, own):
        a = strip(a)
        while a is not None and a[0] == 'k':
            a = strip(a[-1])
        if a is None:
            return False
        if a[0] == 'u' and a[1] == '&':
            a = strip(a[2])
        r0 = root_of(a) if a is not None else None
        return r0 is not None and r0[2] == 'l' and r0[1] in own and not any(x[0] == 'm' and x[2] for x in subexprs(a))
    ownp = {g.name: set() for g in apichain}
    ownl = {}
    for _ in range(4):
        for g in apichain:
            ownl[g.name] = _own_locals(g, ownp[g.name])
        passed = {}
        for g in apichain:
            if g in inband:
                continue
            for cv in g.events(('call',)):
                for h in P.call_targets(g, cv):
                    if h in inband or h not in apichain:
                        continue
                    for ai, a in enumerate(cv['e'][2] or ()):
                        passed.setdefault((h.name, ai), []).append(_is_own(a, ownl[g.name]))
        newp = {g.name: {ai for (hn, ai), v in passed.items() if hn == g.name and all(v)} for g in apichain}
        if newp == ownp:
            break
        ownp = newp
    for g in apichain:
        if g in inband:
            nae += 1
            rep.ob('C02.APIEFFECT', 'shared-with-in-band:%s' % g.name, True, g.loc(), 'also run by the packetization path: same effect as an in-band header write')
            continue
        ownloc = ownl[g.name]
        for ev in g.events(('st',)):
            e = ev['e']
            if e[0] not in ('a', 'u'):
                continue
            t = strip(e[2])
            lf = last_field(t)
            if not lf:
                continue
            r = root_of(t)
            mine = r is not None and r[2] in ('l',) + tuple('p%d' % k for k in range(12)) and r[1] in ownloc
            nae += 1
            ok = mine or lf not in inread
            rep.ob('C02.APIEFFECT', '%s/%s' % (g.name, lf), ok, g.loc(ev),
                   ('%s: %s' % (pstr(t)[:60], 'object created by this call' if mine else 'not read by the packetization path')) if ok else
                   ('%s, reachable from svt_av1_enc_stream_header only (not part of the in-band header path), stores %s (%s), which the packetization path reads: a call made by the application while pictures are in flight changes what the following key frames carry' % (g.name, lf, pstr(t)[:60])))
    rep.floor('C02.APIEFFECT', 10)

    # ---------------- PICTYPE: the packet reports EB_AV1_KEY_PICTURE exactly for key frames.  Whatever selects the key-picture
    # value must be the predicate that makes the frame a key frame (idr_flag / frame_type), not a weaker one (slice type).
    KEY = 3
    npt = 0
    HDR = 'EbBufferHeaderType.'
    scope = [g for g in P.reachable_from([pk]) if g.file == pk.file and not g.nocfg]
    for g in scope:
        for ev in g.events(('st',)):
            e = ev['e']
            if e[0] != 'a' or last_field(strip(e[2])) != HDR + 'pic_type':
                continue
            def key_guards(x, guards):
                x = strip(x)
                if x is None:
                    return []
                if x[0] == 'q':
                    return key_guards(x[2], guards + [x[1]]) + key_guards(x[3], guards + [x[1]])
                if x[0] == 'l' and x[1] == KEY:
                    return [guards]
                return []
            for guards in key_guards(e[3], []):
                npt += 1
                flds = set()
                for c in guards:
                    flds |= {y[1] for y in subexprs(c) if y[0] == 'm'}
                ok = any(fl.endswith('.idr_flag') or fl.endswith('.frame_type') for fl in flds)
                rep.ob('C02.PICTYPE', '%s/key-picture#%d' % (g.name, npt), ok, g.loc(ev),
                       'EB_AV1_KEY_PICTURE is reported under %s' % ([pstr(c)[:50] for c in guards]) +
                       ('' if ok else ': none of these conditions is the key-frame predicate (idr_flag / frame_type), so intra-only frames are reported as key pictures'))
    rep.floor('C02.PICTYPE', 1)

    # ---------------- BYTEWIDTH: the frame header announces how many bytes each tile size field has; the field then stores
    # tile_size - 1.  Whatever the selection chain looks like, for every size the announced width must hold the stored value.  Decided by
    # evaluating the extracted guard chain for boundary sizes (finite evaluation, no execution).
    from rules.C20 import _ev as _pev
    wti = P.fn('write_tile_info', required=False)
    if wti is None or wti.nocfg:
        raise AnalysisBroken('write_tile_info not found')
    sel = []
    for ev in wti.events(('st',)):
        e = ev['e']
        if e[0] == 'a' and e[1] == '=' and (last_field(strip(e[2])) or '').endswith('.tile_size_bytes_minus_1') and strip(e[3]) is not None and strip(e[3])[0] == 'l':
            conds = [(k, c) for k, c, l in wti.ctl_chain(ev) if k in ('if', 'else') and c is not None]
            sel.append((ev, strip(e[3])[1], conds))
    guarded = [x for x in sel if x[2]]
    if len(guarded) < 3:
        raise AnalysisBroken('tile size width selection not found in write_tile_info (%d guarded stores)' % len(guarded))
    # locals derived from the size (single definition) are evaluated from their initialiser
    derived = {}
    for dv in wti.events(('decl',)):
        if dv.get('e') is not None and any(x[0] == 'v' and x[1] == 'max_tile_size' for x in subexprs(dv['e'])):
            derived[dv['n']] = dv['e']
    bad = []
    evaluated = 0
    samples = [1, 255, 256, 257, 65535, 65536, 65537, 0xFFFFF, 0x100000, 0x100001, 0xFFFFFF, 0x1000000, 0x1000001, 0x7FFFFFFF]
    for v in samples:
        loc = {'max_tile_size': v}
        for n0, e0 in derived.items():
            x0 = _pev(e0, {}, dict(loc))
            if x0 is not None:
                loc[n0] = x0
        chosen = None
        for ev, kval, conds in guarded:
            ok = True
            for kind, c in conds:
                r = _pev(c, {}, dict(loc))
                if r is None:
                    if any(x[0] == 'v' and x[1] in loc for x in subexprs(c)):
                        ok = None            # depends on the size in a way that is not evaluable: leave this sample alone
                        break
                    continue                 # a guard that does not concern the size (more than one tile, ...): assumed to hold
                if (kind == 'if' and not r) or (kind == 'else' and r):
                    ok = False
                    break
            if ok:
                chosen = kval
                break
        if chosen is None:
            continue
        evaluated += 1
        if v - 1 >= 256 ** (chosen + 1):
            bad.append('a largest tile of %d bytes gets a %d-byte field (stores up to %d)' % (v, chosen + 1, 256 ** (chosen + 1) - 1))
    if evaluated < len(samples) - 2:
        # a selection chain the evaluator cannot follow decides nothing: never a silent pass
        raise AnalysisBroken('tile size width selection in write_tile_info could be evaluated for %d of %d boundary sizes only' % (evaluated, len(samples)))
    rep.ob('C02.BYTEWIDTH', 'write_tile_info/tile_size_bytes', not bad, wti.loc(guarded[0][0]),
           ('the announced tile size field holds tile_size - 1 for every one of %d boundary sizes' % evaluated) if not bad else
           ('the tile size field width chosen in write_tile_info is too narrow: %s; only the low bytes of the size are stored and a decoder splits the tile data at the wrong offset' % '; '.join(bad[:3])))
    rep.floor('C02.BYTEWIDTH', 1)
