"""C02 - every output packet is one well-formed temporal unit: structure of the OBU writers (not the bytes).

  C02.TD      every packet posted to the output-stream queue by the packetization thread is dominated, for the same buffer,
              by a call that writes a temporal delimiter on every non-error path (encode_tu / encode_show_existing)
  C02.FRAME   OBU framing typestate in every OBU writer: write_obu_header(.., D) is followed on every path by
              write_uleb_obu_size(h, p, D) on the same buffer, with obu_mem_move(h, p, D) (same h, p, D) in between whenever
              the payload can be non-empty; the header announces a size field (literal 1 for obu_has_size_field)
  C02.SPS     a single sequence-header writer (the OBU_SEQUENCE_HEADER type constant is used only by encode_sps_av1), shared
              by the stream-header API and by the key-frame branch of the packetization thread, which emits it before the
              frame header, under the frame_type == KEY_FRAME condition
"""
from engine.facts import pstr, ptext, strip, callee_name, subexprs, last_field, root_of, AnalysisBroken

PID = 'C02'

META = {
    'technique': 'dominance / must-pass-through on the event-CFG of the packetization thread (temporal delimiter before every post), typestate of the OBU writers (header -> memmove -> size with agreeing argument expressions, by dominance and post-dominance), who-may-use check of the sequence-header type constant',
    'text': 'Decides the structural part of packet well-formedness on every path: no packet can be posted without a temporal delimiter having been written into that buffer, every OBU writer frames its payload consistently (size field announced, payload shifted by the same amounts the size is written with), and the sequence header has one writer used by both the API and the key-frame path. The contents of the OBUs, exactly-one-shown-frame and EOS placement depend on queue contents at run time and are not decided.',
    'note': 'error packets posted by lib_svt_encoder_send_error_exit (p_buffer NULL, size 0) are not stream packets; allocation-failure returns are error exits',
    'ref': 'DESIGN.md section 5 C02',
}

TD_WRITER = 'encode_td_av1'


def error_exit_blocks(f):
    """Blocks that end in an error return (non-zero literal) - removed for must-pass-through."""
    out = set()
    for ev in f.events(('ret',)):
        v = strip(ev['e']) if ev.get('e') is not None else None
        if v is not None and v[0] == 'l' and v[1] != 0 and f.ret == 'EbErrorType':
            out.add(ev['b'])
    return out


def must_pass(f, is_target, _cache={}):
    """Every path from entry to a normal exit passes through an event for which is_target(ev) holds."""
    bad = error_exit_blocks(f)
    tgt = {ev['b'] for ev in f.events(('call',)) if is_target(ev)}
    seen, st = set(), [f.entry]
    while st:
        b = st.pop()
        if b in seen or b in tgt or b in bad:
            continue
        seen.add(b)
        if b == f.exit:
            return False
        st.extend(s for s in f.blocks[b]['succ'] if s is not None)
    return bool(tgt)


def run(P, rep, tier):
    pk = P.fn('packetization_kernel')
    rep.explanation = 'Packetization thread %s; OBU writers = all callers of write_obu_header; sequence-header constant users.' % pk.loc()
    rep.assumptions = ['the output-stream buffers are the EbBufferHeaderType objects of the wrappers posted by packetization_kernel']

    # ---------------- TD writers (transitively: must call encode_td_av1 on every normal path)
    tdw = {TD_WRITER}
    changed = True
    while changed:
        changed = False
        for f in P.fns:
            if f.lib != 'Encoder' or f.nocfg or f.name in tdw:
                continue
            if not any(n in tdw for ev, n in f.calls()):
                continue
            if must_pass(f, lambda ev: callee_name(ev['e']) in tdw):
                tdw.add(f.name)
                changed = True
    rep.analysed = {'td_writers': sorted(tdw)}

    # buffers: local B = (EbBufferHeaderType *) W->object_ptr
    bufof = {}
    for ev in pk.events(('decl', 'st')):
        e = ev.get('e')
        if e is None:
            continue
        if ev['k'] == 'decl':
            name, rhs, typ = ev['n'], e, ev['t']
        elif e[0] == 'a' and e[1] == '=' and strip(e[2])[0] == 'v':
            name, rhs, typ = strip(e[2])[1], e[3], (e[3][1] if e[3] and e[3][0] == 'k' else '')
        else:
            continue
        r = strip(rhs)
        if 'EbBufferHeaderType' in typ and r and r[0] == 'm' and r[1] == 'EbObjectWrapper.object_ptr':
            w = pstr(strip(r[3]))
            bufof.setdefault(w, set()).add(name)
    posts = [(ev, pstr(strip(ev['e'][2][0]))) for ev, n in pk.calls('svt_post_full_object')]
    npost = 0
    for ev, w in posts:
        if w not in bufof:
            continue        # not an output-stream wrapper (rate-control task, picture-manager result ...)
        npost += 1
        bufs = bufof[w]
        doms = []
        for ev2, n2 in pk.calls():
            if n2 in tdw and any(pstr(strip(a)) in bufs for a in ev2['e'][2]) and pk.ev_dominates(ev2, ev):
                doms.append((ev2, n2))
        rep.ob('C02.TD', 'packetization_kernel/post:%s' % w, bool(doms), pk.loc(ev),
               'post of %s (buffer %s) is %sdominated by a temporal-delimiter writer on that buffer%s' %
               (w, sorted(bufs), '' if doms else 'NOT ', (' (%s at %s)' % (doms[0][1], pk.loc(doms[0][0]))) if doms else ''))
    if npost < 2:
        raise AnalysisBroken('only %d output-stream posts found in packetization_kernel' % npost)
    # the TD is written into the packet buffer: its argument derives from that buffer's p_buffer
    for name in sorted(tdw - {TD_WRITER}):
        f = P.fn(name)
        for ev, n in f.calls(TD_WRITER):
            a = strip(ev['e'][2][0])
            ok = False
            if a[0] == 'v':
                for e2 in f.events(('decl', 'st')):
                    e = e2.get('e')
                    if e is None:
                        continue
                    nm = e2['n'] if e2['k'] == 'decl' else (pstr(strip(e[2])) if e[0] == 'a' else None)
                    rhs = e if e2['k'] == 'decl' else (e[3] if e[0] == 'a' and e[1] == '=' else None)
                    if nm == a[1] and rhs is not None and any(x[0] == 'm' and x[1] == 'EbBufferHeaderType.p_buffer' for x in subexprs(rhs)):
                        ok = True
            rep.ob('C02.TD', '%s/td-into-packet-buffer' % name, ok, f.loc(ev), 'temporal delimiter is written to a position derived from the packet\'s p_buffer')
    rep.floor('C02.TD', 4)

    # ---------------- FRAME
    woh = P.fn('write_obu_header')
    lits = [(pstr(strip(ev['e'][2][1])), pstr(strip(ev['e'][2][2]))) for ev, n in woh.calls('svt_aom_wb_write_literal') if len(ev['e'][2]) >= 3]
    ok = len(lits) >= 5 and lits[3] == ('1', '1') and lits[0] == ('0', '1') and lits[1][1] == '4'
    rep.ob('C02.FRAME', 'write_obu_header/has-size-field', ok, woh.loc(),
           'header bits written: %s (forbidden=0, type:4, ext:1, has_size_field=1, reserved)' % lits[:5])
    writers = sorted({f for f in P.fns if f.lib == 'Encoder' for ev, n in f.calls('write_obu_header')}, key=lambda f: f.line)
    if len(writers) < 4:
        raise AnalysisBroken('only %d OBU writers found' % len(writers))
    for f in writers:
        for hev, n in f.calls('write_obu_header'):
            D = pstr(strip(hev['e'][2][2]))
            sizes = [ev for ev, n2 in f.calls('write_uleb_obu_size') if pstr(strip(ev['e'][2][2])) == D]
            good = [s for s in sizes if f.ev_postdominates(s, hev) or hev['b'] == s['b']]
            key = '%s/obu@%s' % (f.name, ptext(strip(hev['e'][2][0])))
            if not good:
                rep.ob('C02.FRAME', key, False, f.loc(hev), 'write_obu_header(.., %s) is not followed on every path by write_uleb_obu_size(.., .., %s)' % (D, D))
                continue
            s = good[0]
            h, p = pstr(strip(s['e'][2][0])), pstr(strip(s['e'][2][1]))
            if p == '0':
                rep.ob('C02.FRAME', key, True, f.loc(hev), 'empty payload: header followed by size field 0 on the same buffer')
                continue
            moves = [ev for ev, n2 in f.calls('obu_mem_move')
                     if (pstr(strip(ev['e'][2][0])), pstr(strip(ev['e'][2][1])), pstr(strip(ev['e'][2][2]))) == (h, p, D)]
            okm = [m for m in moves if f.ev_dominates(hev, m) and f.ev_dominates(m, s)]
            # the header size used must come from write_obu_header's result
            hdr_ok = any(e2['k'] == 'st' and e2['e'][0] == 'a' and strip(e2['e'][3]) == strip(hev['e']) for e2 in f.events(('st',))) or \
                any(e2['k'] == 'decl' and e2.get('e') is not None and strip(e2['e']) == strip(hev['e']) for e2 in f.events(('decl',)))
            rep.ob('C02.FRAME', key, bool(okm) and hdr_ok, f.loc(hev),
                   'header -> obu_mem_move(%s, %s, %s) -> write_uleb_obu_size(%s, %s, %s)%s' %
                   (h, p, D, h, p, D, '' if okm else ' : NO obu_mem_move with the same (header size, payload size, buffer) between header and size'))
    rep.floor('C02.FRAME', 5)

    # ---------------- SPS
    users = []
    for f in P.fns:
        if f.lib != 'Encoder':
            continue
        for ev in f.events(('call',)):
            for a in ev['e'][2]:
                a0 = strip(a)
                if a0 and a0[0] == 'l' and len(a0) > 2 and a0[2] == 'OBU_SEQUENCE_HEADER':
                    users.append((f, ev))
    rep.ob('C02.SPS', 'single-sequence-header-writer', len({f.name for f, ev in users}) == 1 and users[0][0].name == 'encode_sps_av1',
           users[0][0].loc(users[0][1]) if users else 'Source/Lib/Encoder', 'OBU_SEQUENCE_HEADER is written by %s' % sorted({f.name for f, ev in users}))
    api = P.fn('svt_av1_enc_stream_header')
    rep.ob('C02.SPS', 'stream-header-api-uses-it', any(True for _ in api.calls('encode_sps_av1')), api.loc(), 'svt_av1_enc_stream_header calls encode_sps_av1')
    ks = [ev for ev, n in pk.calls('encode_sps_av1')]
    okk = False
    for ev in ks:
        conds = [pstr(c[1]) for c in pk.ctl_chain(ev) if c[0] == 'if' and c[1] is not None]
        if any('frame_type' in c and '== 0' in c.replace('KEY_FRAME', '0') for c in conds):
            okk = True
    rep.ob('C02.SPS', 'key-frame-branch-uses-it', okk, pk.loc(ks[0]) if ks else pk.loc(),
           'packetization_kernel emits the sequence header under frame_type == KEY_FRAME')
    fh = [ev for ev, n in pk.calls('write_frame_header_av1')]
    if ks and fh:
        # the SPS call's branch joins before the frame header: every path through the SPS call reaches the frame header later
        first = [h for h in fh if pk.ev_postdominates(h, ks[0])]
        rep.ob('C02.SPS', 'sequence-header-before-frame-header', bool(first), pk.loc(ks[0]),
               'the frame header writer post-dominates the sequence header writer (header first, then frame)')
    # API and stream pass the instance's sequence control set
    for f, label in ((api, 'api'), (pk, 'stream')):
        for ev, n in f.calls('encode_sps_av1'):
            a = strip(ev['e'][2][1])
            rep.ob('C02.SPS', '%s-passes-scs' % label, a is not None and a[0] == 'v', f.loc(ev), 'sequence control set argument: %s' % pstr(a))
    rep.floor('C02.SPS', 5)
