"""C16 - allocation / OS-resource failures are reported and unwound cleanly (structure of the init paths).

The property quantifies over the k-th failing allocation; structurally every k is one allocation *site* reached from the
init API, and the object model (EbObject.h) makes the obligations local:

  C16.ERR        the result of every call, made from code reachable from the creation/configuration/init API, to a function
                 that can fail is propagated (returned) or tested; discarded / overwritten-before-read results are violations
  C16.RAWNULL    the result of every raw malloc/calloc in that code is NULL-tested before it is dereferenced
  C16.DCTORFIRST in every constructor the destructor slot is set before the first operation that can fail (otherwise
                 EB_NEW's unwinding releases nothing that was already allocated)
  C16.TEARDOWN   the shutdown signalling in svt_av1_enc_deinit depends only on the handle existing, not on how far init got
  C16.CONTAINER  a structure that the constructor allocates *without zeroing it* (EB_MALLOC / EB_MALLOC_ARRAY ...) and through
                 which the destructor releases or tests sub-members has those sub-members written before the next operation
                 that can fail - otherwise a failure in between makes the unwinding free / branch on uninitialised bytes
  C16.ELEM2D     rows of a two-level allocation (EB_*_2D: pointer array first, block second) are NULL when the second
                 allocation failed: a destructor dereference through a row is dominated by a test of row 0 (or of that row)
  C16.DCTORSAFE  in every destructor, a dereference *through* a pointer member that the constructor allocates is dominated
                 by a NULL test of that member (the release macros test their own argument, not sub-expressions of it)
"""
from engine.facts import is_lit, pstr, strip, callee_name, subexprs, fields_in, last_field, root_of, AnalysisBroken
from engine.own import alloc_sites, ALLOC_KIND
from engine.classes import Classes, ENC_INIT_API, DEC_INIT_API
from engine.nulldom import NullDom

PID = 'C16'

META = {
    'technique': 'can-fail summaries by fixpoint over the resolved call graph + result-use analysis on the event-CFG, NULL-dominance dataflow for raw allocations and for destructor dereferences through constructor-allocated members, dominance of the destructor-slot store over the first failing operation',
    'text': 'Decides, for every allocation/creation site reachable from handle creation, configuration and init (encoder and decoder), the local obligations that make the k-th failure reported and unwound: the error result is not dropped anywhere on the way up, raw allocations are tested, constructors arm their destructor first, destructors tolerate partially constructed objects. Each k of the property is one site of this enumeration, so all k are covered without injecting a fault. Also decided: the unwinding never frees a cell that was not written - element allocations into an array that is not zero-filled either make the array zero-filled, or (when only cell [0] is ever released) store their NULL result before returning.',
    'note': 'operations on existing OS objects (mutex lock/unlock, semaphore post/wait) are outside "creation failure" and exempt from ERR; run-time (pipeline) discards are reported as informational only',
    'ref': 'DESIGN.md section 5 C16',
}

THROW_MACROS = set(ALLOC_KIND) | {'EB_CHECK_MEM', 'EB_ADD_MEM'}
NOT_CREATION = {'svt_block_on_mutex', 'svt_release_mutex', 'svt_post_semaphore', 'svt_block_on_semaphore', 'svt_set_cond_var',
                'svt_wait_cond_var', 'svt_post_full_object', 'svt_get_empty_object', 'svt_get_full_object', 'svt_release_object',
                'svt_get_full_object_non_blocking', 'svt_object_inc_live_count', 'svt_object_release_enable', 'svt_object_release_disable',
                'svt_destroy_thread', 'svt_destroy_mutex', 'svt_destroy_semaphore', 'svt_shutdown_process',
                # teardown calls made on a failure path: the error that is reported is the original one
                'svt_av1_enc_deinit', 'svt_av1_dec_deinit', 'svt_av1_enc_component_de_init', 'svt_dec_component_de_init'}


def can_fail_summaries(P):
    """{Fn: reason} for functions returning an error code that may be non-zero."""
    cand = [f for f in P.fns if not f.nocfg and f.ret in ('EbErrorType', 'int', 'int32_t', 'EbErrorType ') and f.name not in NOT_CREATION]
    cf = {}
    changed = True
    while changed:
        changed = False
        for f in cand:
            if f in cf:
                continue
            why = None
            # locals assigned from can-fail calls
            tainted = set()
            for ev in f.events(('st', 'decl')):
                e = ev.get('e')
                if e is None:
                    continue
                rhs = strip(e[3]) if (ev['k'] == 'st' and e[0] == 'a') else (strip(e) if ev['k'] == 'decl' else None)
                name = pstr(strip(e[2])) if (ev['k'] == 'st' and e[0] == 'a') else ev.get('n')
                if rhs and rhs[0] == 'c':
                    n = callee_name(rhs)
                    if n and any(g in cf for g in P.resolve(n, f)):
                        tainted.add(name)
                elif rhs and rhs[0] == 'l' and rhs[1] != 0 and f.ret == 'EbErrorType':
                    tainted.add(name)
            for ev in f.events(('ret',)):
                v = strip(ev['e']) if ev.get('e') is not None else None
                if v is None:
                    continue
                if v[0] == 'l' and v[1] != 0 and f.ret == 'EbErrorType':
                    why = 'returns %s at %s' % (v[2] if len(v) > 2 else v[1], f.loc(ev))
                elif v[0] == 'c':
                    n = callee_name(v)
                    if n and any(g in cf for g in P.resolve(n, f)):
                        why = 'returns the result of %s' % n
                elif v[0] == 'v' and v[1] in tainted:
                    why = 'returns %s, which may hold an error' % v[1]
                if why:
                    break
            if why:
                cf[f] = why
                changed = True
    return cf


def result_dropped(f, ev, var):
    """After `var = call` (event ev), is there a path on which var is overwritten or the function ends before var is
    read (tested in a condition, returned, passed on)?"""
    start_b, start_x = ev['b'], ev['x']
    seen = set()
    st = [(start_b, start_x + 1)]
    while st:
        b, x = st.pop()
        if (b, x) in seen:
            continue
        seen.add((b, x))
        blk = f.blocks[b]
        consumed = False
        for e2 in blk['ev'][x:]:
            e = e2.get('e')
            if e2['k'] == 'st' and e and e[0] == 'a' and pstr(strip(e[2])) == var:
                if e[1] == '=' and not any(xx[0] == 'v' and xx[1] == var for xx in subexprs(e[3])):
                    return f.loc(e2), 'overwritten before being read'
                consumed = True
                break
            if e is not None and e2['k'] in ('ret', 'call', 'st', 'decl') and any(xx[0] == 'v' and xx[1] == var for xx in subexprs(e)):
                consumed = True
                break
            if e2['k'] == 'ret':
                return f.loc(e2), 'function returns without reading it'
        if consumed:
            continue
        c = blk.get('fullcond')
        if c is not None and any(xx[0] == 'v' and xx[1] == var for xx in subexprs(c)):
            continue
        succ = [s for s in blk['succ'] if s is not None]
        if not succ or b == f.exit:
            return f.loc(), 'end of function reached without reading it'
        for s in succ:
            if s == f.exit:
                return f.loc(), 'end of function reached without reading it'
            st.append((s, 0))
    return None


def run(P, rep, tier):
    C = Classes(P)
    cf = can_fail_summaries(P)
    init_roots = [P.fn(n) for n in ENC_INIT_API + DEC_INIT_API]
    scope = sorted([f for f in C.init if f.lib in ('Encoder', 'Decoder', 'Common') and not f.nocfg and f.name != 'lib_svt_encoder_send_error_exit'],
                   key=lambda f: (f.file, f.line))
    if len(scope) < 150 or len(cf) < 150:
        raise AnalysisBroken('init scope %d functions, can-fail summaries %d' % (len(scope), len(cf)))
    rep.explanation = ('%d functions reachable from the creation/configuration/init API; %d functions summarised as able to return an error '
                       '(fixpoint over the resolved call graph); every call to one of them in scope is one ERR obligation; every raw '
                       'allocation one RAWNULL obligation; every constructor one DCTORFIRST obligation; every destructor x constructor-'
                       'allocated pointer member one DCTORSAFE obligation.' % (len(scope), len(cf)))
    rep.analysed = {'init_scope_functions': len(scope), 'can_fail_functions': len(cf)}
    rep.assumptions = ['failure = a non-EB_ErrorNone return or a NULL allocation result', 'throwing macros are recognised from their expansion (a return under the allocation test)']

    # ---------------- ERR
    nerr = {}
    for f in scope:
        for ev, n in f.calls():
            if n is None or n in NOT_CREATION:
                continue
            tg = [g for g in P.resolve(n, f) if g in cf]
            if not tg:
                continue
            use = ev.get('use')
            nerr[(f.name, n)] = nerr.get((f.name, n), 0) + 1
            key = '%s/call:%s#%d' % (f.name, n, nerr[(f.name, n)])
            bad = None
            if use in ('discard', 'void'):
                bad = 'result discarded'
            elif use in ('assign', 'init'):
                # the variable receiving the result
                var = None
                blk = f.blocks[ev['b']]
                for e2 in blk['ev'][ev['x'] + 1:]:
                    e = e2.get('e')
                    if e2['k'] == 'st' and e and e[0] == 'a' and strip(e[3]) is not None and e[3] is not None and strip(e[3]) == strip(ev['e']):
                        var = pstr(strip(e[2]))
                        aev = e2
                        break
                    if e2['k'] == 'decl' and e is not None and strip(e) == strip(ev['e']):
                        var = e2['n']
                        aev = e2
                        break
                if var:
                    r = result_dropped(f, aev, var)
                    if r:
                        bad = 'result stored in %s but %s (%s)' % (var, r[1], r[0])
            if bad:
                rep.ob('C16.ERR', key, False, f.loc(ev), '%s can fail (%s); %s' % (n, cf[tg[0]], bad))
            else:
                rep.ob('C16.ERR', key, True, f.loc(ev), 'result of %s is %s' % (n, {'ret': 'returned', 'test': 'tested', 'assign': 'stored and read',
                                                                                  'init': 'stored and read'}.get(use, use)))
    rep.floor('C16.ERR', 100)
    # informational: run-time discards
    for f in P.fns:
        if f in C.kernel and f not in C.init and f.lib == 'Encoder':
            for ev, n in f.calls():
                if n and n not in NOT_CREATION and ev.get('use') == 'discard' and any(g in cf for g in P.resolve(n, f)) and \
                        not any(m in THROW_MACROS for m in ev.get('mx', ())):
                    rep.note('run-time discard (outside C16): %s drops the result of %s at %s' % (f.name, n, f.loc(ev)))

    # ---------------- RAWNULL
    nd = NullDom(P)
    for f in scope:
        gen = {}
        for ev in f.events(('st', 'decl')):
            e = ev.get('e')
            if e is None or ev.get('mx'):
                continue
            rhs = strip(e[3]) if (ev['k'] == 'st' and e[0] == 'a') else (strip(e) if ev['k'] == 'decl' else None)
            if rhs and rhs[0] == 'c' and callee_name(rhs) in ('malloc', 'calloc', 'realloc'):
                path = pstr(strip(e[2])) if ev['k'] == 'st' else ev['n']
                gen[id(ev)] = path
        if not gen:
            continue
        viol = nd.analyse(f, [], gen=gen)
        bad = {}
        for ev, p, kind, detail in viol:
            bad.setdefault(p, (ev, detail))
        for evid, path in gen.items():
            ev0 = [e for e in f.events(('st', 'decl')) if id(e) == evid][0]
            key = '%s/raw-alloc:%s' % (f.name, path)
            if path in bad:
                rep.ob('C16.RAWNULL', key, False, f.loc(bad[path][0]), 'raw allocation stored in %s at %s: %s' % (path, f.loc(ev0), bad[path][1]))
            else:
                # never dereferenced here is not enough when the pointer outlives the function: a result stored in a member or
                # handed out must also be *reported* - some branch of the function tests it (or a local copy of it)
                escapes = ev0['k'] == 'st' and strip(ev0['e'][2])[0] != 'v'
                tested = any(f.blocks[b].get('fullcond') is not None and path in pstr(strip(f.blocks[b]['fullcond'])) for b in f.reach())
                if escapes and not tested:
                    rep.ob('C16.RAWNULL', key, False, f.loc(ev0), 'raw allocation stored in %s is never tested in %s: when it fails the function reports success and the failure surfaces later (or never) instead of as an error code of this call' % (path, f.name))
                else:
                    rep.ob('C16.RAWNULL', key, True, f.loc(ev0), 'raw allocation result %s is NULL-tested before use' % path)
    rep.floor('C16.RAWNULL', 6)

    # ---------------- DCTORFIRST / DCTORSAFE
    ctors = {}       # fn -> (store ev, dctor name, record)
    for f in P.fns:
        if f.nocfg or f in C.dead:
            continue
        for ev in f.events(('st',)):
            e = ev['e']
            if e[0] == 'a' and e[1] == '=':
                lf = last_field(strip(e[2]))
                rhs = strip(e[3])
                if lf and lf.endswith('.dctor') and rhs and rhs[0] == 'f':
                    root = root_of(strip(e[2]))
                    if root is not None and root[2].startswith('p'):
                        ctors.setdefault(f, (ev, rhs[1], lf.split('.', 1)[0]))
    if len(ctors) < 40:
        raise AnalysisBroken('only %d constructors found' % len(ctors))
    for f, (dev, dname, rec) in sorted(ctors.items(), key=lambda kv: (kv[0].file, kv[0].line)):
        # failing operations (one per allocation-macro invocation / can-fail call) that may run before the slot is set.
        # One such operation is harmless (nothing is owned yet when it fails: the repository idiom allocates the private
        # context first and arms the destructor right after); a second one leaks the first one's allocation.
        early = {}
        for ev in f.events(('call', 'st', 'ret')):
            failing = None
            tm = [m for m in ev.get('mx', ()) if m in THROW_MACROS]
            if tm:
                failing = ('macro', ev['l'], ev.get('mx')[0])
            elif ev['k'] == 'call':
                n = callee_name(ev['e'])
                if n and n not in NOT_CREATION and any(g in cf for g in P.resolve(n, f)):
                    failing = ('call', ev['l'], n)
            if failing and not f.ev_dominates(dev, ev) and ev is not dev:
                early.setdefault(failing, ev)
        second = sorted(early.items(), key=lambda kv: kv[0][1])[1:] if len(early) > 1 else []
        first_fail = second[0][1] if second else None
        rep.ob('C16.DCTORFIRST', 'ctor:%s' % f.name, first_fail is None, f.loc(first_fail) if first_fail else f.loc(dev),
               ('dctor slot (%s) is set before every failing operation%s' % (dname, ' but the first allocation' if early else '')) if first_fail is None else
               '%d failing operations (%s) can run before the dctor slot is set at %s: a failure of the later one leaks what the earlier one allocated' %
               (len(early), sorted(k[2] + '@' + str(k[1]) for k in early), f.loc(dev)))
    rep.floor('C16.DCTORFIRST', 40)

    # members each constructor allocates (pointer members at top level)
    by_dctor = {}
    elem_by_dctor = {}
    before = {}      # dctor -> {member G: members whose allocation dominates G's allocation in the constructor}
    for f, (dev, dname, rec) in ctors.items():
        flds = set()
        sites = [(ev, lf) for ev, lf, kind, lvl, mac, t in alloc_sites(f) if lf and lvl == 'top']
        for ev, lf in sites:
            flds.add(lf)
        by_dctor.setdefault(dname, set()).update(flds)
        # members whose *elements* the constructor allocates one by one (EB_NEW(obj->arr[i], ...)): a failure in between leaves
        # later elements NULL although the array itself exists
        for ev, lf, kind, lvl, mac, t in alloc_sites(f):
            if lf and lvl == 'elem':
                elem_by_dctor.setdefault(dname, set()).add(lf)
        for evg, g in sites:
            for evf, ff in sites:
                if ff != g and f.ev_dominates(evf, evg):
                    before.setdefault(dname, {}).setdefault(g, set()).add(ff)
    allsites = {}
    for h in P.fns:
        if h.nocfg or h in C.dead or h.lib not in ('Encoder', 'Common', 'Decoder'):
            continue
        for ev, lf, kind, lvl, mac, t in alloc_sites(h):
            if lf and lvl == 'top':
                allsites.setdefault(lf, []).append((h, ev))
    nsafe = 0
    for dname, flds in sorted(by_dctor.items()):
        ds = P.by_name.get(dname, [])
        if not ds or not flds:
            continue
        d = ds[0]
        if d.nocfg:
            continue
        # paths in the destructor that designate those members: <obj>-><member> where obj is the cast of the parameter
        objs = set()
        for ev in d.events(('decl',)):
            e = ev.get('e')
            if e is not None and strip(e) and strip(e)[0] == 'v' and strip(e)[2].startswith('p'):
                objs.add(ev['n'])
        objs.add(d.params[0][0] if d.params else 'p')
        # objects reached through the parameter: `ctx = (Ctx *)thread_context_ptr->priv`
        ch = True
        while ch:
            ch = False
            for ev in d.events(('decl',)):
                e = ev.get('e')
                r = root_of(strip(e)) if e is not None else None
                if r is not None and r[1] in objs and ev['n'] not in objs and strip(e)[0] in ('m', 'v'):
                    objs.add(ev['n']); ch = True
        taint = []
        m2f = {}
        for o in objs:
            for lf in flds:
                p = '%s->%s' % (o, lf.split('.', 1)[1])
                taint.append(p)
                m2f[p] = lf
        # element paths dereferenced in the destructor: obj->arr[K]->...  (the guard must be on the element, not on the array)
        from engine.nulldom import canon as _canon
        for ev in d.events(('dr',)):
            b = strip(ev['e'])
            if b is not None and b[0] == 'i' and strip(b[1]) is not None and strip(b[1])[0] == 'm' and strip(b[1])[1] in elem_by_dctor.get(dname, ()):
                pth = pstr(_canon(b, None))
                if pth not in m2f:
                    taint.append(pth)
                    m2f[pth] = strip(b[1])[1]
        imp = {}
        for o in objs:
            for g, fs in before.get(dname, {}).items():
                imp['%s->%s' % (o, g.split('.', 1)[1])] = {'%s->%s' % (o, x.split('.', 1)[1]) for x in fs}
        # a member G allocated outside the constructor (e.g. by the init API): G != NULL implies F != NULL when every
        # allocation site of G is dominated by a dereference through F (F was already in use when G was created)
        recs = {lf.split('.', 1)[0] for lf in flds}
        for g, gsites in allsites.items():
            if g.split('.', 1)[0] not in recs:
                continue
            for ff in flds:
                if ff == g:
                    continue
                if all(any(last_field(e2['e']) == ff and h.ev_dominates(e2, evg) for e2 in h.events(('dr', 'ix'))) for h, evg in gsites):
                    for o in objs:
                        imp.setdefault('%s->%s' % (o, g.split('.', 1)[1]), set()).add('%s->%s' % (o, ff.split('.', 1)[1]))
        # the same implication for element paths: G != NULL implies that the elements of F exist when every allocation site of G is
        # dominated by a dereference through an element of F (the init code was already working through F[i] when it created G)
        for pth, lf0 in list(m2f.items()):
            if '[' not in pth:
                continue
            for g, gsites in allsites.items():
                if g.split('.', 1)[0] not in recs or g == lf0:
                    continue
                def _elem_deref(h, evg):
                    for e2 in h.events(('dr',)):
                        b2 = strip(e2['e'])
                        if b2 is not None and b2[0] == 'i' and strip(b2[1]) is not None and strip(b2[1])[0] == 'm' and strip(b2[1])[1] == lf0 and h.ev_dominates(e2, evg):
                            return True
                    return False
                if all(_elem_deref(h, evg) for h, evg in gsites):
                    for o in objs:
                        imp.setdefault('%s->%s' % (o, g.split('.', 1)[1]), set()).add(pth)
        viol = nd.analyse(d, taint, implies=imp, follow_members=True)
        badp = {}
        for ev, p, kind, detail in viol:
            if p in m2f:
                badp.setdefault(m2f[p], (ev, kind, detail))
        for lf in sorted(flds):
            used = any(last_field(ev['e']) == lf for ev in d.events(('dr', 'ix')))
            nsafe += 1
            if lf in badp:
                ev, kind, detail = badp[lf]
                rep.ob('C16.DCTORSAFE', '%s/member:%s' % (dname, lf), False, d.loc(ev),
                       'destructor %s: %s - the member is allocated by the constructor and is still NULL when the constructor failed earlier' % (dname, detail))
            else:
                rep.ob('C16.DCTORSAFE', '%s/member:%s' % (dname, lf), True, d.loc(), 'no untested dereference through %s' % lf, nontrivial=used)
    rep.floor('C16.DCTORSAFE', 120)

    # ---------------- TEARDOWN: a session whose init failed half-way is torn down like any other: the shutdown signalling of
    # svt_av1_enc_deinit may depend on the handle existing, not on how far init got (kernels created before the failing step are
    # already running and must be told to quit, or deinit_handle blocks in the join)
    dn = P.fn('svt_av1_enc_deinit')
    nshut = 0
    for ev, n in dn.calls(('svt_shutdown_process',)):
        nshut += 1
        conds = [strip(c) for k, c, l in dn.ctl_chain(ev) if c is not None and k in ('if', 'else')]
        extra = [c for c in conds if any(x[0] == 'm' for x in subexprs(c))]
        res = last_field(strip(ev['e'][2][0])) or pstr(strip(ev['e'][2][0]))
        rep.ob('C16.TEARDOWN', 'svt_av1_enc_deinit/%s' % res.split('.')[-1], not extra, dn.loc(ev),
               ('%s is shut down whenever the handle exists' % res.split('.')[-1]) if not extra else
               ('the shutdown of %s depends on %s: after a failure late in svt_av1_enc_init the kernels that were already started are never told to quit and teardown hangs' % (res.split('.')[-1], pstr(extra[0])[:60])))
    rep.floor('C16.TEARDOWN', 10)

    # ---------------- CONTAINER / ELEM2D
    NONZERO = ('EB_MALLOC', 'EB_MALLOC_ARRAY', 'EB_MALLOC_ALIGNED', 'EB_MALLOC_ALIGNED_ARRAY', 'EB_NO_THROW_MALLOC', 'EB_NO_THROW_MALLOC_ARRAY', 'raw:malloc')
    TWO_D = ('EB_CALLOC_2D', 'EB_MALLOC_2D')
    ncont = n2d = 0
    for f, (dev, dname, rec) in sorted(ctors.items(), key=lambda kv: (kv[0].file, kv[0].line)):
        ds = P.by_name.get(dname, [])
        if not ds or ds[0].nocfg:
            continue
        d = ds[0]
        sites = [(ev, lf, mac) for ev, lf, kind, lvl, mac, t in alloc_sites(f) if lf and lvl == 'top']
        fallible = sorted({ev.get('l', 0) for ev, lf, kind, lvl, mac, t in alloc_sites(f)} |
                          {ev.get('l', 0) for ev, n in f.calls() if n and any(g in cf for g in P.resolve(n, f))})
        for aev, M, mac in sites:
            if mac in NONZERO or mac in ('EB_CALLOC', 'EB_CALLOC_ARRAY', 'EB_CALLOC_ALIGNED_ARRAY', 'EB_NO_THROW_CALLOC', 'EB_NO_THROW_CALLOC_ARRAY', 'raw:calloc'):
                # sub-members the destructor touches through M
                subs = {}
                for ev in d.events():
                    e = ev.get('e')
                    if e is None:
                        continue
                    for x in subexprs(e):
                        if x[0] == 'm' and x[1] != M and any(y[0] == 'm' and y[1] == M for y in subexprs(x[3])):
                            subs.setdefault(x[1], ev)
                if not subs:
                    continue
                if mac not in NONZERO:
                    ncont += 1
                    rep.ob('C16.CONTAINER', '%s/%s' % (f.name, M.split('.', 1)[1]), True, f.loc(aev),
                           '%s is allocated zero-filled (%s): the %d sub-member(s) %s releases through it are NULL until written' % (M.split('.', 1)[1], mac, len(subs), dname))
                    continue
                la = aev.get('l', 0)
                zeroed = [ev for ev, n in f.calls(('memset', 'EB_MEMSET', '__builtin_memset')) if any(y[0] == 'm' and y[1] == M for y in subexprs(ev['e'][2][0])) and ev.get('l', 0) >= la]
                lz = min([ev.get('l', 0) for ev in zeroed], default=None)
                for x, dev2 in sorted(subs.items()):
                    firsts = [ev.get('l', 0) for ev in f.events(('st',)) if ev['e'][0] == 'a' and last_field(strip(ev['e'][2])) == x and
                              any(y[0] == 'm' and y[1] == M for y in subexprs(ev['e'][2])) and ev.get('l', 0) >= la]
                    # an allocation macro storing into the sub-member is itself the first write
                    lx = min(firsts, default=None)
                    if lz is not None and (lx is None or lz < lx):
                        lx = lz
                    between = [l for l in fallible if la < l and (lx is None or l < lx)]
                    ncont += 1
                    ok = not between
                    rep.ob('C16.CONTAINER', '%s/%s->%s' % (f.name, M.split('.', 1)[1], x.split('.', 1)[1]), ok, f.loc(aev),
                           ('%s is not zeroed by %s, and %s is written (line %s) before the next operation that can fail' % (M.split('.', 1)[1], mac, x.split('.', 1)[1], lx)) if ok else
                           ('%s is allocated by %s (not zeroed); %s uses %s->%s (line %s), which is first written at line %s, after %d operation(s) that can fail (first at line %d): if one of them fails the destructor frees or tests uninitialised memory' %
                            (M.split('.', 1)[1], mac, dname, M.split('.', 1)[1], x.split('.', 1)[1], dev2.get('l'), lx, len(between), between[0])))
            if mac in TWO_D:
                # aliases of the member in the destructor
                al = {ev['n'] for ev in d.events(('decl',)) if ev.get('e') is not None and last_field(strip(ev['e'])) == M and strip(ev['e'])[0] == 'm'}
                for ev in d.events():
                    e = ev.get('e')
                    if e is None:
                        continue
                    hit = None
                    for x in subexprs(e):
                        if x[0] == 'm' and x[2]:
                            b = strip(x[3])
                            if b[0] == 'i' and ((strip(b[1])[0] == 'v' and strip(b[1])[1] in al) or last_field(strip(b[1])) == M):
                                hit = b
                                break
                    if hit is None:
                        continue
                    n2d += 1
                    base = pstr(strip(hit[1]))
                    conds = [pstr(strip(c)) for k, c, l in d.ctl_chain(ev) if c is not None and k in ('if', 'for', 'while')]
                    ok = any((base + '[0]') in c or pstr(hit) in c for c in conds)
                    rep.ob('C16.ELEM2D', '%s/%s' % (dname, M.split('.', 1)[1]), ok, d.loc(ev),
                           ('rows of %s are dereferenced only after row 0 was tested' % M.split('.', 1)[1]) if ok else
                           ('%s is a two-level allocation (%s): when its second allocation fails the rows are NULL / unset, and %s dereferences %s-> without testing row 0' % (M.split('.', 1)[1], mac, dname, pstr(hit))))
                    break
    rep.floor('C16.CONTAINER', 3)
    rep.floor('C16.ELEM2D', 1)

    # ---------------- UNDEF: the unwinding must not release a cell that was never written.
    # An element-level allocation  B[k] = alloc  into an array B that the *same* function obtained from a non-zeroing
    # allocator leaves the other cells of B (and B[k] itself, if the allocation macro returns before storing) undefined
    # when it fails.  If the release code frees element cells of that member (EB_FREE_2D frees [0]; EB_*_PTR_ARRAY loop
    # over all cells), then either B is zero-allocated, or - when only the literal cell [0] is ever released - every
    # return that can be reached after B's allocation is preceded by a store to B[0] (the failing allocation macro
    # stores its NULL result into the destination before it returns).
    from engine.own import release_sites
    rel = {}
    for f in P.fns:
        if f.nocfg or f.lib == 'Decoder':
            continue
        for ev, lf, kind, lvl, mac, tgt in release_sites(f):
            if lvl == 'elem' and lf:
                rel.setdefault(lf, []).append((f, mac, strip(strip(tgt)[2])))

    def zeroing(f, ev):
        e = ev['e']
        rhs = strip(e[3])
        if rhs[0] == 'c':
            return callee_name(rhs) == 'calloc'
        for b in f.blocks.values():
            for ev2 in b['ev']:
                if ev2['l'] == ev['l'] and ev2['k'] in ('decl', 'st'):
                    e2 = ev2.get('e')
                    if e2 is None:
                        continue
                    r = strip(e2) if ev2['k'] == 'decl' else (strip(e2[3]) if e2[0] == 'a' else None)
                    if r and r[0] == 'c' and callee_name(r) in ('malloc', 'calloc', 'realloc'):
                        return callee_name(r) == 'calloc'
        return None

    for f in P.fns:
        if f.nocfg or f.lib == 'Decoder' or f in C.dead:
            continue
        sites = alloc_sites(f)
        tops = {pstr(strip(t)): (ev, mac) for ev, lf, kind, lvl, mac, t in sites if lvl == 'top'}
        done = set()
        for ev, lf, kind, lvl, mac, t in sites:
            if lvl != 'elem' or not lf:
                continue
            base = pstr(strip(strip(t)[1]))
            if base not in tops or (base, lf) in done:
                continue
            done.add((base, lf))
            rs = rel.get(lf, [])
            bev, bmac = tops[base]
            z = zeroing(f, bev)
            key = '%s/%s' % (f.name, lf)
            if not rs:
                rep.ob('C16.UNDEF', key, True, f.loc(ev), 'no element-level release of %s anywhere: cells are never read by the unwinding' % lf, nontrivial=False)
                continue
            if z:
                rep.ob('C16.UNDEF', key, True, f.loc(bev), 'array %s is zero-allocated (%s); element cells released by %s' % (base, bmac, sorted({g.name for g, _, _ in rs})))
                continue
            only0 = all(ix is not None and ix[0] == 'l' and ix[1] == 0 for _, _, ix in rs)
            if not only0:
                rep.ob('C16.UNDEF', key, False, f.loc(bev),
                       'array %s comes from the non-zeroing %s, its cells are filled one by one by %s, and %s releases every cell: when the '
                       'i-th element allocation fails the cells after i are uninitialised pointers that the destructor dereferences and frees'
                       % (base, bmac, mac, sorted({g.name for g, _, _ in rs if g is not f})))
                continue
            cell0 = base + '[0]'

            def transfer(e2, st, base=base, cell0=cell0):
                if e2['k'] == 'st' and e2['e'][0] == 'a' and e2['e'][1] == '=':
                    tp = pstr(strip(e2['e'][2]))
                    if tp == base:
                        return frozenset() if is_lit(e2['e'][3], 0) else frozenset(['alloc'])
                    if tp == cell0 and 'alloc' in st:
                        return (st - {'alloc'}) | {'def'}
                return st

            def edge(blk, i, st, base=base):
                c = strip(blk.get('cond'))
                if c is not None and 'alloc' in st:
                    # the branch taken when B itself is NULL: B's own allocation failed, nothing to release
                    if c[0] == 'u' and c[1] == '!' and pstr(strip(c[2])) == base and i == 0:
                        return st - {'alloc'}
                    if c[0] == 'b' and c[1] == '==' and pstr(strip(c[2])) == base and is_lit(c[3], 0) and i == 0:
                        return st - {'alloc'}
                return st
            ins, outs = f.forward(frozenset(), transfer, edge=edge, meet=lambda a, b: a | b)
            bad = []
            for rv in f.events(('ret',)):
                st = f.state_at(ins, transfer, rv)
                if st and 'alloc' in st:
                    bad.append(rv)
            rep.ob('C16.UNDEF', key, not bad, f.loc(bad[0]) if bad else f.loc(bev),
                   ('array %s comes from the non-zeroing %s and only cell [0] is released (%s); every return after its allocation is preceded by a store to %s'
                    % (base, bmac, sorted({g.name for g, _, _ in rs}), cell0)) if not bad else
                   ('a return at line %d can be reached after %s was allocated (non-zeroing %s) and before %s was written: the failing element allocation returns '
                    'without storing its NULL result, so %s frees an uninitialised pointer' % (bad[0]['l'], base, bmac, cell0, sorted({g.name for g, _, _ in rs}))))
    rep.floor('C16.UNDEF', 8)

    # ---------------- PUBLISHED: an SRM object creator hands its object to the wrapper by storing it through its first
    # parameter (*object_dbl_ptr = obj).  From that store on the wrapper owns it: when the creator fails, EB_NEW in
    # svt_system_resource_ctor runs svt_object_wrapper_dctor, which destroys wrapper->object_ptr.  A creator that also
    # releases the published object on its failure path (without un-publishing it) destroys it twice.
    creators = sorted(P._param_targets('svt_system_resource_ctor', 4, set()))
    destroyers = P._param_targets('svt_system_resource_ctor', 6, set())
    if len(creators) < 15:
        raise AnalysisBroken('only %d SRM object creators resolved' % len(creators))
    for cn in creators:
        f = P.fn(cn, required=False)
        if f is None or f.nocfg or not f.params:
            continue
        p0 = f.params[0][0]

        def is_pub_target(t):
            t = strip(t)
            return bool(t) and t[0] == 'u' and t[1] == '*' and strip(t[2]) and strip(t[2])[0] == 'v' and strip(t[2])[1] == p0
        pubs = [ev for ev in f.events(('st',)) if ev['e'][0] == 'a' and ev['e'][1] == '=' and is_pub_target(ev['e'][2]) and not is_lit(ev['e'][3], 0)]
        unpubs = [ev for ev in f.events(('st',)) if ev['e'][0] == 'a' and ev['e'][1] == '=' and is_pub_target(ev['e'][2]) and is_lit(ev['e'][3], 0)]
        bad = None
        for pv in pubs:
            x = pstr(strip(pv['e'][3]))
            for ev in f.events(('call',)):
                n = callee_name(ev['e'])
                args = ev['e'][2]
                if not args or pstr(strip(args[0])) != x:
                    continue
                releasing = n in ('free',) or n in destroyers or (n or '').endswith('_dctor') or (n is None and 'dctor' in pstr(ev['e'][1]))
                if not releasing or not f.ev_dominates(pv, ev):
                    continue
                if any((u['b'] == ev['b'] and u['x'] > ev['x']) or (f.block_dominates(ev['b'], u['b']) and f.ev_postdominates(u, ev)) for u in unpubs):
                    continue
                bad = (ev, n or 'the destructor slot', x)
        rep.ob('C16.PUBLISHED', '%s/published-object' % cn, bad is None, f.loc(bad[0]) if bad else f.loc(),
               ('object published through *%s is released only by its wrapper' % p0) if bad is None else
               ('%s(%s) is called after *%s = %s without un-publishing it: the wrapper destructor that unwinds the failed creator destroys the object a second time'
                % (bad[1], bad[2], p0, bad[2])), nontrivial=bool(pubs))
    rep.floor('C16.PUBLISHED', 15)
