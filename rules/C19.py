"""C19 - intra refresh period and key frames as random-access points: structural clauses.

Placement "at multiples of P+1" and "decoding from a key frame gives the same pictures" are properties of histories and of
decoded values; they are not decided here.  Three necessary conditions are in the shape of the code:

  C19.COUNTER  the period counter protocol is self-consistent: the equality that raises idr_flag / cra_flag and the equality
               that resets EncodeContext.intra_period_position compare the same two things (position vs intra_period_length),
               every other update is "+ 1", the periodic raise is disabled for intra_period_length == -1, and each raise is
               selected by the refresh type it belongs to (IDR_REFRESH -> idr_flag, CRA_REFRESH -> cra_flag)
  C19.KEYTYPE  a picture is coded as KEY_FRAME exactly when it is an IDR: every store of frame_type yields KEY_FRAME only through
               `idr_flag ? KEY_FRAME : INTRA_ONLY_FRAME` for an intra slice
  C19.KEYRPS   a key frame cuts every reference: in av1_generate_rps_info each hierarchical-level branch (siblings) tests
               frame_type == KEY_FRAME before it assigns any reference / refresh index, calls set_key_frame_rps and returns;
               set_key_frame_rps unconditionally shows the frame and rewinds the layer toggles; the user-defined-structure variant
               clears the whole DPB list and shows the frame
"""
from engine.facts import pstr, strip, callee_name, subexprs, last_field, AnalysisBroken

PID = 'C19'

META = {
    'technique': 'sibling agreement of guard expressions (raise vs reset of the period counter; key-frame handling of the six hierarchical-level branches), control-dependence and ordering on the structured control tree, value-shape check of every store to frame_type',
    'text': 'Decides three structural necessary conditions of periodic intra refresh and random access: the period counter is reset under the same equality that raises the IDR/CRA flag and otherwise only incremented by one (so the distance between refreshes is the configured one), KEY_FRAME is coded exactly for IDR pictures, and every branch that builds the reference structure handles a key frame first (no reference index assigned, frame shown, layer toggles rewound, DPB list cleared in the user-structure variant). It does not decide the placement arithmetic relative to mini-GOP boundaries, scene-change interaction, nor the equality of pictures decoded from a cut point (value-level, needs a decoder).',
    'note': 'forced key frames from the application (pic_type) and scene-change CRAs are outside the periodic protocol; COUNTER constrains them only in that nothing but the wrap and the first picture of the stream may rewind the period counter',
    'ref': 'DESIGN.md section 9.10',
}

POS = 'EncodeContext.intra_period_position'
LEN = 'SequenceControlSet.intra_period_length'
IDR = 'PictureParentControlSet.idr_flag'
CRA = 'PictureParentControlSet.cra_flag'
REFRESH = 'SequenceControlSet.intra_refresh_type'
FTYPE = 'FrameHeader.frame_type'
DEFAULT_RESET = {'reset_pcs_av1': 'per-picture reset of the frame header before picture decision; the value is a placeholder (checked: both builders store frame_type on every path)'}


def _assign_chain(e):
    """(lhs, rhs) pairs of a possibly chained assignment a = b = c (each target gets the innermost value)"""
    out = []
    if not e or e[0] != 'a' or e[1] != '=':
        return out
    targets = [e[2]]
    r = strip(e[3])
    while r and r[0] == 'a' and r[1] == '=':
        targets.append(r[2])
        r = strip(r[3])
    return [(t, r) for t in targets]


def eq_pos_len(e):
    """all sub-expressions  position == X  (either side); returns list of pstr(X)"""
    out = []
    for x in subexprs(e):
        if x[0] == 'b' and x[1] == '==':
            a, b = strip(x[2]), strip(x[3])
            if last_field(a) == POS and a[0] == 'm':
                out.append(b)
            elif last_field(b) == POS and b[0] == 'm':
                out.append(a)
    return out



def _expand_locals(f, e, depth=0):
    """expression with single-definition locals replaced by their initialiser"""
    x = strip(e)
    if x is None or depth > 3:
        return x
    if x[0] == 'v' and x[2] == 'l':
        ds = [d for d in f.events(('decl', 'st')) if (d['k'] == 'decl' and d['n'] == x[1] and d.get('e') is not None) or
              (d['k'] == 'st' and d['e'][0] == 'a' and d['e'][1] == '=' and strip(d['e'][2]) == x)]
        if len(ds) == 1:
            return _expand_locals(f, ds[0]['e'] if ds[0]['k'] == 'decl' else ds[0]['e'][3], depth + 1)
        return x
    if x[0] == 'b':
        return [x[0], x[1], _expand_locals(f, x[2], depth), _expand_locals(f, x[3], depth)] + list(x[4:])
    if x[0] == 'q':
        return [x[0], _expand_locals(f, x[1], depth), _expand_locals(f, x[2], depth), _expand_locals(f, x[3], depth)] + list(x[4:])
    if x[0] == 'u':
        return [x[0], x[1], _expand_locals(f, x[2], depth)] + list(x[3:])
    if x[0] == 'k':
        return _expand_locals(f, x[-1], depth)
    return x


def _extra_conjuncts(e):
    """conjuncts standing next to a  position == X  comparison that are neither that comparison nor a test of the refresh type"""
    out = []

    def conj(c):
        c = strip(c)
        if c is not None and c[0] == 'b' and c[1] == '&&':
            return conj(c[2]) + conj(c[3])
        return [c]
    for x in subexprs(e):
        if x[0] == 'b' and x[1] == '&&':
            cs = conj(x)
            if any(eq_pos_len(c) for c in cs if c is not None):
                for c in cs:
                    if c is None or eq_pos_len(c):
                        continue
                    if any(y[0] == 'm' and y[1] == REFRESH for y in subexprs(c)):
                        continue
                    if c not in out:
                        out.append(c)
            break
    return out

def run(P, rep, tier):
    pd = P.fn('picture_decision_kernel')
    rps = P.fn('av1_generate_rps_info')
    rep.explanation = 'period counter protocol in %s; frame_type stores; key-frame handling of the reference-structure builders (%s and the user-structure variant)' % (pd.loc(), rps.loc())
    rep.analysed = {}
    rep.assumptions = ['intra_period_length is the validated configuration value', 'forced key frames and scene changes are outside the periodic protocol']

    # ---------------- COUNTER
    raises, resets = [], []
    extra_of = {}
    for f in P.fns:
        if f.lib != 'Encoder' or f.nocfg:
            continue
        for ev in f.events(('st',)):
            e = ev['e']
            if e[0] not in ('a', 'u'):
                continue
            lf = last_field(strip(e[2]))
            if lf in (IDR, CRA) and e[0] == 'a' and e[1] == '=':
                rhs_x = _expand_locals(f, e[3])
                cmp_ = eq_pos_len(rhs_x)
                if cmp_:
                    raises.append((f, ev, lf, cmp_))
                    extra_of[id(ev)] = _extra_conjuncts(rhs_x)
            if lf == POS:
                resets.append((f, ev))
    if len(raises) < 2 or len(resets) < 2:
        raise AnalysisBroken('period protocol not found: %d raises, %d counter updates' % (len(raises), len(resets)))
    for f, ev, lf, cmp_ in raises:
        ok_len = all(last_field(x) == LEN for x in cmp_)
        # refresh type selects the flag: the store must read intra_refresh_type
        reads_type = any(x[0] == 'm' and x[1] == REFRESH for x in subexprs(ev['e'][3]))
        gated = any(kind in ('if',) and cond is not None and last_field(strip(strip(cond)[2])) == LEN and strip(cond)[0] == 'b' and strip(cond)[1] == '!=' and pstr(strip(strip(cond)[3])) in ('-1', '(-1)')
                    for kind, cond, line in f.ctl_chain(ev) if cond is not None and strip(cond) and strip(cond)[0] == 'b')
        ok = ok_len and reads_type and gated
        # the period comparison may only be combined with tests of the refresh type: any other conjunct (per-picture state) withholds the
        # refresh at a position the configuration promises
        extra = extra_of.get(id(ev), [])
        if ok and extra:
            rep.ob('C19.COUNTER', 'raise:%s@%s' % (lf.split('.')[1], ev.get('l')), False, f.loc(ev),
                   'the periodic raise of %s is additionally conditioned on %s: at a position k*(period+1) where that condition fails no intra refresh is coded' % (lf.split('.')[1], ' and '.join(pstr(x)[:60] for x in extra)))
            continue
        rep.ob('C19.COUNTER', 'raise:%s@%s' % (lf.split('.')[1], ev.get('l')), ok, f.loc(ev),
               ('%s is raised when position == intra_period_length, selected by intra_refresh_type, only when the period is not -1' % lf.split('.')[1]) if ok else
               ('periodic raise of %s: %s' % (lf.split('.')[1], '; '.join(t for t, c in (('compares the position with %s, not with intra_period_length' % [pstr(x)[:40] for x in cmp_], not ok_len),
                                                                                   ('does not consult intra_refresh_type', not reads_type), ('is not disabled for intra_period_length == -1', not gated)) if c))))
    for f, ev in resets:
        e = ev['e']
        if e[0] == 'u':
            ok, why = e[1] in ('x++', '++x'), 'increment'
            rep.ob('C19.COUNTER', 'update@%s' % ev.get('l'), ok, f.loc(ev), 'counter update %s' % pstr(e)[:60])
            continue
        r = strip(e[3])
        if e[1] == '=' and r[0] == 'l':
            ok = r[1] == 0
            # statement form `if (position == X) position = 0;`: X must be the period
            gcmp = [x for kind, cond, line in f.ctl_chain(ev) if cond is not None and kind == 'if' for x in eq_pos_len(cond)]
            ok = ok and all(last_field(x) == LEN for x in gcmp)
            # the cadence k*(period+1) survives only if the counter is rewound at the wrap and at the first picture of the stream: the
            # innermost guard must be one of the two (a rewind under idr_flag lets a key frame forced by the application shift it)
            inner = [strip(cond) for kind, cond, line in f.ctl_chain(ev) if kind == 'if' and cond is not None][:1]
            def _conj(c):
                c = strip(c)
                return _conj(c[2]) + _conj(c[3]) if c is not None and c[0] == 'b' and c[1] == '&&' else [c]

            def _is_first(c):
                if c is None or c[0] == 'u' and c[1] == '!':
                    return c is not None and (last_field(strip(c[2])) or '').endswith('.picture_number')
                return c[0] == 'b' and c[1] == '==' and ((pstr(strip(c[3])) == '0' and (last_field(strip(c[2])) or '').endswith('.picture_number')) or
                                                         (pstr(strip(c[2])) == '0' and (last_field(strip(c[3])) or '').endswith('.picture_number')))
            first_pic = bool(inner) and any(_is_first(c) for c in _conj(inner[0]))
            if ok and inner and not gcmp and not first_pic:
                rep.ob('C19.COUNTER', 'update@%s' % ev.get('l'), False, f.loc(ev),
                       'the period counter is rewound to 0 under %s: only the wrap (position == intra_period_length) and the first picture of the stream may rewind it; under this guard every picture that satisfies it (e.g. a key frame the application forces) restarts the period and the following refreshes leave the positions k*(period+1)' % pstr(inner[0])[:80])
                continue
            rep.ob('C19.COUNTER', 'update@%s' % ev.get('l'), ok, f.loc(ev), 'counter set to the literal %s%s' % (r[1], '' if ok else ' (only a rewind to 0, under position == intra_period_length when conditional, is part of the protocol)'))
            continue
        if (e[1] == '+=' and r[0] == 'l') or (e[1] == '=' and r[0] == 'b' and r[1] == '+' and last_field(strip(r[2])) == POS and strip(r[3])[0] == 'l'):
            step = r[1] if r[0] == 'l' else strip(r[3])[1]
            rep.ob('C19.COUNTER', 'update@%s' % ev.get('l'), step == 1, f.loc(ev), 'counter advances by %s' % step)
            continue
        if e[1] == '=' and r[0] == 'q':
            cmp_ = eq_pos_len(r[1])
            zero = strip(r[2])
            inc = strip(r[3])
            ok_cmp = bool(cmp_) and all(last_field(x) == LEN for x in cmp_)
            ok_zero = zero[0] == 'l' and zero[1] == 0
            ok_inc = inc[0] == 'b' and inc[1] == '+' and last_field(strip(inc[2])) == POS and strip(inc[3])[0] == 'l' and strip(inc[3])[1] == 1
            ok = ok_cmp and ok_zero and ok_inc
            rep.ob('C19.COUNTER', 'update@%s' % ev.get('l'), ok, f.loc(ev),
                   'counter rewinds to 0 when position == intra_period_length (the raise condition) and advances by one otherwise' if ok else
                   'counter update %s does not mirror the raise condition: %s' % (pstr(r)[:90], '; '.join(t for t, c in (
                       ('reset compares with %s' % [pstr(x)[:30] for x in cmp_], not ok_cmp), ('reset value is not 0', not ok_zero), ('step is not position + 1', not ok_inc)) if c)))
            continue
        raise AnalysisBroken('counter update of an unrecognised shape at %s: %s' % (f.loc(ev), pstr(e)[:80]))
    # raises that are periodic without reading the counter (period 0: every picture): they, too, must be selected by the refresh type
    for f in P.fns:
        if f.lib != 'Encoder' or f.nocfg:
            continue
        for ev in f.events(('st',)):
            e = ev['e']
            if e[0] != 'a' or e[1] != '=' or last_field(strip(e[2])) not in (IDR, CRA) or strip(e[3])[0] != 'l' or strip(e[3])[1] == 0:
                continue
            conds = [strip(c) for k, c, l in f.ctl_chain(ev) if c is not None and k in ('if', 'else')]
            on_len = [c for c in conds if any(x[0] == 'm' and x[1] == LEN for x in subexprs(c))]
            if not on_len:
                continue
            lf = last_field(strip(e[2]))
            typed = any(x[0] == 'm' and x[1] == REFRESH for c in conds for x in subexprs(c))
            rep.ob('C19.COUNTER', 'raise:%s@%s/%s' % (lf.split('.')[1], f.name, pstr(on_len[0])[:40]), typed, f.loc(ev),
                   ('%s raised under %s, selected by intra_refresh_type' % (lf.split('.')[1], pstr(on_len[0])[:50])) if typed else
                   ('%s is raised for every picture under %s without consulting intra_refresh_type: with IDR refresh requested the pictures are coded as intra-only frames, not as key frames' % (lf.split('.')[1], pstr(on_len[0])[:50])))
    # the period the protocol compares with is the configured one
    CFG = 'EbSvtAv1EncConfiguration.intra_period_length'
    for f in P.fns:
        if f.lib != 'Encoder' or f.nocfg:
            continue
        for ev in f.events(('st',)):
            for lhs, rhs in _assign_chain(ev['e']):
                if last_field(strip(lhs)) != LEN or strip(lhs)[0] != 'm':
                    continue
                r = strip(rhs)
                from_cfg = r[0] == 'm' and r[1] in (CFG, LEN)
                auto = r[0] == 'c' and callee_name(r) == 'compute_default_intra_period' and any(
                    c is not None and any(x[0] == 'm' and x[1] == CFG for x in subexprs(c)) and '-2' in pstr(strip(c)) for k, c, l in f.ctl_chain(ev))
                ok = from_cfg or auto
                rep.ob('C19.COUNTER', 'period@%s/%s' % (f.name, pstr(r)[:40]), ok, f.loc(ev),
                       ('period taken from the configuration' if from_cfg else 'period -2 (auto) replaced by the documented default') if ok else
                       ('the configured period is replaced by %s under %s: the refresh distance is no longer the configured one (a period of -1 stops meaning "first picture only")' %
                        (pstr(r)[:60], ' && '.join(pstr(strip(c))[:80] for k, c, l in f.ctl_chain(ev) if c is not None)[:160])))
    rep.floor('C19.COUNTER', 8)

    # ---------------- KEYTYPE
    n = 0
    for f in P.fns:
        if f.lib != 'Encoder' or f.nocfg:
            continue
        for ev in f.events(('st',)):
            e = ev['e']
            if e[0] != 'a' or e[1] != '=' or last_field(strip(e[2])) != FTYPE or strip(e[2])[0] != 'm':
                continue
            n += 1
            # every literal 0 (KEY_FRAME) leaf must be the true arm of a ternary on idr_flag
            bad = []

            def walk(x, under_idr):
                x = strip(x)
                if not x:
                    return
                if x[0] == 'l':
                    if x[1] == 0 and not under_idr:
                        bad.append('KEY_FRAME is stored under a condition other than idr_flag alone')
                    return
                if x[0] == 'q':
                    c = strip(x[1])
                    is_idr = (c[0] == 'm' and c[1] == IDR) or (c[0] == 'b' and c[1] in ('==', '!=') and
                                                                 ((strip(c[2])[0] == 'm' and strip(c[2])[1] == IDR and strip(c[3])[0] == 'l' and (strip(c[3])[1] == 1) == (c[1] == '==')) or
                                                                  (strip(c[3])[0] == 'm' and strip(c[3])[1] == IDR and strip(c[2])[0] == 'l' and (strip(c[2])[1] == 1) == (c[1] == '=='))))
                    walk(x[2], is_idr)
                    walk(x[3], False)
                    return
                if x[0] in ('m', 'v'):
                    return            # copy of another header's type
                bad.append('unrecognised shape %s' % pstr(x)[:40])
            walk(e[3], False)
            if bad and f.name in DEFAULT_RESET and strip(e[3])[0] == 'l' and not f.ctl_chain(ev):
                # per-picture default: accepted only while both reference-structure builders overwrite frame_type on every path
                covered = True
                for bn in ('av1_generate_rps_info', 'av1_generate_rps_ref_poc_from_user_config'):
                    b = P.fn(bn)
                    sts = [x for x in b.events(('st',)) if x['e'][0] == 'a' and last_field(strip(x['e'][2])) == FTYPE]
                    kinds = {tuple(k for k, c, l in b.ctl_chain(x)) for x in sts}
                    if not (() in kinds or (('if',) in kinds and ('else',) in kinds)):
                        covered = False
                rep.exempt('C19.KEYTYPE', f.name, DEFAULT_RESET[f.name])
                rep.ob('C19.KEYTYPE', '%s@%s' % (f.name, ev.get('l')), covered, f.loc(ev),
                       'per-picture default, overwritten on every path by both reference-structure builders' if covered else
                       'per-picture default KEY_FRAME is no longer overwritten on every path of the reference-structure builders: a non-IDR picture can be coded as a key frame')
                continue
            rep.ob('C19.KEYTYPE', '%s@%s' % (f.name, ev.get('l')), not bad, f.loc(ev),
                   ('frame_type = %s: KEY_FRAME only for an IDR picture' % pstr(strip(e[3]))[:70]) if not bad else '; '.join(bad))
    rep.floor('C19.KEYTYPE', 3)

    # ---------------- KEYRPS
    levels = [(i, par, cond, line) for i, (par, kind, cond, line) in enumerate(rps.ctl) if kind == 'if' and cond is not None and
              strip(cond)[0] == 'b' and strip(cond)[1] == '==' and (last_field(strip(strip(cond)[2])) or '').endswith('.hierarchical_levels') and strip(strip(cond)[3])[0] == 'l']
    if len(levels) < 6:
        raise AnalysisBroken('av1_generate_rps_info: %d hierarchical-level branches found (6 expected)' % len(levels))

    def anc(c):
        out = []
        while c is not None and c >= 0:
            out.append(c)
            c = rps.ctl[c][0]
        return out
    for li, par, cond, line in levels:
        lvl = strip(strip(cond)[3])[1]
        inside = [ev for ev in rps.events(('st', 'call', 'ret')) if li in anc(ev.get('ctl', -1))]
        def through_alias(c2):
            """a condition that is just a local with one definition stands for that definition (`const EbBool is_key = ...; if (is_key)`)"""
            c2 = strip(c2)
            if c2 and c2[0] == 'v' and c2[2] == 'l':
                defs = [d for d in rps.events(('decl', 'st')) if (d['k'] == 'decl' and d['n'] == c2[1] and d.get('e') is not None) or
                        (d['k'] == 'st' and d['e'][0] == 'a' and d['e'][1] == '=' and strip(d['e'][2]) == c2)]
                if len(defs) == 1:
                    return strip(defs[0]['e'] if defs[0]['k'] == 'decl' else defs[0]['e'][3])
            return c2
        keyifs = []
        for i, (p2, k2, c2, l2) in enumerate(rps.ctl):
            if k2 != 'if' or p2 != li or c2 is None:
                continue
            c3 = through_alias(c2)
            if c3 and c3[0] == 'b' and c3[1] == '==' and last_field(strip(c3[2])) == FTYPE and strip(c3[3])[0] == 'l' and strip(c3[3])[1] == 0:
                keyifs.append(i)
        probs = []
        if not keyifs:
            probs.append('no test of frame_type == KEY_FRAME at the top of the branch')
        else:
            k = keyifs[0]
            karm = [ev for ev in inside if k in anc(ev.get('ctl', -1))]
            if not any(ev['k'] == 'call' and callee_name(ev['e']) == 'set_key_frame_rps' for ev in karm):
                probs.append('the key-frame arm does not call set_key_frame_rps')
            if not any(ev['k'] == 'ret' for ev in karm):
                probs.append('the key-frame arm does not return: reference indices are assigned to a key frame')
            kline = rps.ctl[k][3]
            early = [ev for ev in inside if ev['k'] == 'st' and ev['e'][0] == 'a' and (last_field(strip(ev['e'][2])) or '').startswith('Av1RpsNode.') and ev.get('l', 0) < kline]
            if early:
                probs.append('reference structure written (line %s) before the key-frame test' % early[0].get('l'))
        rep.ob('C19.KEYRPS', 'level%d' % lvl, not probs, '%s:%d' % (rps.loc().rsplit(':', 1)[0], line),
               ('hierarchical_levels == %d: key frame handled first (set_key_frame_rps; return) before any reference index' % lvl) if not probs else '; '.join(probs))
    sk = P.fn('set_key_frame_rps')
    shows = [ev for ev in sk.events(('st',)) if ev['e'][0] == 'a' and last_field(strip(ev['e'][2])) == 'FrameHeader.show_frame']
    ok = bool(shows) and all(strip(ev['e'][3])[0] == 'l' and strip(ev['e'][3])[1] == 1 and not sk.ctl_chain(ev) for ev in shows)
    toggles = [ev for ev in sk.events(('st',)) if ev['e'][0] == 'a' and (last_field(strip(ev['e'][2])) or '').endswith('_toggle') and strip(ev['e'][3])[0] == 'l' and strip(ev['e'][3])[1] == 0 and not sk.ctl_chain(ev)]
    rep.ob('C19.KEYRPS', 'set_key_frame_rps', ok and len(toggles) >= 3, sk.loc(), 'key frame is shown unconditionally and %d layer toggles are rewound' % len(toggles))
    uc = P.fn('av1_generate_rps_info_from_user_config')
    kif = [i for i, (p2, k2, c2, l2) in enumerate(uc.ctl) if k2 == 'if' and c2 is not None and strip(c2)[0] == 'b' and strip(c2)[1] == '==' and last_field(strip(strip(c2)[2])) == FTYPE and strip(strip(c2)[3])[0] == 'l' and strip(strip(c2)[3])[1] == 0]
    probs = []
    if not kif:
        probs.append('no key-frame branch')
    else:
        def anc2(c):
            out = []
            while c is not None and c >= 0:
                out.append(c)
                c = uc.ctl[c][0]
            return out
        arm = [ev for ev in uc.events(('st', 'call')) if kif[0] in anc2(ev.get('ctl', -1))]
        clears = [ev for ev in arm if ev['k'] == 'call' and (callee_name(ev['e']) or '') in ('memset', 'EB_MEMSET', '__builtin_memset') and 'dpb_list' in pstr(ev['e'][2][0])]
        if not clears:
            probs.append('the DPB list is not cleared for a key frame')
        if not any(ev['k'] == 'st' and ev['e'][0] == 'a' and last_field(strip(ev['e'][2])) == 'FrameHeader.show_frame' and strip(ev['e'][3])[0] == 'l' and strip(ev['e'][3])[1] == 1 for ev in arm):
            probs.append('the key frame is not shown')
    rep.ob('C19.KEYRPS', 'user-structure', not probs, uc.loc(), 'user-defined structure: key frame clears the whole DPB list and is shown' if not probs else '; '.join(probs))
    rep.floor('C19.KEYRPS', 8)
