"""C06 - output independent of the instruction set: soundness of the selection machinery (not bit-exactness).

  C06.D2  the function installed into a dispatch pointer under CPU-flag guard X is defined in a unit compiled for an
          instruction set <= X (ISA from the unit's real compile flags / the .asm file's sub-library, never from names)
  C06.D4  the unconditional (fallback) function of every pointer is compiled for the x86-64 baseline
  C06.D3  every dispatch pointer that is called anywhere is assigned unconditionally by a setup function; a pointer assigned
          only under a guard is called only from units compiled for at least that instruction set
  C06.ACC16  the AVX2 variance family never wraps its 16-bit sum lanes (a SIMD-only failure mode: the C reference sums in int):
          variance_kernel_avx2 adds one 9-bit difference per pixel into 16 lanes with _mm256_add_epi16, so a lane holds at most
          pixels/16 * 255; each further 16-bit reduction in a finaliser doubles that.  For every instantiation of the
          AOM_VAR_*_AVX2 macros the pixel count handed to one accumulation pass (bw*bh, or bw*uh for the looping form) must
          fit the capacity of the finaliser it names (2048 >> number of 16-bit reductions before widening), uh divides bh,
          and the normalisation shift equals log2(bw*bh)
  C06.D5  the flags tested by the guards have been masked with the CPU's detected capabilities on every path from the init API
"""
from engine.facts import pstr, ptext, strip, callee_name, subexprs, root_of, last_field, AnalysisBroken
from engine.rtcd import unit_isa, fn_isa, dispatch_entries, RANK, FLAG_ISA

PID = 'C06'

META = {
    'technique': 'dispatch-table reconstruction from stores to function-pointer globals with their structured CPU-flag guards; instruction set of each installed function taken from the compile flags of its defining unit; set/graph checks (guard >= ISA, fallback is baseline, called => unconditionally set, mask dominates guards); lane-capacity bound for 16-bit SIMD accumulators from macro-instantiation arguments and the count of 16-bit reductions in each finaliser; lane-width typestate over intrinsic calls (full 64-bit products accumulated with a narrower lane addition) and signed-saturation/unsigned-use contradiction lint, both flow-sensitive through reaching definitions, shared with C07',
    'text': 'Decides that the run-time dispatch machinery is sound for every one of the ~1600 table entries: no kernel is installed under a weaker CPU guard than the instruction set it was compiled for, every fallback slot is baseline code, every pointer that is called is always set, and the flags used by the guards are masked by the detected CPU capabilities. These are necessary conditions for instruction-set independent output (a violation executes illegal instructions or silently changes which level runs); bit-exactness of the kernels themselves is not decided, with one exception where the failure mode is specific to SIMD and has a closed-form bound: the 16-bit sum lanes of the AVX2 variance kernels cannot wrap for any 8-bit input (C06.ACC16). Two further arithmetic contradictions are decided kernel by kernel because a kernel that differs from its C reference makes the output depend on the instruction set: a signed-saturating sum or pack consumed as unsigned, and 64-bit products accumulated in 32-bit (or narrower) lanes.',
    'note': 'x86-64 baseline (<= SSE2) counts as the reference level: SSE2 is architecturally guaranteed and the project compiles its "C" units for it; AVX-512 slots are compiled out in this configuration (EN_AVX512_SUPPORT=0)',
    'ref': 'DESIGN.md section 5 C06',
}

BASELINE = 'SSE2'     # x86-64 guarantees SSE2


def run(P, rep, tier):
    uisa = unit_isa(P)
    ents = dispatch_entries(P)
    setup = sorted({e[0].name for e in ents})
    rep.explanation = ('%d dispatch-table stores in %s; unit ISA from compile flags of %d units; .asm symbols by sub-library directory.' %
                       (len(ents), setup, len(uisa)))
    rep.analysed = {'dispatch_stores': len(ents), 'setup_functions': setup}
    rep.assumptions = ['a unit compiled with -m<isa> may emit <isa> instructions anywhere in it (VEX encoding for -mavx/-mavx2)',
                       'x86-64 baseline is SSE2']
    cache = {}

    def isa_of(name):
        if name not in cache:
            cache[name] = fn_isa(P, name, uisa)
        return cache[name]

    seen = set()
    ptr_uncond = {}
    ptr_guards = {}
    for f, ev, ptr, fn, g, names in ents:
        if g == 'C':
            ptr_uncond.setdefault(ptr, []).append((f, ev, fn))
        else:
            ptr_guards.setdefault(ptr, []).append((g, f, ev, fn))
        if fn.startswith('->'):
            continue        # forwarding of another dispatch pointer: that pointer's own entries are checked
        info = isa_of(fn)
        if info is None:
            rep.ob('C06.D2', '%s<-%s' % (ptr, fn), False, f.loc(ev), 'installed function %s has no definition in any analysed unit or .asm file' % fn)
            continue
        isa, where = info
        key = '%s<-%s@%s' % (ptr, fn, g)
        if key in seen:
            continue
        seen.add(key)
        if g == 'C':
            ok = RANK[isa] <= RANK[BASELINE]
            rep.ob('C06.D4', key, ok, f.loc(ev),
                   'fallback of %s is %s, compiled for %s (%s)%s' % (ptr, fn, isa, where, '' if ok else ' - the no-SIMD configuration would execute ' + isa + ' code'))
        else:
            ok = RANK[isa] <= max(RANK[g], RANK[BASELINE])
            rep.ob('C06.D2', key, ok, f.loc(ev),
                   '%s installed in %s under guard %s is compiled for %s (%s)%s' %
                   (fn, ptr, '/'.join(sorted(set(names))), isa, where,
                    '' if ok else ': a CPU that passes the guard but lacks %s executes illegal instructions (or the %s-limited run silently uses %s code)' % (isa, g, isa)))
    rep.floor('C06.D2', 600)
    rep.floor('C06.D4', 600)

    # ---------------- D3
    fp = {g['name'] for g in P.globals if g.get('fnptr')}
    called = {}
    for f in P.fns:
        if f.lib not in ('Common', 'Encoder', 'Decoder'):
            continue
        for ev in f.events(('call',)):
            c = strip(ev['e'][1])
            while c and c[0] == 'u' and c[1] == '*':
                c = strip(c[2])
            r = root_of(c) if c else None
            if r is not None and r[2] == 'g' and r[1] in fp and callee_name(ev['e']) is None:
                called.setdefault(pstr(c) if c[0] != 'i' else r[1], []).append((f, ev))
    for ptr in sorted(called):
        f, ev = called[ptr][0]
        base = ptr.split('[')[0]
        unc = ptr_uncond.get(ptr) or [x for p, xs in ptr_uncond.items() if p.split('[')[0] == base for x in xs]
        ginit = [g for g in P.globals if g['name'] == base and g.get('init')]
        if ginit and not unc:
            rep.ob('C06.D3', 'ptr:' + ptr, True, f.loc(ev), 'called at %d site(s); statically initialised table (%s:%d)' %
                   (len(called[ptr]), ginit[0]['file'].rsplit('/', 1)[-1], ginit[0]['line']))
            continue
        if unc:
            rep.ob('C06.D3', 'ptr:' + ptr, True, f.loc(ev), 'called at %d site(s); unconditionally set in %s' % (len(called[ptr]), unc[0][0].name))
            continue
        gs = ptr_guards.get(ptr) or [x for p, xs in ptr_guards.items() if p.split('[')[0] == base for x in xs]
        if gs:
            need = min(RANK[g[0]] for g in gs)
            bad = [(cf, cev) for cf, cev in called[ptr] if RANK[uisa.get(cf.unit, 'C')] < need]
            rep.ob('C06.D3', 'ptr:' + ptr, not bad, (bad[0][0].loc(bad[0][1]) if bad else f.loc(ev)),
                   'only set under a CPU guard; %s' % ('every call site is in a unit of at least that instruction set' if not bad else
                                                        'called from %s (unit compiled for %s) where the pointer may still be NULL' % (bad[0][0].name, uisa.get(bad[0][0].unit, 'C'))))
        else:
            # never set: NULL call unless every call site is unreachable by construction
            ok, why = _never_set_exempt(P, ptr, called[ptr])
            if ok:
                rep.exempt('C06.D3', ptr, why)
            rep.ob('C06.D3', 'ptr:' + ptr, ok, f.loc(ev), ('never assigned; ' + why) if ok else 'called but never assigned by any setup function: NULL call')
    rep.floor('C06.D3', 200)

    # ---------------- D5
    for sname in ('setup_common_rtcd_internal', 'setup_rtcd_internal'):
        f = P.fn(sname)
        fl = f.params[0][0]
        masks = []
        for ev in f.events(('st',)):
            e = ev['e']
            if e[0] == 'a' and e[1] in ('&=', '=') and pstr(strip(e[2])) == fl:
                if any(x[0] == 'c' and callee_name(x) in ('get_cpu_flags_to_use', 'get_cpu_flags') for x in subexprs(e[3])):
                    masks.append(ev)
        guarded = [ev for ff, ev, ptr, fn, g, names in ents if ff is f and g != 'C']
        ok = bool(masks) and all(any(f.ev_dominates(m, ev) for m in masks) for ev in guarded)
        if not ok:
            # or: every caller masks the argument first
            callers = P.call_sites(sname)
            okc = bool(callers)
            for cf, cev in callers:
                arg = strip(cev['e'][2][0])
                mk = [e2 for e2 in cf.events(('st',)) if e2['e'][0] == 'a' and e2['e'][1] in ('&=', '=') and pstr(strip(e2['e'][2])) == pstr(arg) and
                      any(x[0] == 'c' and callee_name(x) in ('get_cpu_flags_to_use', 'get_cpu_flags') for x in subexprs(e2['e'][3]))]
                if not any(cf.ev_dominates(m, cev) for m in mk):
                    okc = False
            ok = okc
        rep.ob('C06.D5', sname + '/flags-masked', ok, f.loc(masks[0]) if masks else f.loc(),
               'the %d guarded stores of %s are %sdominated by `%s &= get_cpu_flags_to_use()` (or every caller masks the argument)' %
               (len(guarded), sname, '' if ok else 'NOT ', fl))
    rep.floor('C06.D5', 2)
    run_acc16(P, rep)
    # arithmetic belief contradictions inside SIMD kernels (shared with C07): a kernel that differs from its C reference makes
    # the output depend on the instruction set chosen at run time
    from rules.C07 import run_satsign, run_lanewidth
    run_satsign(P, rep, 'C06.SATSIGN')
    run_lanewidth(P, rep, 'C06.LANEWIDTH')



def _never_set_exempt(P, ptr, sites):
    """A declared, called, never-set pointer is tolerable only if every call site is control-dependent on a condition that
    no store in the program can make true (checked on each run)."""
    conds = []
    for f, ev in sites:
        cs = [(k, c) for k, c, l in f.ctl_chain(ev) if k in ('if', 'else') and c is not None]
        if not cs:
            return False, ''
        conds.append((f, ev, cs))
    # pattern: if (X->fld == LIT) ... ; all stores to fld in the program assign a different literal
    for f, ev, cs in conds:
        okc = False
        for k, c in cs:
            c = strip(c)
            if k == 'if' and c[0] == 'b' and c[1] == '==' and strip(c[3]) and strip(c[3])[0] == 'l' and last_field(strip(c[2])):
                fld = last_field(strip(c[2]))
                lit = strip(c[3])[1]
                vals = set()
                unknown = False
                for g in P.fns:
                    for e2 in g.events(('st',)):
                        e = e2['e']
                        if e[0] == 'a' and last_field(strip(e[2])) == fld:
                            r = strip(e[3])
                            if r and r[0] == 'l':
                                vals.add(r[1])
                            else:
                                unknown = True
                if not unknown and lit not in vals:
                    okc = True
                    why = 'every call site is control-dependent on %s == %s and no store ever assigns that value (assigned: %s)' % (fld, ptext(strip(c[3])), sorted(vals))
        if not okc:
            return False, ''
    return True, why

def run_acc16(P, rep, rule='C06.ACC16'):
    """16-bit lane capacity of the AVX2 variance family."""
    fname = [f for f in P.macros if f.endswith('ASM_AVX2/variance_avx2.c')]
    if not fname:
        raise AnalysisBroken('variance_avx2.c not among the analysed units')
    kern = P.fn('variance_kernel_avx2')
    acc16 = [ev for ev in kern.events(('st',)) if ev['e'][0] == 'a' and any(x[0] == 'c' and callee_name(x) == '_mm256_add_epi16' for x in subexprs(ev['e'][3]))
             and pstr(strip(ev['e'][2])).startswith('*sum')]
    diffs = [ev for ev in kern.events(('decl',)) if ev.get('e') is not None and any(x[0] == 'c' and callee_name(x) == '_mm256_maddubs_epi16' for x in subexprs(ev['e']))]
    if len(acc16) != 1 or len(diffs) != 2:
        raise AnalysisBroken('variance_kernel_avx2 no longer has the shape (2 maddubs differences, one 16-bit accumulation): %d / %d' % (len(diffs), len(acc16)))
    LANES, PER_LANE = 16, 32767 // 255           # 256-bit register of 16-bit lanes; |difference| <= 255 for 8-bit input
    cap0 = LANES * PER_LANE                         # 2048 pixels
    rep.ob(rule, 'kernel', True, kern.loc(acc16[0]), 'variance_kernel_avx2: one 9-bit difference per pixel into %d 16-bit lanes: %d pixels fill a lane pass' % (LANES, cap0))

    def reductions(fn):
        n = 0
        for ev, nm in fn.calls():
            if nm in ('_mm_add_epi16', '_mm256_add_epi16', 'mm256_add_hi_lo_epi16'):
                n += 1
        return n
    caps = {}
    for n in ('512', '1024', '2048'):
        fn = P.fn('variance_final_%s_avx2' % n)
        k = reductions(fn)
        caps[n] = cap0 >> k
        rep.ob(rule, 'finaliser:%s' % n, int(n) <= caps[n], fn.loc(), 'variance_final_%s_avx2 performs %d 16-bit reductions before widening: safe up to %d pixels' % (n, k, caps[n]))
    ninst = 0
    for line, col, name, args in P.macros[fname[0]]:
        if name not in ('AOM_VAR_NO_LOOP_AVX2', 'AOM_VAR_LOOP_AVX2'):
            continue
        try:
            bw, bh, bits, last = (int(a) for a in args)
        except ValueError:
            raise AnalysisBroken('%s(%s): non-literal arguments' % (name, args))
        ninst += 1
        probs = []
        if (1 << bits) != bw * bh:
            probs.append('normalisation shift %d is not log2(%d*%d)' % (bits, bw, bh))
        if name == 'AOM_VAR_NO_LOOP_AVX2':
            if str(last) not in caps:
                raise AnalysisBroken('%s names an unknown finaliser %s' % (name, last))
            if bw * bh > caps[str(last)]:
                probs.append('%d pixels are accumulated before variance_final_%d_avx2, which is safe up to %d: a 16-bit sum lane wraps for |src - ref| near 255' % (bw * bh, last, caps[str(last)]))
        else:
            uh = last
            if bh % uh:
                probs.append('rows per pass %d does not divide the height %d' % (uh, bh))
            if bw * uh > cap0:
                probs.append('%d pixels (%dx%d) are accumulated per pass in 16-bit lanes, capacity %d: the sum wraps for |src - ref| above %d on average' % (bw * uh, bw, uh, cap0, 255 * cap0 // (bw * uh)))
        rep.ob(rule, '%s(%s)' % (name, ','.join(args)), not probs, '%s:%d' % (fname[0].replace('/repo/', ''), line),
               ('%dx%d: %d pixels per 16-bit pass within capacity' % (bw, bh, bw * bh if name == 'AOM_VAR_NO_LOOP_AVX2' else bw * last)) if not probs else '; '.join(probs))
    rep.floor(rule, 18)
