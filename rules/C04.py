"""C04 - determinism under every interleaving / termination: necessary structural conditions in the encoder.

  C04.PAIR    every mutex acquired by encoder code is released on every (non-fault) path to every exit
  C04.ORDER   the lock-class graph ("A held while B is acquired", through calls) is acyclic; blocking calls made while a
              lock is held are exactly the frozen allow-list
  C04.GUARD   every accumulation (++, --, +=, ...) of a shared counter of the frozen table, and every test of it in a
              function that accumulates it, happens with the counter's lock class held (must-hold, through callers)
  C04.KGLOB   every mutable global written by pipeline (KERNEL) code is written under one consistent lock class or is
              reachable from exactly one singly-instantiated thread entry
  C04.ORPHAN  every semaphore / condition variable some kernel waits on is posted / set by some other runtime function
"""
from engine.facts import is_lit, pstr, strip, callee_name, subexprs, fields_in, last_field, root_of, AnalysisBroken
from engine.locks import LockAnalysis
from engine.classes import Classes

PID = 'C04'

META = {
    'technique': 'lockset dataflow over clang CFGs with interprocedural entry locksets (pairing, lock-order graph acyclicity, guarded-by of shared counters), writer inventory of globals by thread-entry reachability, wait/post matching by type-resolved field',
    'text': 'Decides necessary structural conditions of schedule-independence for the encoder pipeline on all paths: no lock leaked on a normal exit, acyclic lock order, no blocking call under a lock beyond the allow-list, every read-modify-write of a shared per-picture counter under its mutex, pipeline-written globals consistently locked or single-threaded, and no wait without a matching post. A data race, lock-order cycle or orphan wait is sufficient to break the property; their absence is necessary, not sufficient (value-level order independence of the reorder queues is not decided). Also decided: a condition variable that is waited on is re-armed by pipeline code for every reuse of its pooled picture object, and every per-picture segment accumulator is put back to its start value by pipeline code (a recycled control set otherwise completes early). Also decided: a field that a pipeline function tests under a lock is never assigned a non-reset value by that function outside that lock (publish-and-test atomicity of the last-finisher idiom).',
    'note': 'thread entry points are the functions passed to svt_create_thread; INIT_ONLY/DCTOR code is single-threaded by construction; plain "=" resets before the SRM hand-off are ordered by the hand-off; allocation-failure exits (returns inside throwing allocation macros) are outside this property (C16) and reported as informational',
    'ref': 'DESIGN.md section 5 C04',
}

# field -> lock class, confirmed by reading each site (see DESIGN.md C04.3)
GUARDS = {
    'EncodeContext.total_number_of_recon_frames': 'EncodeContext.total_number_of_recon_frame_mutex',
    'PictureControlSet.intra_coded_area': 'PictureControlSet.intra_mutex',
    'PictureControlSet.part_cnt': 'PictureControlSet.intra_mutex',
    'PictureControlSet.pred_depth_count': 'PictureControlSet.intra_mutex',
    'PictureControlSet.txt_cnt': 'PictureControlSet.intra_mutex',
    'PictureControlSet.enc_dec_coded_sb_count': 'PictureControlSet.intra_mutex',
    'PictureControlSet.tot_seg_searched_cdef': 'PictureControlSet.cdef_search_mutex',
    'PictureControlSet.tot_seg_searched_rest': 'PictureControlSet.rest_search_mutex',
    'EntropyTileInfo.entropy_coding_current_available_row': 'EntropyTileInfo.entropy_coding_mutex',
    'EntropyTileInfo.entropy_coding_current_row': 'EntropyTileInfo.entropy_coding_mutex',
    'PictureParentControlSet.me_processed_sb_count': 'PictureParentControlSet.me_processed_sb_mutex',
    'PictureParentControlSet.tpl_me_seg_acc': 'PictureParentControlSet.tpl_me_mutex',
    'PictureParentControlSet.temp_filt_seg_acc': 'PictureParentControlSet.temp_filt_mutex',
    'PictureParentControlSet.filtered_sse': 'PictureParentControlSet.temp_filt_mutex',
    'PictureParentControlSet.filtered_sse_uv': 'PictureParentControlSet.temp_filt_mutex',
    'PictureParentControlSet.first_pass_seg_acc': 'PictureParentControlSet.first_pass_mutex',
    'PictureParentControlSet.me_distortion_histogram': 'PictureParentControlSet.rc_distortion_histogram_mutex',
    'PictureParentControlSet.ois_distortion_histogram': 'PictureParentControlSet.rc_distortion_histogram_mutex',
    'PictureParentControlSet.full_sb_count': 'PictureParentControlSet.rc_distortion_histogram_mutex',
    'EncodeContext.sc_frame_in': 'EncodeContext.sc_buffer_mutex',
    'EncodeContext.sc_frame_out': 'EncodeContext.sc_buffer_mutex',
    'HlRateControlHistogramEntry.life_count': 'EncodeContext.hl_rate_control_historgram_queue_mutex',
    'FRAME_STATS.coded_error': 'PictureParentControlSet.first_pass_mutex',
    'FRAME_STATS.intra_error': 'PictureParentControlSet.first_pass_mutex',
    'FRAME_STATS.sr_coded_error': 'PictureParentControlSet.first_pass_mutex',
    'FRAME_STATS.tr_coded_error': 'PictureParentControlSet.first_pass_mutex',
    'FRAME_STATS.mv_count': 'PictureParentControlSet.first_pass_mutex',
    'FRAME_STATS.inter_count': 'PictureParentControlSet.first_pass_mutex',
    'FRAME_STATS.intra_skip_count': 'PictureParentControlSet.first_pass_mutex',
    'FRAME_STATS.neutral_count': 'PictureParentControlSet.first_pass_mutex',
    'FRAME_STATS.second_ref_count': 'PictureParentControlSet.first_pass_mutex',
    'FRAME_STATS.third_ref_count': 'PictureParentControlSet.first_pass_mutex',
    'FRAME_STATS.sum_mvr': 'PictureParentControlSet.first_pass_mutex',
    'FRAME_STATS.sum_mvc': 'PictureParentControlSet.first_pass_mutex',
    'FRAME_STATS.sum_in_vectors': 'PictureParentControlSet.first_pass_mutex',
    'FRAME_STATS.brightness_factor': 'PictureParentControlSet.first_pass_mutex',
    'FRAME_STATS.intra_factor': 'PictureParentControlSet.first_pass_mutex',
    'FRAME_STATS.frame_avg_wavelet_energy': 'PictureParentControlSet.first_pass_mutex',
}

# globals that only silence a repeated diagnostic line (their race cannot reach the coded output)
DIAGNOSTIC_ONCE_FLAGS = {
    'g_add_mem_entry_warning': 'once-flag of the debug-build memory tracker (DEBUG_MEMORY_USAGE, not compiled in the production configuration): only suppresses a repeated log line',
    'g_remove_mem_entry_warning': 'once-flag of the debug-build memory tracker (DEBUG_MEMORY_USAGE, not compiled in the production configuration): only suppresses a repeated log line',
}

# (lock class, blocking callee) pairs that exist today and were confirmed by reading.
BLOCK_UNDER_LOCK_OK = {
    # recon_output takes a buffer from the recon output pool while counting recon frames; the pool's releaser
    # (svt_av1_get_recon, application thread) takes no library mutex, so this is an edge, not a cycle
    ('EncodeContext.total_number_of_recon_frame_mutex', 'svt_get_empty_object'):
        'recon_output waits for an output-recon buffer under the recon-count mutex; releaser takes no library mutex',
    ('PictureControlSet.rest_search_mutex', 'svt_get_empty_object'):
        'rest_kernel (last restoration segment) posts results / emits recon under rest_search_mutex; releasers take no pcs mutex',
    ('PictureControlSet.cdef_search_mutex', 'svt_get_empty_object'):
        'cdef_kernel (last cdef segment) fans out restoration tasks under cdef_search_mutex; consumers do not take it before releasing',
    ('EbSequenceControlSetInstance.config_mutex', 'svt_get_empty_object'):
        'resource_coordination_kernel copies the live configuration into a fresh SCS from the SCS pool under config_mutex; the only '
        'other taker of config_mutex is svt_av1_enc_set_parameter (application thread) and no SCS releaser takes it',
}

ALLOC_THROW_MACROS = {'EB_CHECK_MEM', 'EB_ADD_MEM', 'EB_MALLOC', 'EB_CALLOC', 'EB_MALLOC_ARRAY', 'EB_CALLOC_ARRAY', 'EB_MALLOC_ALIGNED',
                      'EB_MALLOC_ALIGNED_ARRAY', 'EB_CALLOC_ALIGNED_ARRAY', 'EB_NEW', 'EB_ALLOC_PTR_ARRAY', 'EB_REALLOC_ARRAY',
                      'EB_MALLOC_2D', 'EB_CALLOC_2D', 'EB_CREATE_MUTEX', 'EB_CREATE_SEMAPHORE', 'EB_CREATE_THREAD'}
BLOCKERS = ('svt_get_empty_object', 'svt_get_full_object', 'svt_block_on_semaphore', 'svt_wait_cond_var')


def is_fault_exit(ret):
    return ret is not None and bool(set(ret.get('mx', ())) & ALLOC_THROW_MACROS)


def accum(ev):
    e = ev['e']
    if e[0] == 'u':
        return strip(e[2])
    if e[0] == 'a' and e[1] != '=':
        return strip(e[2])
    return None


def run(P, rep, tier):
    C = Classes(P)
    la = LockAnalysis(P)
    # decoder callers of Common code (film-grain synthesis, ...) hold none of the encoder's lock classes and belong to
    # another instance (C17): the encoder's entry locksets are computed over encoder-side call sites
    excl = C.init_only | C.dctor_only | {f for f in P.fns if f.lib == 'Decoder'}
    must_entry, may_entry = la.entry_classes(exclude=excl)
    enc = [f for f in P.fns if f.lib == 'Encoder' and f not in C.dead]
    rep.explanation = (
        'Lockset dataflow over the clang CFG of every non-dead encoder function (%d), entry locksets by intersection (must) / union '
        '(may) over all call sites with function pointers resolved; lock-order graph over type-resolved lock classes; guarded-by '
        'check of %d confirmed (counter, mutex) pairs at every accumulation site; inventory of globals written from thread-entry-'
        'reachable code; wait/post matching. All paths, all call sites - no schedule is sampled.' % (len(enc), len(GUARDS)))
    rep.analysed = {'encoder_functions': len(enc), 'thread_entries': sorted(C.thread_entry_names), 'units': len(P.units)}
    rep.assumptions = ['thread entries = functions passed to svt_create_thread', 'INIT_ONLY / DCTOR code runs single-threaded',
                       'lock identity is access-path based (two paths to one object are distinct: may miss, never invents a PAIR violation)']

    # ---------------- PAIR
    for f in enc:
        if f.file.endswith('EbSystemResourceManager.c') or f.api:
            continue
        a = la.analyse(f)
        acqs = [(ev, ident, cls) for ev, kind, ident, cls, _ in a['events'] if kind == 'acq']
        if not acqs:
            continue
        bad = {}
        for ident, cls, ret, bid, aev in la.unreleased(f):
            bad.setdefault(ident, []).append(ret)
        n = {}
        for ev, ident, cls in acqs:
            n[cls] = n.get(cls, 0) + 1
            key = '%s/%s#%d' % (f.name, cls, n[cls])
            rets = bad.get(ident, [])
            normal = [r for r in rets if not is_fault_exit(r)]
            fault = [r for r in rets if is_fault_exit(r)]
            if fault:
                rep.note('%s: %s stays locked on %d allocation-failure exit(s) (e.g. %s) - run-time allocation failure is outside C04' %
                         (f.name, ident, len(fault), f.loc(fault[0])))
            if normal:
                r = normal[0]
                rep.ob('C04.PAIR', key, False, f.loc(r) if r is not None else f.loc(ev),
                       '%s acquired at %s may still be held at exit %s' % (ident, f.loc(ev), f.loc(r) if r is not None else 'end of function'))
            else:
                rep.ob('C04.PAIR', key, True, f.loc(ev), '%s released on every non-fault path' % ident)
        for ev, ident in a['doubles']:
            rep.ob('C04.PAIR', '%s/double:%s' % (f.name, ident), False, f.loc(ev), 'second acquire of %s while it may be held (self-deadlock)' % ident)
        for ev, ident, cls in la.unmatched_release(f):
            rep.ob('C04.PAIR', '%s/unmatched-release:%s' % (f.name, cls), False, f.loc(ev), 'release of %s which is not held on some path' % ident)
    rep.floor('C04.PAIR', 28)

    # ---------------- ORDER
    edges = {k: v for k, v in la.order_edges(may_entry).items() if v[0].lib in ('Encoder', 'Common')}
    graph = {}
    for (a_, b_) in edges:
        graph.setdefault(a_, set()).add(b_)
    # cycle detection (Tarjan-free: DFS colours)
    cyc = []
    colour = {}

    def dfs(u, path):
        colour[u] = 1
        for v in sorted(graph.get(u, ())):
            if colour.get(v) == 1:
                cyc.append(path[path.index(v):] + [v] if v in path else [u, v])
            elif v not in colour:
                dfs(v, path + [v])
        colour[u] = 2
    for u in sorted(graph):
        if u not in colour:
            dfs(u, [u])
    for (a_, b_), (f, ev) in sorted(edges.items()):
        incyc = any(a_ in c and b_ in c for c in cyc)
        rep.ob('C04.ORDER', 'edge:%s->%s' % (a_, b_), not incyc, f.loc(ev),
               '%s held while %s is acquired (in %s)%s' % (a_, b_, f.name, ' - part of a lock-order cycle %s' % cyc[0] if incyc else ''))
    # blocking calls under a lock
    seen_pairs = set()
    for f in enc:
        if f.file.endswith('EbSystemResourceManager.c'):
            continue
        for ev, n in f.calls(BLOCKERS):
            must, may = la.held_classes_at(f, ev)
            held = may | may_entry.get(f, frozenset())
            for h in sorted(held):
                pair = (h, n)
                key = 'block-under-lock:%s/%s' % pair
                if key in seen_pairs:
                    continue
                seen_pairs.add(key)
                ok = pair in BLOCK_UNDER_LOCK_OK
                if ok:
                    rep.exempt('C04.ORDER', '%s while %s' % (n, h), BLOCK_UNDER_LOCK_OK[pair])
                rep.ob('C04.ORDER', key, ok, f.loc(ev),
                       '%s may be called with %s held (in %s)%s' % (n, h, f.name, '' if ok else ' - not in the confirmed allow-list: a waiter holding a lock its waker needs deadlocks'))
    rep.floor('C04.ORDER', 3)

    # ---------------- GUARD
    for fld, lk in sorted(GUARDS.items()):
        rec, fn_ = fld.split('.', 1)
        r = P.records.get(rec)
        if r is None or not any(x['n'] == fn_ for x in r['fields']):
            raise AnalysisBroken('guarded field %s no longer exists' % fld)
        lrec, lfn = lk.split('.', 1)
        r2 = P.records.get(lrec)
        if r2 is None or not any(x['n'] == lfn for x in r2['fields']):
            raise AnalysisBroken('lock field %s no longer exists' % lk)
    nsite = {}
    for f in enc:
        if f not in C.runtime:
            continue
        accs = {}
        for ev in f.events(('st',)):
            t = accum(ev)
            lf = last_field(t) if t is not None else None
            if lf in GUARDS:
                must, may = la.held_classes_at(f, ev)
                held = must | must_entry.get(f, frozenset())
                ok = GUARDS[lf] in held
                nsite[(f.name, lf)] = nsite.get((f.name, lf), 0) + 1
                rep.ob('C04.GUARD', '%s/rmw:%s#%d' % (f.name, lf, nsite[(f.name, lf)]), ok, f.loc(ev),
                       'read-modify-write of %s with %s held; requires %s' % (lf, sorted(held) or 'no lock', GUARDS[lf]))
                accs.setdefault(lf, []).append(ev)
        if accs:
            # tests of the counter in the same function
            a = la.analyse(f)
            for bid in f.reach():
                b = f.blocks[bid]
                c = b.get('cond')
                if c is None:
                    continue
                for lf in fields_in(c) & set(accs):
                    # "test the value you just produced": the last-finisher idiom (cnt++; if (cnt == total) ...)
                    if not any(av['b'] == bid or f.block_dominates(av['b'], bid) for av in accs[lf]):
                        continue
                    st = a['outs'].get(bid) if a['events'] else None
                    must = frozenset()
                    if st is not None:
                        cls = {ident: cl for _, _, ident, cl, _ in a['events']}
                        must = frozenset(cls[i] for i in st[0])
                    held = must | must_entry.get(f, frozenset())
                    ok = GUARDS[lf] in held
                    rep.ob('C04.GUARD', '%s/test:%s@%s' % (f.name, lf, pstr(c)[:60]), ok, '%s:%d' % (f.loc().rsplit(':', 1)[0], b.get('tl', f.line)),
                           'test of %s (%s) with %s held; requires %s' % (lf, pstr(c)[:80], sorted(held) or 'no lock', GUARDS[lf]))
    rep.floor('C04.GUARD', 40)
    # candidates (informational): fields accumulated under a lock at some site and without one elsewhere, not in the table
    cand = {}
    for f in enc:
        if f not in C.runtime:
            continue
        for ev in f.events(('st',)):
            t = accum(ev)
            lf = last_field(t) if t is not None else None
            if lf and lf not in GUARDS:
                must, may = la.held_classes_at(f, ev)
                held = must | must_entry.get(f, frozenset())
                cand.setdefault(lf, []).append((bool(held), f.name))
    for lf, ss in sorted(cand.items()):
        if any(h for h, _ in ss) and any(not h for h, _ in ss):
            rep.note('guard candidate (not in the confirmed table): %s accumulated under a lock in %s and without one in %s' %
                     (lf, sorted({n for h, n in ss if h})[:3], sorted({n for h, n in ss if not h})[:3]))

    # ---------------- TESTSET: "publish my part, then test whether all parts are done" must be one atomic step.  In a pipeline
    # function, a field that the function tests (in a branch condition) while holding lock L is never given a non-reset value by
    # the same function outside L: otherwise two workers can both publish first and both see the completed state, and the
    # completion path (posting the picture, releasing references) runs twice.
    nts = 0
    occ = {}
    for f in enc:
        if f not in C.kernel:
            continue
        a = la.analyse(f)
        if not a['events']:
            continue
        cls = {ident: cl for _, _, ident, cl, _ in a['events']}
        reads = {}
        for bid in f.reach():
            b = f.blocks[bid]
            c = b.get('cond')
            if c is None:
                continue
            st = a['outs'].get(bid)
            if st is None:
                continue
            must = {cls[i] for i in st[0]} | set(must_entry.get(f, frozenset()))
            for fld in fields_in(c):
                for L in must:
                    reads.setdefault(fld, {}).setdefault(L, b.get('tl', f.line))
        for ev in f.events(('st',)):
            e = ev['e']
            if e[0] not in ('a', 'u'):
                continue
            t = strip(e[2])
            if t[0] != 'm' or t[1] not in reads:
                continue
            if e[0] == 'a' and e[1] == '=' and strip(e[3])[0] == 'l' and strip(e[3])[1] == 0:
                continue            # reset to the start value: made by the single owner before / after the shared phase
            must, may = la.held_classes_at(f, ev)
            held = must | must_entry.get(f, frozenset())
            for L, line in sorted(reads[t[1]].items()):
                nts += 1
                kk = (f.name, t[1], L)
                occ[kk] = occ.get(kk, 0) + 1
                ok = L in held
                rep.ob('C04.TESTSET', '%s/%s:%s#%d' % (f.name, t[1], L.split('.')[-1], occ[kk]), ok, f.loc(ev),
                       '%s is tested under %s (line %d) and assigned %s' % (t[1], L, line, 'under it as well' if ok else
                       'here WITHOUT it (%s held): publish and completion test are no longer atomic' % (sorted(held) or 'no lock')))
    rep.floor('C04.TESTSET', 30)

    # ---------------- REARM: per-picture accumulators live in pooled (recycled) picture control sets; a counter that is only
    # ever incremented under its mutex and never put back to its start value by pipeline code makes the "last finisher"
    # test (cnt == total) fire at the wrong segment from the object's second use on
    POOLED = ('PictureControlSet', 'PictureParentControlSet', 'EntropyTileInfo')
    resets = {}
    for f in enc:
        if f not in C.kernel:
            continue
        for ev in f.events(('st', 'call')):
            e = ev['e']
            if ev['k'] == 'st' and e[0] == 'a' and e[1] == '=' and is_lit(e[3]):
                lf = last_field(strip(e[2]))
                if lf in GUARDS:
                    resets.setdefault(lf, set()).add(f.name)
            elif ev['k'] == 'call' and callee_name(e) in ('memset', 'svt_memset') and e[2] and is_lit(e[2][1]):
                lf = last_field(strip(e[2][0]))
                if lf in GUARDS:
                    resets.setdefault(lf, set()).add(f.name)
    for fld in sorted(GUARDS):
        if fld.split('.', 1)[0] in POOLED:
            rep.ob('C04.REARM', 'reset:%s' % fld, bool(resets.get(fld)), 'EbPictureControlSet.h',
                   'accumulator of a pooled per-picture object; put back to a literal by pipeline code in %s' %
                   (sorted(resets[fld]) if resets.get(fld) else 'NO pipeline function (only accumulated): its completion test misfires on a recycled object'))
    rep.floor('C04.REARM', 15)

    # ---------------- KGLOB
    gl = {g['name']: g for g in P.globals if not g['const'] and not g.get('fnptr')}
    single_entries = single_thread_entries(P)
    writes = {}
    for f in P.fns:
        if f not in C.kernel or f.lib == 'Decoder':
            continue
        for ev in f.events(('st', 'call')):
            e = ev['e']
            tgt = None
            if ev['k'] == 'st':
                t = strip(e[2]) if e[0] in ('a', 'u') else None
                r = root_of(t) if t is not None else None
                if r is not None and r[2] in ('g', 's'):
                    tgt = r[1]
            else:
                n = callee_name(e)
                if n in ('memset', 'memcpy', 'svt_memcpy', 'memmove', 'rand_r') and e[2]:
                    r = root_of(strip(e[2][0]))
                    if r is not None and r[2] in ('g', 's'):
                        tgt = r[1]
            if tgt and tgt in gl:
                must, may = la.held_classes_at(f, ev)
                writes.setdefault(tgt, []).append((f, ev, must | must_entry.get(f, frozenset())))
    for g, ws in sorted(writes.items()):
        if g in ('g_log_file', 'g_log_level'):
            rep.exempt('C04.KGLOB', g, 'process-wide logging configuration (by design)')
            continue
        if g in DIAGNOSTIC_ONCE_FLAGS:
            rep.exempt('C04.KGLOB', g, DIAGNOSTIC_ONCE_FLAGS[g])
            continue
        common = None
        for f, ev, held in ws:
            common = held if common is None else (common & held)
        entries = set()
        for f, ev, held in ws:
            entries |= {e for e in C.entries_reaching(f) if P.fn(e).lib != 'Decoder'}
        single = len(entries) == 1 and next(iter(entries)) in single_entries
        ok = bool(common) or single
        f, ev, _ = ws[0]
        rep.ob('C04.KGLOB', 'global:%s' % g, ok, f.loc(ev),
               'written by pipeline code in %s: %s' % (sorted({w[0].name for w in ws})[:4],
                                                      ('always under %s' % sorted(common)) if common else
                                                      ('only reachable from the single thread %s' % sorted(entries)) if single else
                                                      'no common lock; reachable from %s' % sorted(entries)))
    rep.floor('C04.KGLOB', 5)

    # ---------------- ORPHAN
    waits, posts = {}, {}
    for f in P.fns:
        if f.lib != 'Encoder' or f not in C.runtime:
            continue
        for ev, n in f.calls(('svt_block_on_semaphore', 'svt_post_semaphore', 'svt_wait_cond_var', 'svt_set_cond_var')):
            if not ev['e'][2]:
                continue
            lf = last_field(strip(ev['e'][2][0])) or pstr(strip(ev['e'][2][0]))
            (waits if n in ('svt_block_on_semaphore', 'svt_wait_cond_var') else posts).setdefault(lf, []).append((f, ev))
    for lf, ws in sorted(waits.items()):
        ps = [p for p in posts.get(lf, []) if p[0] is not ws[0][0] or True]
        other = [p for p in ps if p[0] not in {w[0] for w in ws}]
        f, ev = ws[0]
        rep.ob('C04.ORPHAN', 'wait:%s' % lf, bool(other), f.loc(ev),
               'waited in %s; posted/set in %s' % (sorted({w[0].name for w in ws}), sorted({p[0].name for p in other}) or 'NO other runtime function'))
    rep.floor('C04.ORPHAN', 4)

    # ---------------- CVRESET: a condition variable that is waited "while val == v" lives in a pooled (recycled) object.
    # Necessary for the wait to mean anything on the object's 2nd, 3rd ... use: (a) a runtime setter stores a literal != v,
    # and (b) the value is put back to v on the recycle path, i.e. by *runtime* code (svt_set_cond_var(x, v) or
    # svt_create_cond_var(x), whose body stores val = v), not only by the one-time constructor.
    create = P.fn('svt_create_cond_var')
    create_val = None
    for ev in create.events(('st',)):
        e = ev['e']
        if e[0] == 'a' and e[1] == '=' and last_field(strip(e[2])) == 'CondVar.val' and is_lit(e[3]):
            create_val = strip(e[3])[1]
    cv_wait, cv_set, cv_reset = {}, {}, {}
    for f in P.fns:
        if f.lib != 'Encoder' or f in C.dead:
            continue
        for ev, n in f.calls(('svt_wait_cond_var', 'svt_set_cond_var', 'svt_create_cond_var')):
            a = ev['e'][2]
            if not a:
                continue
            lf = last_field(strip(a[0])) or pstr(strip(a[0]))
            lit = strip(a[1])[1] if len(a) > 1 and is_lit(a[1]) else None
            if n == 'svt_wait_cond_var':
                cv_wait.setdefault(lf, []).append((f, ev, lit))
            elif n == 'svt_set_cond_var':
                cv_set.setdefault(lf, []).append((f, ev, lit))
            else:
                cv_reset.setdefault(lf, []).append((f, ev, create_val))
    for lf, ws in sorted(cv_wait.items()):
        for f, ev, v in ws:
            if v is None:
                rep.ob('C04.CVRESET', 'cv:%s/%s' % (lf, f.name), False, f.loc(ev), 'wait value is not a literal')
                continue
            setters = [(g, e2, w) for g, e2, w in cv_set.get(lf, []) if g in C.runtime and w is not None and w != v]
            resets = [(g, e2, w) for g, e2, w in cv_set.get(lf, []) + cv_reset.get(lf, []) if g in C.runtime and w == v]
            init_resets = [(g, e2, w) for g, e2, w in cv_set.get(lf, []) + cv_reset.get(lf, []) if g not in C.runtime and w == v]
            ok = bool(setters) and bool(resets)
            rep.ob('C04.CVRESET', 'cv:%s/%s' % (lf, f.name), ok, f.loc(ev),
                   'waited while == %d in %s; released by %s; re-armed to %d at run time by %s%s' % (
                       v, f.name, sorted({g.name for g, _, _ in setters}) or 'NO runtime setter of another value', v,
                       sorted({g.name for g, _, _ in resets}) or 'NO runtime function',
                       (' (only the one-time initialisation in %s: a recycled object keeps the released value and the next wait falls through)'
                        % sorted({g.name for g, _, _ in init_resets})) if not resets and init_resets else ''))
    rep.floor('C04.CVRESET', 1)

    run_msghdr(P, rep, Classes(P), 'C04.MSGHDR', None, 18)


def single_thread_entries(P):
    """Thread entries created exactly once per instance (EB_CREATE_THREAD, not EB_CREATE_THREAD_ARRAY)."""
    single, multi = set(), set()
    for f in P.fns:
        for ev, n in f.calls('svt_create_thread'):
            a0 = strip(ev['e'][2][0]) if ev['e'][2] else None
            if not a0 or a0[0] != 'f':
                continue
            if 'EB_CREATE_THREAD_ARRAY' in ev.get('mx', ()) or any(c[0] in ('for', 'while') for c in f.ctl_chain(ev)):
                multi.add(a0[1])
            else:
                single.add(a0[1])
    return single - multi


# ---------------- MSGHDR: the kernels talk through pooled message objects (the *Results / *Tasks records).  A consumer reads some
# members of a message unconditionally right after taking it from its FIFO; a producer that fills a message object it took from the
# empty FIFO must store each of those members before posting, otherwise the consumer acts on what an earlier message left in the
# pooled object (a stale picture, tile group or row: work done twice or never, i.e. a result that depends on scheduling, or a hang).
# Consumer side: members read through the dequeued object at statements under no condition (loops only).  Producer side: members
# stored through the object between its acquisition and the next acquisition of the same local.
def _msg_objects(f, getter):
    wr = set()
    for ev, n in f.calls(getter):
        a = strip(ev['e'][2][1]) if len(ev['e'][2]) > 1 else None
        if a is not None and a[0] == 'u' and a[1] == '&':
            t = strip(a[2])
            if t is not None and t[0] == 'v':
                wr.add(t[1])
    out = {}
    for d in f.events(('decl', 'st')):
        e = d.get('e')
        if e is None:
            continue
        if d['k'] == 'decl':
            n, rhs = d['n'], strip(e)
        elif e[0] == 'a' and e[1] == '=' and strip(e[2])[0] == 'v':
            n, rhs = strip(e[2])[1], strip(e[3])
        else:
            continue
        while rhs is not None and rhs[0] == 'k':
            rhs = strip(rhs[-1])
        if rhs is not None and rhs[0] == 'm' and rhs[1].endswith('.object_ptr'):
            r = root_of(rhs)
            if r is not None and r[1] in wr:
                out.setdefault(n, []).append(d)
    return out


def run_msghdr(P, rep, C, rule, recs, floor):
    def is_msg(rec):
        return rec.endswith('Results') or rec.endswith('Tasks')
    hdr = {}
    for f in P.fns:
        if f.lib != 'Encoder' or f.nocfg or f not in C.runtime:
            continue
        for o, ds in _msg_objects(f, 'svt_get_full_object').items():
            for ev in f.events(('decl', 'st', 'call', 'ret')):
                e = ev.get('e')
                if e is None:
                    continue
                if not all(k in ('for', 'while') for k, c, l in f.ctl_chain(ev)):
                    continue
                for x in subexprs(e):
                    if x[0] == 'm' and len(x) > 3 and strip(x[3]) is not None and strip(x[3])[0] == 'v' and strip(x[3])[1] == o:
                        if ev['k'] == 'st' and e[0] == 'a' and strip(e[2]) is x:
                            continue
                        rec = x[1].split('.')[0]
                        if is_msg(rec) and (recs is None or rec in recs):
                            hdr.setdefault(rec, {}).setdefault(x[1], (f, ev))
    n = 0
    for f in P.fns:
        if f.lib != 'Encoder' or f.nocfg or f not in C.runtime:
            continue
        for o, ds in _msg_objects(f, 'svt_get_empty_object').items():
            for d in ds:
                flds, started, rec = set(), False, None
                for ev in f.events(('st', 'decl')):
                    if ev is d:
                        started = True
                        continue
                    if not started:
                        continue
                    e = ev.get('e')
                    if e is None:
                        continue
                    if ev['k'] == 'decl' and ev['n'] == o:
                        break
                    if ev['k'] == 'st' and e[0] == 'a' and e[1] == '=':
                        t = strip(e[2])
                        if t[0] == 'v' and t[1] == o:
                            break
                        if t[0] == 'm' and len(t) > 3 and strip(t[3]) is not None and strip(t[3])[0] == 'v' and strip(t[3])[1] == o:
                            flds.add(t[1])
                            rec = t[1].split('.')[0]
                if rec is None or rec not in hdr:
                    continue
                n += 1
                miss = sorted(x for x in hdr[rec] if x not in flds)
                cf, cev = hdr[rec][miss[0]] if miss else (None, None)
                rep.ob(rule, '%s/%s@%d' % (f.name, rec, d['l']), not miss, f.loc(d),
                       ('%s fills every member the consumer of %s reads unconditionally (%s)' % (f.name, rec, ', '.join(sorted(x.split('.')[1] for x in hdr[rec])))) if not miss else
                       ('%s posts a pooled %s without storing %s, which %s reads unconditionally (%s): the consumer acts on the value an earlier message left in the object' %
                        (f.name, rec, ', '.join(x.split('.')[1] for x in miss), cf.name, cf.loc(cev))))
    rep.floor(rule, floor)
