"""C10 - the decoder survives arbitrary input bytes: structural necessary conditions on the parsing front end.

  C10.LOOPEXIT  wherever a run-time decoder function stores the result of a can-fail callee that it calls inside a loop, the
                failing value leaves the loop: following only the branches consistent with "result != EB_ErrorNone" from the
                call, control never comes back to the same call (a parser that does not advance its cursor on error and
                loops anyway parses the same corrupt bytes for ever)
  C10.ERRUSE    the result of every can-fail callee called by run-time decoder code is returned, tested or stored-and-read
                (never discarded or overwritten before being read)
  C10.ADVANCE   in the OBU walkers (functions that own a `data`/`data_size` cursor pair) every decrease of the unsigned
                remaining-size counter by a bitstream-derived amount X is dominated by a comparison of the counter with X
                whose failing branch returns; an unchecked decrease wraps the counter and disables every later bound test
  C10.CURSOR    every function that advances the bit-reader's word pointer (Bitstrm.buf) compares against the reader's limit
                (Bitstrm.buf_max) first; the limit is maintained by dec_bits_init, so a reader that never consults it reads
                past the end of any truncated buffer
  C10.VOIDREAD  inventory (informational) of syntax-element readers that cannot report an error

Not decided: that array subscripts derived from parsed syntax elements stay in range (value level).
"""
from engine.facts import is_lit, pstr, strip, callee_name, subexprs, fields_in, last_field, root_of, AnalysisBroken
from engine.classes import Classes

PID = 'C10'

META = {
    'technique': 'branch-refined CFG reachability under "result != EB_ErrorNone" (error-leaves-loop), result-use analysis over can-fail summaries, dominance of bound comparisons over unsigned cursor arithmetic, limit-field consultation check for the bit reader; survey of assertion macros (recorded with their argument text even under NDEBUG) over the header parser: bounds on bit-stream values and error branches must also exist as real control flow on every call path; typestate of the OBU dispatcher (sequence header accepted before frame syntax, no tile group behind a show-existing header)',
    'text': 'Decides four structural necessary conditions for "arbitrary bytes give an error return, never a hang or an over-read" in the decoder front end: a failing OBU/tile parse leaves every loop it was called from; no decoder error result is dropped; the remaining-size counter of the OBU walkers is never decreased by an unvalidated bitstream amount; the bit reader consults its end pointer. It does not decide subscripts computed from parsed syntax elements, nor the reconstruction kernels. Also decided: a sequence header that changes the geometry re-arms the memory initialisation through a real before/after comparison, and no *_rows quantity of the decoder is assigned the very expression of its *_cols twin. Also decided for the header parser: every assertion that bounds a value read from the bit stream is matched by a real test with an error exit on every call path, every branch that ends in assert(0) returns an error, frame-level syntax is parsed only after a sequence header has been accepted, and an OBU_FRAME whose header says show_existing_frame does not reach the tile group.',
    'note': 'the bit reader (GET_BITS / dec_bits_init) never consults buf_max and the Annex-B / header advances are unchecked: recorded as known findings keyed by function and construct; assert() is not a test in the production configuration',
    'ref': 'DESIGN.md section 5 C10',
}

DEC_RUN = ['svt_av1_dec_frame', 'svt_av1_dec_get_picture', 'svt_get_sequence_info']
WALKERS = ['decode_multiple_obu', 'svt_get_sequence_info', 'read_tile_group_obu']


# verdicts whose loss cannot feed unvalidated data to later code (one symbol + one reason each)
ERRUSE_EXEMPT_CALLEE = {
    'byte_alignment': 'checks that the padding bits up to the next byte boundary are zero; nothing downstream reads those bits, so a '
                      'lenient caller decodes the same picture (the property allows "decodes it")',
}
ERRUSE_EXEMPT_CALLER = {
    'parse_tile_job': 'worker-thread tile job of the multi-threaded decoder: outside this property\'s quantifier (single-threaded decoder)',
}


def err_refined_reaches(f, start_ev, var, target_ev):
    """Can control, starting right after start_ev with `var` holding a non-zero error code, reach target_ev again?
    Branches whose condition compares var with EB_ErrorNone are followed only on the consistent side; a store to var ends
    the obligation on that path."""
    def consistent(cond, idx):
        c = strip(cond)
        if c is None:
            return True
        # idx 0 = condition true, 1 = false
        neg = False
        while c and c[0] == 'u' and c[1] == '!':
            neg = not neg
            c = strip(c[2])
        if c and c[0] == 'v' and c[1] == var:
            truth = True            # var != 0
        elif c and c[0] == 'b' and c[1] in ('!=', '==') and ((pstr(strip(c[2])) == var and is_lit(c[3], 0)) or (pstr(strip(c[3])) == var and is_lit(c[2], 0))):
            truth = (c[1] == '!=')
        else:
            return True
        if neg:
            truth = not truth
        return (idx == 0) == truth
    seen = set()
    st = [(start_ev['b'], start_ev['x'] + 1)]
    while st:
        b, x = st.pop()
        if (b, x) in seen:
            continue
        seen.add((b, x))
        blk = f.blocks[b]
        stop = False
        for e2 in blk['ev'][x:]:
            if e2 is target_ev:
                return True
            e = e2.get('e')
            if e2['k'] == 'st' and e and e[0] == 'a' and e[1] == '=' and pstr(strip(e[2])) == var:
                stop = True
                break
            if e2['k'] == 'ret':
                stop = True
                break
        if stop:
            continue
        succ = blk['succ']
        c = blk.get('cond')
        for i, s in enumerate(succ):
            if s is None:
                continue
            if len([q for q in succ if q is not None]) == 2 and c is not None and not consistent(c, i):
                continue
            st.append((s, 0))
    return False


def in_loop(f, ev):
    return any(k in ('for', 'while', 'do') for k, c, l in f.ctl_chain(ev))


def run(P, rep, tier):
    from rules.C16 import can_fail_summaries, result_dropped
    C = Classes(P)
    cf = can_fail_summaries(P)
    roots = [P.fn(n) for n in DEC_RUN]
    te = [f for f in C.thread_fns if f.lib == 'Decoder']
    scope = sorted([f for f in P.reachable_from(roots + te) if f.lib == 'Decoder' and not f.nocfg], key=lambda f: (f.file, f.line))
    if len(scope) < 150:
        raise AnalysisBroken('decoder run-time scope has only %d functions' % len(scope))
    rep.explanation = ('%d decoder functions reachable from %s and the decoder worker threads; %d can-fail summaries; one LOOPEXIT obligation '
                       'per can-fail call made inside a loop, one ERRUSE obligation per can-fail call, one ADVANCE obligation per decrease '
                       'of a walker\'s remaining-size counter, one CURSOR obligation per function advancing Bitstrm.buf.' % (len(scope), DEC_RUN, len(cf)))
    rep.analysed = {'decoder_runtime_functions': len(scope)}
    rep.assumptions = ['failure = a non-EB_ErrorNone return value', 'assert() is compiled out (production configuration)']

    # bitstream-error summaries: functions that may return EB_Corrupt_Frame / EB_DecUnsupportedBitstream / EB_DecDecodingError
    # (allocation failures at decode time are not this property's subject)
    BS_ERR = ('EB_Corrupt_Frame', 'EB_DecUnsupportedBitstream', 'EB_DecDecodingError')
    bse = {}
    dec_fns = [f for f in P.fns if f.lib == 'Decoder' and not f.nocfg]
    changed = True
    while changed:
        changed = False
        for f in dec_fns:
            if f in bse:
                continue
            tainted = set()
            why = None
            for ev in f.events(('st', 'decl')):
                e = ev.get('e')
                if e is None:
                    continue
                rhs = strip(e[3]) if (ev['k'] == 'st' and e[0] == 'a') else (strip(e) if ev['k'] == 'decl' else None)
                name = pstr(strip(e[2])) if (ev['k'] == 'st' and e[0] == 'a') else ev.get('n')
                if rhs and rhs[0] == 'c':
                    n = callee_name(rhs)
                    if n and any(g in bse for g in P.resolve(n, f)):
                        tainted.add(name)
                elif rhs and rhs[0] == 'l' and len(rhs) > 2 and rhs[2] in BS_ERR:
                    tainted.add(name)
            for ev in f.events(('ret',)):
                v = strip(ev['e']) if ev.get('e') is not None else None
                if v is None:
                    continue
                if v[0] == 'l' and len(v) > 2 and v[2] in BS_ERR:
                    why = 'returns %s at %s' % (v[2], f.loc(ev))
                elif v[0] == 'c' and callee_name(v) and any(g in bse for g in P.resolve(callee_name(v), f)):
                    why = 'returns the result of %s' % callee_name(v)
                elif v[0] == 'v' and v[1] in tainted:
                    why = 'returns %s, which may hold a bitstream error' % v[1]
                if why:
                    break
            if why:
                bse[f] = why
                changed = True
    if len(bse) < 8:
        raise AnalysisBroken('only %d functions summarised as returning a bitstream error' % len(bse))
    rep.analysed['bitstream_error_functions'] = sorted(f.name for f in bse)
    cf = bse

    # ---------------- LOOPEXIT + ERRUSE
    n_le, n_use = {}, {}
    for f in scope:
        for ev, n in f.calls():
            if n is None:
                continue
            tg = [g for g in P.resolve(n, f) if g in cf and g.lib == 'Decoder']
            if not tg:
                continue
            use = ev.get('use')
            var = None
            aev = None
            if use in ('assign', 'init'):
                blk = f.blocks[ev['b']]
                for e2 in blk['ev'][ev['x'] + 1:]:
                    e = e2.get('e')
                    if e2['k'] == 'st' and e and e[0] == 'a' and e[3] is not None and strip(e[3]) == strip(ev['e']):
                        var, aev = pstr(strip(e[2])), e2
                        break
                    if e2['k'] == 'decl' and e is not None and strip(e) == strip(ev['e']):
                        var, aev = e2['n'], e2
                        break
            if n in ERRUSE_EXEMPT_CALLEE:
                rep.exempt('C10.ERRUSE', n, ERRUSE_EXEMPT_CALLEE[n])
                continue
            if f.name in ERRUSE_EXEMPT_CALLER:
                rep.exempt('C10.ERRUSE', f.name, ERRUSE_EXEMPT_CALLER[f.name])
                continue
            n_use[(f.name, n)] = n_use.get((f.name, n), 0) + 1
            key = '%s/call:%s#%d' % (f.name, n, n_use[(f.name, n)])
            bad = None
            if use in ('discard', 'void'):
                bad = 'result discarded'
            elif var:
                r = result_dropped(f, aev, var)
                if r:
                    bad = 'result stored in %s but %s (%s)' % (var, r[1], r[0])
            rep.ob('C10.ERRUSE', key, bad is None, f.loc(ev), ('%s can fail (%s); %s' % (n, cf[tg[0]], bad)) if bad else
                   'result of %s is %s' % (n, {'ret': 'returned', 'test': 'tested', 'assign': 'stored and read', 'init': 'stored and read'}.get(use, use)))
            if var and in_loop(f, ev):
                n_le[(f.name, n)] = n_le.get((f.name, n), 0) + 1
                back = err_refined_reaches(f, aev, var, ev)
                rep.ob('C10.LOOPEXIT', '%s/loop-call:%s#%d' % (f.name, n, n_le[(f.name, n)]), not back, f.loc(ev),
                       ('a failing %s (result in %s) leaves the enclosing loop' % (n, var)) if not back else
                       ('with %s != EB_ErrorNone control comes back to this call: the error branch does not leave the loop, and the callee does not '
                        'advance the cursor on failure, so the same bytes are parsed again for ever' % var))
    rep.floor('C10.ERRUSE', 12)
    rep.floor('C10.LOOPEXIT', 2)

    # ---------------- ADVANCE
    nadv = 0
    for wn in WALKERS:
        w = P.fn(wn)
        # remaining-size counters of this walker: the lvalues it uses as the bound of a leaving test `if (cnt < needed) return`
        # or of its loop condition (`while (cnt > 0)`)
        counters = set()
        for bid in w.reach():
            c = strip(w.blocks[bid].get('cond'))
            if c is not None and c[0] == 'b' and c[1] in ('<', '<=', '>', '>='):
                l, r = strip(c[2]), strip(c[3])
                big = l if c[1] in ('>', '>=') else r
                small = r if c[1] in ('>', '>=') else l
                # "cnt < needed" (cnt is the small side of a failing test) or "cnt > 0" (cnt is the big side of a continue test)
                for side in (l, r):
                    if side[0] in ('v', 'm') and not is_lit(side):
                        counters.add(pstr(side))
        amounts = set()
        for ev in w.events(('st',)):
            e = ev['e']
            if e[0] == 'a' and e[1] == '-=' and not is_lit(e[3]):
                amounts.add(pstr(strip(e[3])))
        counters -= amounts
        for ev in w.events(('st',)):
            e = ev['e']
            if e[0] != 'a' or e[1] != '-=':
                continue
            t = strip(e[2])
            if t[0] not in ('v', 'm'):
                continue
            cnt = pstr(t)
            amount = strip(e[3])
            if is_lit(amount) or cnt not in counters:
                continue
            amt = pstr(amount)
            # dominated by a comparison cnt < amt / cnt >= amt ... whose failing side returns
            ok = False
            for bid in w.reach():
                b = w.blocks[bid]
                c = strip(b.get('cond'))
                if c is None or c[0] != 'b' or c[1] not in ('<', '<=', '>', '>='):
                    continue
                l, r = pstr(strip(c[2])), pstr(strip(c[3]))
                if {l, r} != {cnt, amt}:
                    continue
                if not w.block_dominates(bid, ev['b']) or bid == ev['b']:
                    continue
                # which successor keeps cnt >= amt ?
                lt = (c[1] in ('<', '<=')) == (l == cnt)          # condition true means cnt < amt (too small)
                good = b['succ'][1] if lt else b['succ'][0]
                badsucc = b['succ'][0] if lt else b['succ'][1]
                if good is not None and w.block_dominates(good, ev['b']) and badsucc is not None and \
                        any(x['k'] == 'ret' for x in w.blocks[badsucc]['ev']):
                    ok = True
            nadv += 1
            rep.ob('C10.ADVANCE', '%s/%s-=%s' % (wn, cnt, amt), ok, w.loc(ev),
                   ('%s -= %s is dominated by a bound test whose failing side returns' % (cnt, amt)) if ok else
                   ('%s -= %s: the bitstream-derived amount is never compared with the remaining size first; a larger amount wraps the unsigned '
                    'counter and every later "size < needed" test passes' % (cnt, amt)))
    rep.floor('C10.ADVANCE', 4)

    # ---------------- CURSOR
    ncur = 0
    for f in P.fns:
        if f.lib != 'Decoder' or f.nocfg or f in C.dead:
            continue
        adv = [ev for ev in f.events(('st',)) if ev['e'][0] in ('a', 'u') and last_field(strip(ev['e'][2])) == 'Bitstrm.buf' and
               not (ev['e'][0] == 'a' and ev['e'][1] == '=' and f.name == 'dec_bits_init')]
        if not adv or f.name == 'dec_bits_init':
            continue
        reads_limit = False
        for bid in f.reach():
            c = f.blocks[bid].get('fullcond')
            if c is not None and 'Bitstrm.buf_max' in fields_in(c):
                reads_limit = True
        ncur += 1
        rep.ob('C10.CURSOR', '%s/advance:Bitstrm.buf' % f.name, reads_limit, f.loc(adv[0]),
               'advances the bit reader\'s word pointer %s' % ('after comparing with Bitstrm.buf_max' if reads_limit else
               'without ever comparing it with Bitstrm.buf_max (set by dec_bits_init): reads past the end of a truncated buffer'))
    init = P.fn('dec_bits_init')
    derefs = [ev for ev in init.events(('dr',))]
    tests = [bid for bid in init.reach() if init.blocks[bid].get('cond') is not None]
    rep.ob('C10.CURSOR', 'dec_bits_init/prefetch', bool(tests), init.loc(),
           'prefetches two 32-bit words from the buffer %s' % ('under a size test' if tests else 'whatever numbytes is (no size test at all): an input shorter than 8 bytes is over-read'))
    rep.floor('C10.CURSOR', 2)

    # ---------------- VOIDREAD (informational)
    nv = 0
    for f in scope:
        if f.ret == 'void' and f.params and any('Bitstrm' in pt for pn, pt in f.params) and f.name.startswith(('read_', 'parse_')):
            nv += 1
    rep.note('%d void syntax-element readers taking a Bitstrm cannot report an error (informational)' % nv)

    # ---------------- REINIT: a new sequence header that changes the geometry must re-arm the memory initialisation
    # (mem_init_done = 0), otherwise the next frame is decoded into buffers sized for the previous sequence.  The re-arm is
    # control-dependent on comparisons of the geometry members; each comparison must really compare "before" with "after":
    # one operand is a value loaded before the header is parsed, or the two operands are members of two different objects of
    # which neither has been copied into the other yet.  (Comparing a value with its own copy is always false.)
    from engine.reach import reaching
    dmo = P.fn('decode_multiple_obu')
    GEO = ('SeqHeader.sb_size', 'SeqHeader.max_frame_width', 'SeqHeader.max_frame_height')
    rearm = [ev for ev in dmo.events(('st',)) if ev['e'][0] == 'a' and last_field(strip(ev['e'][2])) == 'EbDecHandle.mem_init_done' and is_lit(ev['e'][3], 0)]
    parse = [ev for ev, n in dmo.calls('read_sequence_header_obu')]
    if not parse:
        raise AnalysisBroken('decode_multiple_obu no longer calls read_sequence_header_obu')
    if not rearm:
        rep.ob('C10.REINIT', 'decode_multiple_obu/re-arm-present', False, dmo.loc(parse[0]),
               'no store mem_init_done = 0 after a sequence header: a geometry change is decoded into the old buffers')
    for rv in rearm:
        conds = [c for k, c, l in dmo.ctl_chain(rv) if c is not None and not isinstance(c[0], list) and k == 'if']
        cmps = [y for c in conds for y in subexprs(strip(c)) if y[0] == 'b' and y[1] in ('!=', '==') and
                (fields_in(y) & set(GEO) or any(x[0] == 'v' for x in (strip(y[2]), strip(y[3]))))]
        seenf = set()
        for y in cmps:
            l, r = strip(y[2]), strip(y[3])
            fl = (fields_in(y) & set(GEO))
            if not fl:
                continue
            F = sorted(fl)[0]
            seenf.add(F)
            ok, why = False, ''
            loc_side = l if l[0] == 'v' else (r if r[0] == 'v' else None)
            if loc_side is not None:
                defs = reaching(dmo).at(rv, loc_side[1])
                good = [d for d in defs if isinstance(d, dict) and d.get('e') is not None and F in fields_in(d['e'] if d['k'] == 'decl' else d['e'][3]) and
                        all(dmo.ev_dominates(d, p) for p in parse)]
                ok = bool(defs) and len(good) == len(defs)
                why = ('%s holds the value loaded before the header is parsed' % loc_side[1]) if ok else \
                      ('%s is not (only) a copy of %s taken before the header is parsed' % (loc_side[1], F))
            elif l[0] == 'm' and r[0] == 'm':
                A, B = pstr(strip(l[3])), pstr(strip(r[3]))
                if A == B:
                    ok, why = False, 'both operands read the same object'
                else:
                    def names(s):
                        return {s, s.lstrip('*&'), '*' + s.lstrip('*&'), '&' + s.lstrip('*&')}
                    copied = None
                    for sv in dmo.events(('st', 'decl')):
                        e = sv.get('e')
                        if e is None or not any(dmo.ev_dominates(p, sv) for p in parse):
                            continue
                        if sv['k'] == 'st' and e[0] == 'a' and e[1] == '=':
                            tp, rp = pstr(strip(e[2])), pstr(strip(e[3]))
                            if (tp in names(A) and rp in names(B)) or (tp in names(B) and rp in names(A)):
                                if dmo.ev_dominates(sv, rv):
                                    copied = sv
                    ok = copied is None
                    why = 'two different objects, compared before either is copied into the other' if ok else \
                          ('%s and %s are compared after one was copied into the other (line %d): the test is always false and mem_init_done is never reset' % (A, B, copied['l']))
            else:
                why = 'unrecognised comparison shape %s' % pstr(y)[:60]
            rep.ob('C10.REINIT', 'decode_multiple_obu/re-arm:%s' % F.split('.')[1], ok, dmo.loc(rv), why)
        for F in GEO:
            if F not in seenf:
                rep.ob('C10.REINIT', 'decode_multiple_obu/re-arm:%s' % F.split('.')[1], False, dmo.loc(rv), 'the re-arm condition does not look at %s' % F)
    rep.floor('C10.REINIT', 1)

    # ---------------- TRANSPOSE: copy-paste without transposition.  Where the decoder assigns a *_cols member / variable and, right
    # after it, its *_rows twin (same spelling with rows<->cols, height<->width), the two right-hand sides must not be the very
    # same expression when that expression itself names a row / column quantity: one of the two then has the wrong dimension
    # (buffers sized for the wrong axis overflow on portrait or landscape pictures).
    import re as _re
    SW = {'rows': 'cols', 'cols': 'rows', 'row': 'col', 'col': 'row', 'height': 'width', 'width': 'height'}
    tok = _re.compile(r'rows|cols|row|col|height|width')

    def swap(s):
        return tok.sub(lambda m: SW[m.group()], s)
    ntr = 0
    for f in P.fns:
        if f.lib != 'Decoder' or f.nocfg or f in C.dead:
            continue
        for b in f.blocks.values():
            sts = [ev for ev in b['ev'] if ev['k'] == 'st' and ev['e'][0] == 'a' and ev['e'][1] == '=' and strip(ev['e'][2])[0] in ('m', 'v')]
            for a, c in zip(sts, sts[1:]):
                ta, tc = pstr(strip(a['e'][2])), pstr(strip(c['e'][2]))
                if ta == tc or swap(ta) != tc or not tok.search(ta):
                    continue
                ra, rc = pstr(strip(a['e'][3])), pstr(strip(c['e'][3]))
                if not tok.search(ra + rc):
                    continue
                ntr += 1
                same = ra == rc and swap(ra) != ra
                rep.ob('C10.TRANSPOSE', '%s/%s~%s' % (f.name, ta[-40:], tc[-40:]), not same, f.loc(c),
                       ('%s and %s are derived from transposed quantities' % (ta, tc)) if not same else
                       ('%s and %s are both assigned %s: one of them is computed from the wrong dimension' % (ta, tc, ra[:80])))
    rep.floor('C10.TRANSPOSE', 20)

    # ---------------- REFNULL: reference slots are empty (NULL) on a fresh decoder and after a rejected key frame.  While the
    # frame header is being parsed nothing has yet established that a slot named by the bitstream is occupied, so in the header
    # parser (functions that read bits) every dereference of a pointer taken from ref_frame_map[] / get_ref_frame_buf() must be
    # dominated by a NULL test of that pointer that leaves the function, or by a validation loop over the references doing so.
    REFSRC = ('EbDecHandle.ref_frame_map',)
    hdr_fns = [g for g in P.fns if g.lib == 'Decoder' and not g.nocfg and g.file.endswith('EbDecParseObu.c')]
    nref = 0
    for g in hdr_fns:
        # locals holding a reference-slot pointer
        refl = {}
        for ev in g.events(('decl', 'st')):
            e = ev.get('e')
            if e is None:
                continue
            name, rhs = (ev['n'], e) if ev['k'] == 'decl' else ((strip(e[2]), e[3]) if e[0] == 'a' and e[1] == '=' else (None, None))
            if name is None:
                continue
            r = strip(rhs)
            from_ref = (r[0] == 'c' and callee_name(r) in ('get_ref_frame_buf', 'get_primary_ref_frame_buf')) or (r[0] == 'i' and last_field(strip(r[1])) in REFSRC) or \
                (r[0] == 'm' and r[1] == 'EbDecHandle.prev_frame')        # the primary reference: NULL when the header says 'none'
            if from_ref:
                key = name if isinstance(name, str) else pstr(name)
                refl[key] = ev
        if not refl:
            continue
        # validation sites: `if (<ref expr or local> == NULL / !x) ... return`
        def null_tested(ev, key):
            # texts whose NULL test protects the key: the key itself, the expression it was loaded from, and - for pointers
            # obtained through get_ref_frame_buf - a validation of that accessor (the loop over LAST..ALTREF that leaves on NULL)
            d = refl[key]
            de = d.get('e')
            src = strip(de if d['k'] == 'decl' else de[3])
            texts = [key, pstr(src)]
            # a conditional expression  key != NULL ? key->member : other  guards the dereference in its true arm
            e0 = ev.get('e')
            if e0 is not None:
                for q in subexprs(e0):
                    if q[0] != 'q':
                        continue
                    c0 = pstr(strip(q[1]))
                    pos = key in c0 and ('!= 0' in c0 or '!= NULL' in c0 or c0.strip('()') == key)
                    neg = key in c0 and ('== 0' in c0 or '== NULL' in c0 or c0.startswith('!'))
                    arm = q[2] if pos and not neg else (q[3] if neg else None)
                    other = q[3] if pos and not neg else (q[2] if neg else None)
                    if arm is not None and (key + '->') in pstr(strip(arm)) and (key + '->') not in pstr(strip(other)):
                        return True
            if src[0] == 'c':
                texts.append('get_ref_frame_buf(')
            for t in texts[1:]:
                for b in g.reach():
                    c = g.blocks[b].get('fullcond')
                    if c is None or t not in pstr(strip(c)):
                        continue
                    evs = g.blocks[b]['ev']
                    rets = [s_ for s_ in g.blocks[b]['succ'] if s_ is not None and any(x['k'] == 'ret' for x in g.blocks[s_]['ev'])]
                    if evs and rets and g.ev_dominates(evs[-1], ev):
                        return True
                    # validation loop: the test sits in a `for` with literal bounds that runs at least once; then the loop
                    # (its header) has to dominate the dereference - the body is executed before the loop is left
                    if evs and rets:
                        loops = [(k2, c2, l2) for k2, c2, l2 in g.ctl_chain(evs[-1]) if k2 == 'for' and c2 is not None]
                        if loops:
                            k2, c2, l2 = loops[0]
                            c2 = strip(c2)
                            lit_bound = c2[0] == 'b' and c2[1] in ('<', '<=') and strip(c2[3])[0] == 'l' and strip(c2[2])[0] == 'v'
                            init = [x for x in g.events(('decl',)) if x['n'] == (strip(c2[2])[1] if lit_bound else None) and x.get('l') == l2 and x.get('e') is not None and strip(x['e'])[0] == 'l']
                            if lit_bound and init and (strip(init[0]['e'])[1] < strip(c2[3])[1] or (c2[1] == '<=' and strip(init[0]['e'])[1] <= strip(c2[3])[1])):
                                hdr = [hb for hb in g.reach() if g.blocks[hb].get('tk') == 'ForStmt' and g.blocks[hb].get('tl') == l2]
                                if hdr and g.block_dominates(hdr[0], ev['b']) and ev['b'] != hdr[0] and ev.get('l', 0) > evs[-1].get('l', 0):
                                    return True
            # the function is only called after its callers validated the references
            if key in refl and strip(refl[key].get('e') if refl[key]['k'] == 'decl' else refl[key]['e'][3])[0] == 'c':
                sites = P.call_sites(g.name)
                if sites and all(any(pstr(strip(g2.blocks[b2]['fullcond'])).find('get_ref_frame_buf(') >= 0 and g2.blocks[b2]['ev'] and
                                     any(x['k'] == 'ret' for s_ in g2.blocks[b2]['succ'] if s_ is not None for x in g2.blocks[s_]['ev']) and
                                     (g2.blocks[b2]['ev'][-1].get('l', 0) < cev.get('l', 0))
                                     for b2 in g2.reach() if g2.blocks[b2].get('fullcond') is not None) for g2, cev in sites):
                    return True
            for kind, cond, line in g.ctl_chain(ev):
                if cond is not None and key in pstr(strip(cond)):
                    return True
            # earlier block that tests the key against NULL and returns, dominating ev
            for b in g.reach():
                c = g.blocks[b].get('fullcond')
                if c is None or key not in pstr(strip(c)):
                    continue
                evs = g.blocks[b]['ev']
                if not evs:
                    continue
                rets = [s_ for s_ in g.blocks[b]['succ'] if s_ is not None and any(x['k'] == 'ret' for x in g.blocks[s_]['ev'])]
                if rets and g.ev_dominates(evs[-1], ev):
                    return True
            return False
        done = set()
        for ev in g.events():
            e = ev.get('e')
            if e is None:
                continue
            for x in subexprs(e):
                if x[0] == 'm' and x[2]:
                    b = strip(x[3])
                    key = b[1] if b[0] == 'v' else pstr(b)
                    if key in refl and refl[key] is not ev and g.ev_dominates(refl[key], ev) and (key, refl[key].get('l')) not in done:
                        done.add((key, refl[key].get('l')))
                        nref += 1
                        ok = null_tested(ev, key)
                        rep.ob('C10.REFNULL', '%s/%s' % (g.name, key[:40]), ok, g.loc(ev),
                               ('%s is tested against NULL before it is dereferenced' % key[:40]) if ok else
                               ('%s comes from a reference slot named by the bitstream and is dereferenced (->%s) without a NULL test: a frame that refers to an empty slot (fresh decoder, lost key frame) crashes the decoder' % (key[:40], x[1].split('.')[1])))
    rep.floor('C10.REFNULL', 3)

    # ---------------- TILESIZE: a coded tile size is validated before the reader is positioned behind the tile.  dec_bits_init
    # prefetches from the address it is given, so `dec_bits_init(bs, buf + tile_size, ..)` with an unvalidated size reads at a
    # distance chosen by the bitstream.  In the single-thread walk the validation is init_svt_reader's range test, reached
    # through start_parse_tile: the call that reaches it (with its status tested) must dominate the re-positioning.
    MT_ONLY = {'svt_av1_scan_tiles': 'tile scan of the multi-threaded decoder (called under is_mt only): outside this property\'s quantifier (single-threaded decoder); it re-positions without any validation - noted, not decided here'}
    validators = {g for g in P.fns if not g.nocfg and g.lib == 'Decoder' and any(t.name == 'read_is_valid' for t in P.reachable_from([g]))}
    nts = 0
    for g in P.fns:
        if g.lib != 'Decoder' or g.nocfg:
            continue
        for ev, nm in g.calls(('dec_bits_init',)):
            a = strip(ev['e'][2][1]) if len(ev['e'][2]) > 1 else None
            if a is None or a[0] != 'b' or a[1] != '+':
                continue
            szs = [x for x in (strip(a[2]), strip(a[3])) if x and x[0] == 'v' and x[2] == 'l']
            if not szs:
                continue
            sz = szs[0][1]
            from_bits = any((d['k'] == 'st' and d['e'][0] == 'a' and strip(d['e'][2]) == szs[0] and any(y[0] == 'c' and (callee_name(y) or '').startswith('dec_get_bits') for y in subexprs(d['e'][3])))
                            for d in g.events(('st',)))
            if not from_bits:
                continue
            nts += 1
            if g.name in MT_ONLY:
                rep.exempt('C10.TILESIZE', g.name, MT_ONLY[g.name])
                rep.ob('C10.TILESIZE', '%s/%s' % (g.name, sz), True, g.loc(ev), 'exempt: ' + MT_ONLY[g.name], nontrivial=False)
                continue
            doms = [c for c, n2 in g.calls() if n2 and any(t in validators for t in P.resolve(n2, g)) and g.ev_dominates(c, ev)]
            cmps = [b for b in g.reach() if g.blocks[b].get('fullcond') is not None and any(y[0] == 'v' and y[1] == sz for y in subexprs(g.blocks[b]['fullcond']))
                    and g.blocks[b]['ev'] and g.ev_dominates(g.blocks[b]['ev'][-1], ev)]
            ok = bool(doms) or bool(cmps)
            rep.ob('C10.TILESIZE', '%s/%s' % (g.name, sz), ok, g.loc(ev),
                   ('the coded %s is range-tested (%s) before the reader is positioned behind the tile' % (sz, callee_name(doms[0]['e']) if doms else 'comparison')) if ok else
                   ('the reader is re-positioned at buf + %s (and prefetches from there) before the coded size has been validated: a size pointing past the OBU makes the decoder read at a bitstream-chosen distance behind its input' % sz))
    rep.floor('C10.TILESIZE', 2)

    run_header_guards(P, rep)


# ---------------- header-level guards that must be real control flow, not assertions (a release build defines NDEBUG)
#  ASSERTBOUND  an assertion that bounds a value read from the bit stream from above is matched by a real test of the same quantity with
#               an error exit (in the parsing function or in a caller): otherwise the bound does not exist in the shipped decoder
#  ASSERTEXIT   a branch of the header parser that ends in assert(0) returns an error immediately after it: "detected, then carried on"
#               is how a corrupt header reaches the code that trusts it
#  SEQFIRST     in the OBU dispatcher every call that parses frame-level syntax is guarded by a test of the flag the sequence-header case
#               raises, with an error exit
#  SHOWEXIST    between the frame-header call and the jump into the tile group (OBU_FRAME) there is a test of show_existing_frame with an
#               error exit
import re as _re


def _fn_span(f):
    ls = [ev['l'] for ev in f.events(reachable=False) if ev.get('l')]
    return (min(ls), max(ls)) if ls else (0, 0)


def _host(fns, spans, line):
    c = [f for f in fns if spans[f.key][0] - 3 <= line <= spans[f.key][1] + 3]
    return min(c, key=lambda f: spans[f.key][1] - spans[f.key][0]) if c else None


def _error_return_under(f, pred):
    """an `if` whose condition satisfies pred and under which (directly) a non-zero return or goto sits"""
    for ev in f.events(('ret',), reachable=False):
        e = ev.get('e')
        for kind, cond, line in f.ctl_chain(ev)[:1]:
            if kind == 'if' and cond is not None and pred(cond):
                v = strip(e) if e is not None else None
                if v is None or not (v[0] == 'l' and v[1] == 0):
                    return ev
    return None


def run_header_guards(P, rep):
    BITS = 'dec_get_bits'
    files = [fl for fl in P.macros if '/Decoder/Codec/' in fl and fl.endswith('.c')]
    dec_fns = [f for f in P.fns if f.lib == 'Decoder' and not f.nocfg]
    hdr_entry = P.fn('read_frame_header_obu')
    hdr = set(g for g in P.reachable_from([hdr_entry]) if g.lib == 'Decoder' and not g.nocfg) | {hdr_entry}
    # the OBU-level functions of the same file that read header syntax outside the frame header (tile group start / end)
    disp0 = P.fn('decode_multiple_obu')
    hdr |= set(g for g in P.reachable_from([disp0]) if g.lib == 'Decoder' and not g.nocfg and g.file == hdr_entry.file)
    by_file = {}
    for f in dec_fns:
        by_file.setdefault(f.file, []).append(f)
    spans = {f.key: _fn_span(f) for f in dec_fns}
    nb = ne = 0
    for fl in files:
        fns = by_file.get(fl, [])
        for (l, c, n, a) in P.macros[fl]:
            if n != 'assert' or not a:
                continue
            txt = a[0].strip()
            f = _host(fns, spans, l)
            if f is None or f not in hdr:
                continue
            if txt == '0':
                ne += 1
                ok = any(l <= ev.get('l', 0) <= l + 2 for ev in f.events(('ret',), reachable=False))
                rep.ob('C10.ASSERTEXIT', '%s#%d' % (f.name, sum(1 for (l2, c2, n2, a2) in P.macros[fl] if n2 == 'assert' and a2 and a2[0].strip() == '0' and l2 <= l and _host(fns, spans, l2) is f)), ok, '%s:%d' % (fl.replace('/repo/', ''), l),
                       'assert(0) is followed by an error return' if ok else
                       ('%s detects a stream error at line %d and only asserts: a release build carries on with the header it has just found to be corrupt' % (f.name, l)))
                continue
            m = _re.match(r'^\(?\s*\(?([A-Za-z_][\w\.\->\[\] ]*?)\)?\s*(?<!-)(<=|<|>=|>)\s*(.+?)\)?$', txt)
            if not m:
                continue
            x = m.group(1).strip()
            ids_l = _re.findall(r'[A-Za-z_]\w*', x)
            ids_l = [t for t in ids_l if t not in ('i', 'j', 'k')] or ids_l
            xid = ids_l[-1]
            derived = False
            for ev in f.events(('decl', 'st'), reachable=False):
                e = ev.get('e')
                if e is None:
                    continue
                rhs = e if ev['k'] == 'decl' else (e[3] if e[0] == 'a' and len(e) > 3 else None)
                if rhs is None or not any(y[0] == 'c' and (callee_name(y) or '').startswith(BITS) for y in subexprs(rhs)):
                    continue
                name = ev['n'] if ev['k'] == 'decl' else (last_field(strip(e[2])) or pstr(strip(e[2])))
                if name.split('.')[-1] == xid:
                    derived = True
            if not derived:
                continue
            nb += 1

            def _tests(cond):
                for y in subexprs(cond):
                    if y[0] == 'b' and y[1] in ('>', '>=', '<', '<='):
                        for side in (y[2], y[3]):
                            sd = strip(side)
                            nm = (last_field(sd) or (sd[1] if sd is not None and sd[0] == 'v' else '')) if sd is not None else ''
                            if nm.split('.')[-1] == xid:
                                return True
                return False
            def _tested_after(g, after_line, depth=0, at=None):
                """a real test with an error exit follows in g (after the given line, in a control context that encloses the given
                event), or follows every call of g in its callers"""
                encl = set((k, l2) for k, c, l2 in g.ctl_chain(at)) if at is not None else None
                for rv in g.events(('ret',), reachable=False):
                    if rv['l'] <= after_line:
                        continue
                    if encl is not None and not all((k, l2) in encl for k, c, l2 in g.ctl_chain(rv)[1:]):
                        continue                # the test sits in another branch than the call
                    e2 = rv.get('e')
                    v2 = strip(e2) if e2 is not None else None
                    if v2 is not None and v2[0] == 'l' and v2[1] == 0:
                        continue
                    if any(k == 'if' and c is not None and _tests(c) for k, c, l2 in g.ctl_chain(rv)[:1]):
                        return g
                if depth >= 2:
                    return None
                sites = [(cf, cv) for cf, cv in P.call_sites(g.name) if cf.lib == 'Decoder' and not cf.nocfg]
                if not sites:
                    return None
                got = [_tested_after(cf, cv['l'], depth + 1, cv) for cf, cv in sites]
                return got[0] if all(x is not None for x in got) else None
            g = _tested_after(f, l - 1)
            real = g
            rep.ob('C10.ASSERTBOUND', '%s/%s:%s' % (f.name, xid, _re.sub(r'\s+', '', txt)[:40]), real is not None, '%s:%d' % (fl.replace('/repo/', ''), l),
                   ('%s is read from the bit stream; its bound (%s) is also enforced by a real test with an error exit in %s (on every call path)' % (xid, txt[:50], g.name)) if real is not None else
                   ('%s is read from the bit stream in %s and bounded only by assert(%s): with NDEBUG nothing enforces it, and the value goes on to size or index decoder storage' % (xid, f.name, txt[:60])))
    if ne < 1 or nb < 2:
        raise AnalysisBroken('header assertions not found (%d assert(0), %d bounds on bit-stream values)' % (ne, nb))
    # SEQFIRST / SHOWEXIST on the dispatcher
    disp = P.fn('decode_multiple_obu')
    seq_call = [ev for ev, n in disp.calls('read_sequence_header_obu')]
    if not seq_call:
        raise AnalysisBroken('decode_multiple_obu no longer calls read_sequence_header_obu')
    flags = set()
    for ev in disp.events(('st',)):
        e = ev['e']
        if e[0] == 'a' and e[1] == '=' and strip(e[3]) is not None and strip(e[3])[0] == 'l' and strip(e[3])[1] == 1 and \
           any(disp.ev_dominates(sc, ev) and sc['l'] < ev['l'] <= sc['l'] + 12 for sc in seq_call):
            lf = last_field(strip(e[2]))
            if lf:
                flags.add(lf)
    if not flags:
        raise AnalysisBroken('no flag is raised after the sequence header has been accepted')
    for cn in ('read_frame_header_obu', 'read_tile_group_obu'):
        for ev, n in disp.calls(cn):
            def _reads_flag(cond):
                return any(y[0] == 'm' and y[1] in flags for y in subexprs(cond))
            # an `if` whose (whole) condition reads the flag, under which an error return sits, and whose head dominates the call
            simple = []
            for rv in disp.events(('ret',)):
                v = strip(rv.get('e')) if rv.get('e') is not None else None
                if v is not None and v[0] == 'l' and v[1] == 0:
                    continue
                ch = disp.ctl_chain(rv)
                if not ch or ch[0][0] != 'if' or ch[0][1] is None or not _reads_flag(ch[0][1]):
                    continue
                # with short-circuit operators the condition is spread over several blocks: the block that evaluates the operand
                # reading the flag carries a sub-tree of the `if` condition
                whole = pstr(ch[0][1])
                heads = [bid for bid, blk in disp.blocks.items() if blk.get('cond') is not None and _reads_flag(blk['cond']) and
                         blk.get('fullcond') is not None and pstr(blk['fullcond']) in whole]
                if any(h != ev['b'] and disp.block_dominates(h, ev['b']) for h in heads):
                    simple.append(rv)
            ok = bool(simple)
            rep.ob('C10.SEQFIRST', '%s@%d' % (cn, ev['l']), ok, disp.loc(ev),
                   ('%s is reached only after a test of %s with an error exit' % (cn, sorted(fl.split('.')[1] for fl in flags))) if ok else
                   ('decode_multiple_obu calls %s without having tested %s: a frame OBU that arrives before any sequence header was accepted is parsed with the picture manager and the sequence parameters unset' % (cn, sorted(fl.split('.')[1] for fl in flags))))
    rep.floor('C10.SEQFIRST', 2)
    fh = [ev for ev, n in disp.calls('read_frame_header_obu')]
    tg = [ev for ev, n in disp.calls('read_tile_group_obu')]
    gotos = [ev for ev in disp.events(reachable=False) if ev['k'] in ('goto', 'jmp')]
    between = [rv for rv in disp.events(('ret',)) if fh and tg and fh[0]['l'] < rv['l'] < tg[0]['l'] and
               any(k == 'if' and c is not None and any(y[0] == 'm' and y[1].endswith('.show_existing_frame') for y in subexprs(c)) for k, c, l in disp.ctl_chain(rv)[:1])]
    rep.ob('C10.SHOWEXIST', 'decode_multiple_obu/frame-obu', bool(between), disp.loc(fh[0]) if fh else disp.loc(),
           'a frame header that says show_existing_frame ends the OBU_FRAME case with an error before the tile group is parsed' if between else
           'after read_frame_header_obu the OBU_FRAME case falls through to the tile group without looking at show_existing_frame: such a header leaves the frame state of the previous picture in place and the tile data is parsed against it')
    rep.floor('C10.SHOWEXIST', 1)
    rep.floor('C10.ASSERTBOUND', 2)
    rep.floor('C10.ASSERTEXIT', 1)
