"""C24 - wavefront EncDec segments: structure of the dependency counters.

  C24.GUARD   in the ENCDEC_TASKS_CONTINUE case of assign_enc_dec_segments every access to the dependency map and to a row's
              current_seg_index is made under assignment_mutex, and the mutex is the one of the same row as the index
  C24.AGREE   the (guard, target) pairs of the run-time decrements equal those of the init-time increments
              (right neighbour / bottom-left neighbour); otherwise a count never reaches zero or reaches it early
  C24.HANDOUT every hand-out  *out = row[R].current_seg_index  is followed by  ++row[R].current_seg_index  for the same R
              before the lock region ends (no segment is handed out twice)
  C24.UNITS   superblock-grid arithmetic is dimensionally consistent: a row stride counted in units of one block size (64x64
              analysis blocks vs the 64/128 coding superblock) is only combined with coordinates that are scaled to pixels by
              the same block size (engine/units.py: units by divisor provenance, flow-sensitive through locals, by agreement
              of stores through members).  Linearisations y*W+x, de-linearisations i%W / i/W and pixel scalings x<<log2(D)
              are the obligations, in every live encoder function
  C24.REARM   every pass over a picture re-arms the dependency counters: the run-time decrements consume the init-time counts, so
              each store of ENCDEC_TASKS_MDC_INPUT (the start of an EncDec pass) is dominated, in the same function, by a call that
              reaches enc_dec_segments_init - or, for the first pass, the picture arrives from the picture manager, which re-arms
              when it binds the child picture control set
  C24.FEED    the feedback task taken from the pool is always posted (no lost token), the function leaks no mutex
"""
from engine.facts import pstr, strip, callee_name, subexprs, fields_in, last_field, root_of, AnalysisBroken
from engine.locks import LockAnalysis, single_assign_aliases, subst
from engine.units import Units, summands
from engine.classes import Classes

PID = 'C24'

META = {
    'technique': 'units-of-measure inference for superblock-grid quantities (divisor provenance, reaching definitions, store agreement) + lockset dataflow + sibling agreement of normalised guard/target expression trees (init increments vs run-time decrements) + post-dominance on the event-CFG',
    'text': 'Decides the structure that makes the wavefront dependency counting sound under every worker interleaving: counter and row-cursor accesses under the row mutex of the same row, init-time increments and run-time decrements using equal guards and targets, hand-out immediately followed by the cursor increment inside the lock, feedback token always posted. Does not decide that the band/row arithmetic covers each superblock exactly once for every grid (exhaustive evaluation, a different technique). Also decided (UNITS): segment / superblock coordinates and the row strides they are linearised with are counted in the same block size (dimension analysis). Also decided: a one-superblock-wide tile group is given a single segment row (the degenerate grid that never completes); the segment grid handed to enc_dec_segments_init is clamped by the superblock dimensions of the tile group it partitions (in the callee, or at every call site against the very expression passed as the dimension).',
    'note': 'MDC_INPUT / ENCDEC_INPUT cases are lock-free by protocol (the picture / row is owned by exactly one task at that point) and exempt with that reason; only valid segments are ever scheduled (init-side extra conjunct valid_sb_count_array[s])',
    'ref': 'DESIGN.md section 5 C24',
}

DEP = 'EncDecSegDependencyMap.dependency_map'
CUR = 'EncDecSegSegmentRow.current_seg_index'
MUT = 'EncDecSegSegmentRow.assignment_mutex'


def in_case(f, ev, name):
    for kind, cond, line in f.ctl_chain(ev):
        if kind == 'case':
            return any(isinstance(v, list) and len(v) > 2 and v[0] == 'l' and v[2] == name for v in cond)
    return False


def norm(e, al, names):
    """Normalised spelling: single-assignment locals inlined, parameter 0 -> S, other variables numbered by role."""
    e = subst(strip(e), al)

    def go(x):
        x = strip(x)
        if x is None:
            return '?'
        k = x[0]
        if k == 'v':
            if x[2] == 'p0':
                return 'S'
            if x[1] not in names:
                names[x[1]] = 'v%d' % len(names)
            return names[x[1]]
        if k == 'l':
            return str(x[1])
        if k == 'm':
            return go(x[3]) + '.' + x[1].split('.', 1)[1]
        if k == 'i':
            return go(x[1]) + '[' + go(x[2]) + ']'
        if k == 'u':
            return x[1] + '(' + go(x[2]) + ')'
        if k == 'b':
            if x[1] == '&&':
                return ' && '.join(sorted([go(x[2]), go(x[3])]))
            return '(' + go(x[2]) + ' ' + x[1] + ' ' + go(x[3]) + ')'
        return pstr(x)
    return go(e)


def guards_of(f, ev, stop_kinds=('case', 'for', 'while', 'sw')):
    out = []
    for kind, cond, line in f.ctl_chain(ev):
        if kind in stop_kinds:
            break
        if kind == 'if' and cond is not None:
            out.append(cond)
    return out


def run(P, rep, tier):
    asg = P.fn('assign_enc_dec_segments')
    ini = P.fn('enc_dec_segments_init')
    la = LockAnalysis(P)
    rep.explanation = ('Structural check of the segment dependency protocol in assign_enc_dec_segments (%s) and enc_dec_segments_init (%s): '
                       'lockset at every counter/cursor access, expression-level agreement of increment and decrement sites, post-dominance of '
                       'cursor increments and feedback posts.' % (asg.loc(), ini.loc()))
    rep.analysed = {'functions': [asg.name, ini.name]}
    rep.assumptions = ['only valid segments are scheduled', 'the task types are produced as documented (MDC_INPUT once per picture/tile group)']
    run_units(P, rep)
    al = single_assign_aliases(asg)
    a = la.analyse(asg)
    cls = {ident: c for _, _, ident, c, _ in a['events']}

    # ---------------- GUARD
    n = 0
    for ev in asg.events(('st', 'ix')):
        if not in_case(asg, ev, 'ENCDEC_TASKS_CONTINUE'):
            continue
        if ev['k'] == 'st':
            t = strip(ev['e'][2]) if ev['e'][0] in ('a', 'u') else None
            lf = last_field(t) if t is not None else None
            target = t
        else:
            lf = last_field(ev['e'])
            target = ['i', ev['e'], ev['i']]
            if lf != DEP:
                continue
        if lf not in (DEP, CUR):
            continue
        must, may = la.held_at(asg, ev)
        mcls = {cls[i] for i in must}
        n += 1
        if lf == DEP:
            rep.ob('C24.GUARD', 'assign_enc_dec_segments/dep#%d' % n, MUT in mcls, asg.loc(ev),
                   'access to %s with %s held' % (pstr(target), sorted(must) or 'no lock'))
        else:
            # same row: lock path == <row path>.assignment_mutex
            row = pstr(subst(strip(target[3]), al)) if target[0] == 'm' else '?'
            want = row + '.assignment_mutex'
            rep.ob('C24.GUARD', 'assign_enc_dec_segments/cur#%d' % n, want in must, asg.loc(ev),
                   'access to %s.current_seg_index with %s held; requires %s' % (row, sorted(must) or 'no lock', want))
    # reads of current_seg_index in the CONTINUE case (hand-out loads)
    for ev in asg.events(('st',)):
        if not in_case(asg, ev, 'ENCDEC_TASKS_CONTINUE') or ev['e'][0] != 'a':
            continue
        rhs = strip(ev['e'][3])
        if last_field(rhs) == CUR and rhs[0] == 'm':
            row = pstr(subst(strip(rhs[3]), al))
            must, may = la.held_at(asg, ev)
            n += 1
            rep.ob('C24.GUARD', 'assign_enc_dec_segments/cur-read#%d' % n, row + '.assignment_mutex' in must, asg.loc(ev),
                   'read of %s.current_seg_index with %s held' % (row, sorted(must) or 'no lock'))
    rep.exempt('C24.GUARD', 'ENCDEC_TASKS_MDC_INPUT / ENCDEC_TASKS_ENCDEC_INPUT',
               'lock-free by protocol: the whole picture (MDC) or the row (feedback token) is owned by exactly one task at that point')
    rep.floor('C24.GUARD', 6)

    # ---------------- AGREE
    def sites(f, al_, op_kinds):
        out = []
        for ev in f.events(('st',)):
            e = ev['e']
            if e[0] != 'u' or e[1] not in op_kinds:
                continue
            t = strip(e[2])
            if last_field(t) != DEP or t[0] != 'i':
                continue
            names = {}
            idx = norm(t[2], al_, names)
            gs = []
            for g in guards_of(f, ev):
                s = norm(g, al_, names)
                gs.append(s)
            out.append((ev, idx, gs))
        return out
    def pure_aliases(f):
        """single-assignment locals defined by arithmetic over other locals and fields of parameter 0 only (a load through
        another pointer parameter, e.g. segment_index = *segmentInOutIndex, is a value snapshot and stays a variable)"""
        out = {}
        # only locals that name a dependency-map *target* (they are used as its subscript) are inlined; the row
        # variable stays a variable on both sides
        targets = set()
        for ev in f.events(('ix',)):
            if last_field(ev['e']) == DEP and strip(ev['i']) and strip(ev['i'])[0] == 'v':
                targets.add(strip(ev['i'])[1])
        for nme, v in single_assign_aliases(f, arith=True).items():
            if nme not in targets:
                continue
            if any(x[0] == 'u' and x[1] == '*' for x in subexprs(v)):
                continue
            if any(x[0] == 'v' and x[2].startswith('p') and x[2] != 'p0' for x in subexprs(v)):
                continue
            out[nme] = v
        return out
    dec_sites = sites(asg, pure_aliases(asg), ('--x', 'x--'))
    al_i = pure_aliases(ini)
    inc_sites = sites(ini, al_i, ('++x', 'x++'))
    if len(dec_sites) < 2 or len(inc_sites) < 2:
        raise AnalysisBroken('dependency map increment/decrement sites not found (%d/%d)' % (len(inc_sites), len(dec_sites)))

    def canon(idx, gs):
        # drop the init-side validity conjunct (recorded exemption) and keep the innermost structural guard(s)
        g2 = [g for g in gs if 'valid_sb_count_array' not in g]
        return (idx, ' && '.join(sorted(' && '.join(g2).split(' && '))) if g2 else '')
    inc = {canon(i, g): ev for ev, i, g in inc_sites}
    dec = {canon(i, g): ev for ev, i, g in dec_sites}
    rep.exempt('C24.AGREE', 'valid_sb_count_array[s]', 'init-side extra conjunct: only valid segments are ever scheduled')
    for k, ev in sorted(dec.items()):
        ok = k in inc
        rep.ob('C24.AGREE', 'decrement:%s' % k[0], ok, asg.loc(ev),
               'run-time decrement of dependency_map[%s] under guard {%s} %s' % (k[0], k[1], 'has an identical init-time increment' if ok else
                                                                                 'has NO init-time increment with the same guard/target; init has %s' % sorted(inc)))
    for k, ev in sorted(inc.items()):
        ok = k in dec
        rep.ob('C24.AGREE', 'increment:%s' % k[0], ok, ini.loc(ev),
               'init-time increment of dependency_map[%s] under guard {%s} %s' % (k[0], k[1], 'has an identical run-time decrement' if ok else
                                                                                  'has NO run-time decrement with the same guard/target; run-time has %s' % sorted(dec)))
    # the decrement is followed by the zero test of the same element inside the lock
    for ev, idx, gs in dec_sites:
        t = pstr(subst(strip(ev['e'][2]), al))
        tests = []
        for bid in asg.reach():
            b = asg.blocks[bid]
            c = b.get('cond')
            if c is not None and pstr(subst(strip(c), al)) == '(%s == 0)' % t and (bid == ev['b'] or asg.block_dominates(ev['b'], bid)):
                st = a['outs'].get(bid)
                tests.append(st is not None and any(cls[i] == MUT for i in st[0]))
        rep.ob('C24.AGREE', 'zero-test:%s' % idx, bool(tests) and all(tests), asg.loc(ev),
               'decrement of %s is followed by its == 0 test under the row mutex' % t)
    # row derivation
    rows = [ev for ev in asg.events(('st',)) if ev['e'][0] == 'a' and pstr(strip(ev['e'][2])) == 'row_segment_index' and ev['e'][1] == '=']
    ok = any(pstr(strip(ev['e'][3])) == '(segment_index / segmentPtr->segment_band_count)' or
             norm(ev['e'][3], {}, {}) == '(v0 / S.segment_band_count)' for ev in rows)
    rep.ob('C24.AGREE', 'row-derivation', ok, asg.loc(rows[0]) if rows else asg.loc(), 'row index of a segment = segment_index / segment_band_count')
    rep.floor('C24.AGREE', 6)

    # ---------------- HANDOUT
    n = 0
    for ev in asg.events(('st',)):
        if ev['e'][0] != 'a' or ev['e'][1] != '=':
            continue
        rhs = strip(ev['e'][3])
        if last_field(rhs) != CUR:
            continue
        n += 1
        path = pstr(subst(rhs, al))
        incs = [e2 for e2 in asg.events(('st',)) if e2['e'][0] == 'u' and e2['e'][1] in ('++x', 'x++') and
                pstr(subst(strip(e2['e'][2]), al)) == path and asg.ev_postdominates(e2, ev)]
        same_region = [e2 for e2 in incs if la.held_at(asg, e2)[0] == la.held_at(asg, ev)[0]]
        rep.ob('C24.HANDOUT', 'handout#%d:%s' % (n, path), bool(same_region), asg.loc(ev),
               'hand-out of %s is %sfollowed by its increment in the same lock region' % (path, '' if same_region else 'NOT '))
    rep.floor('C24.HANDOUT', 4)

    # ---------------- FEED
    gets = [ev for ev, nm in asg.calls('svt_get_empty_object')]
    posts = [ev for ev, nm in asg.calls('svt_post_full_object')]
    for i, g in enumerate(gets):
        w = pstr(strip(g['e'][2][1]))
        ok = any(asg.ev_postdominates(p, g) and ('&' + pstr(strip(p['e'][2][0]))) == w for p in posts)
        rep.ob('C24.FEED', 'feedback-token#%d' % i, ok, asg.loc(g), 'wrapper obtained into %s is posted on every path' % w)
        must, may = la.held_at(asg, g)
        rep.ob('C24.FEED', 'feedback-get-unlocked#%d' % i, not may, asg.loc(g), 'blocking get made with %s held' % (sorted(may) or 'no lock'))
    bad = la.unreleased(asg)
    rep.ob('C24.FEED', 'assign_enc_dec_segments/no-lock-leak', not bad, asg.loc(), 'no mutex may be held at any exit' if not bad else
           '%s may be held at exit' % bad[0][0])
    fb = [ev for ev in asg.events(('st',)) if ev['e'][0] == 'a' and last_field(strip(ev['e'][2])) == 'EncDecTasks.enc_dec_segment_row']
    ok = any(pstr(strip(ev['e'][3])) == 'feedback_row_index' for ev in fb)
    rep.ob('C24.FEED', 'feedback-row', ok, asg.loc(fb[0]) if fb else asg.loc(), 'feedback task carries the row whose first segment became ready')
    rep.floor('C24.FEED', 3)

    # the hand-off of a released segment row to another thread travels in a pooled task object: every member the EncDec kernel
    # reads unconditionally is stored by every producer of such a task (rule body shared with C04.MSGHDR)
    from rules.C04 import run_msghdr
    run_msghdr(P, rep, Classes(P), 'C24.TASKHDR', ('EncDecTasks', 'EncDecResults'), 4)

    # ---------------- REARM
    FIRST_PASS = {'mode_decision_configuration_kernel': ('picture_manager_kernel', 'first pass: the picture manager re-arms the segments when it binds the child picture control set, before the picture reaches rate control and mode-decision configuration')}
    cg = P.callgraph()
    reinit = {g for g in P.fns if not g.nocfg and any(t.name == 'enc_dec_segments_init' for t in P.reachable_from([g]))}
    nre = 0
    for g in P.fns:
        if g.lib != 'Encoder' or g.nocfg:
            continue
        for ev in g.events(('st',)):
            e = ev['e']
            if e[0] != 'a' or e[1] != '=' or last_field(strip(e[2])) != 'EncDecTasks.input_type':
                continue
            r = strip(e[3])
            if not (r[0] == 'l' and len(r) > 2 and 'ENCDEC_TASKS_MDC_INPUT' in str(r[2])):
                continue
            nre += 1
            calls = [c for c, nm in g.calls() if nm and any(t in reinit for t in P.resolve(nm, g))]
            dom = [c for c in calls if g.ev_dominates(c, ev)]
            if dom:
                rep.ob('C24.REARM', 'start@%s' % g.name, True, g.loc(ev), 'pass started after %s re-armed the dependency counters in the same function' % callee_name(dom[0]['e']))
            elif g.name in FIRST_PASS:
                prod = P.fn(FIRST_PASS[g.name][0])
                okp = any(nm and any(t in reinit for t in P.resolve(nm, prod)) for c, nm in prod.calls())
                rep.exempt('C24.REARM', g.name, FIRST_PASS[g.name][1])
                rep.ob('C24.REARM', 'start@%s' % g.name, okp, g.loc(ev), ('first pass: %s re-arms the counters' % prod.name) if okp else '%s no longer re-arms the counters for the first pass' % prod.name)
            else:
                rep.ob('C24.REARM', 'start@%s' % g.name, False, g.loc(ev),
                       'a new pass over the picture is started without re-arming the dependency counters: the previous pass decremented them to 0, the next decrement wraps to 255 and no successor segment is ever released (hang)')
    rep.floor('C24.REARM', 2)

    # ---------------- GRID: the segment grid never has more columns / rows than the superblock grid it partitions.
    # enc_dec_segments_init(seg, cols, rows, w_sb, h_sb): every use of `cols` (`rows`) sees only definitions that were
    # clamped by  min(., w_sb)  (min(., h_sb)) - in the callee, or at every call site against the very expression passed as
    # the dimension.  With more segment rows/bands than superblock rows/bands the grid has empty segments inside the
    # start/end range whose dependency counts are never / wrongly released (hang or premature start).
    from engine.reach import reaching
    init = P.fn('enc_dec_segments_init')
    if len(init.params) < 5:
        raise AnalysisBroken('enc_dec_segments_init no longer takes (segments, cols, rows, w_sb, h_sb)')

    def is_min(e, c):
        """bound expression b if e is min(c, b) written as a conditional, else None"""
        e = strip(e)
        if not e or e[0] != 'q':
            return None
        cnd, t, f_ = strip(e[1]), strip(e[2]), strip(e[3])
        if not cnd or cnd[0] != 'b' or cnd[1] not in ('<', '<=', '>', '>='):
            return None
        l, r = pstr(strip(cnd[2])), pstr(strip(cnd[3]))
        ts, fs = pstr(t), pstr(f_)
        if cnd[1] in ('<', '<='):
            small, big = l, r
        else:
            small, big = r, l
        # (small < big) ? small : big  ==  min
        if {small, big} == {ts, fs} and ts == small and c in (small, big):
            return strip(cnd[3]) if small == c and cnd[1] in ('<', '<=') else (strip(cnd[2]) if cnd[1] in ('>', '>=') and small == c else
                                                                            (strip(cnd[2]) if pstr(strip(cnd[2])) != c else strip(cnd[3])))
        return None

    def clamped(f, at, cname, bound, depth=0):
        """every definition of local/param `cname` reaching `at` is min(cname-chain, bound)"""
        if depth > 6:
            return False, 'definition chain too deep'
        defs = reaching(f).at(at, cname)
        if not defs:
            return False, 'no reaching definition'
        for d in defs:
            if isinstance(d, tuple):
                return False, 'the unclamped incoming value of %s' % cname
            e = d.get('e')
            if d['k'] == 'call' or e is None:
                return False, 'opaque definition at %s' % f.loc(d)
            rhs = e if d['k'] == 'decl' else (e[3] if e[0] == 'a' and e[1] == '=' else None)
            if rhs is None:
                return False, 'stepped at %s' % f.loc(d)
            b = is_min(rhs, cname)
            if b is None and strip(rhs)[0] == 'l' and strip(rhs)[1] == 1:
                continue                       # the minimal grid: 1 <= every superblock dimension (a picture has at least one superblock)
            if b is None:
                return False, '%s = %s at %s is not a min() clamp' % (cname, pstr(strip(rhs))[:50], f.loc(d))
            if pstr(b) == bound:
                continue
            ok, why = clamped(f, d, cname, bound, depth + 1)      # a further clamp by something else on an already clamped value
            if not ok:
                return False, why
        return True, 'every reaching definition is min(%s, %s)' % (cname, bound)

    for ci, di in ((1, 3), (2, 4)):
        cname, dname = init.params[ci][0], init.params[di][0]
        if any(pstr(strip(ev['e'][2])) == dname for ev in init.events(('st',)) if ev['e'][0] in ('a', 'u')):
            raise AnalysisBroken('dimension parameter %s of enc_dec_segments_init is reassigned' % dname)
        uses = []
        for ev in init.events(('st', 'call', 'decl', 'ret', 'ix')):
            e = ev.get('e')
            if e is None:
                continue
            if ev['k'] == 'st' and e[0] == 'a' and e[1] == '=' and pstr(strip(e[2])) == cname and is_min(e[3], cname) is not None:
                continue
            if any(x[0] == 'v' and x[1] == cname for x in subexprs(e)) or (ev['k'] == 'ix' and any(x[0] == 'v' and x[1] == cname for x in subexprs(ev['i']))):
                uses.append(ev)
        if not uses:
            raise AnalysisBroken('no use of %s in enc_dec_segments_init' % cname)
        bad = None
        for u in uses:
            ok, why = clamped(init, u, cname, dname)
            if not ok:
                # the callee does not clamp on this path: every call site must
                sites = [(g, cev) for g, cev in P.call_sites('enc_dec_segments_init')]
                okc = bool(sites)
                for g, cev in sites:
                    a_c, a_d = strip(cev['e'][2][ci]), strip(cev['e'][2][di])
                    if a_c[0] != 'v':
                        okc = False; why = 'argument %s at %s is not a local' % (pstr(a_c), g.loc(cev)); break
                    o2, w2 = clamped(g, cev, a_c[1], pstr(a_d))
                    if not o2:
                        okc = False; why = 'callee use at %s sees %s; caller %s passes %s: %s' % (init.loc(u), why, g.name, pstr(a_c), w2); break
                if not okc:
                    bad = (u, why)
                    break
        rep.ob('C24.GRID', 'enc_dec_segments_init/%s<=%s' % (cname, dname), bad is None, init.loc(bad[0]) if bad else init.loc(),
               ('%d uses of %s all see min(%s, %s)' % (len(uses), cname, cname, dname)) if bad is None else
               ('segment count %s can exceed the superblock dimension %s it partitions: %s' % (cname, dname, bad[1])))
    # single column: with one superblock column and >= 2 segment rows the band arithmetic puts each row's only segment on the
    # diagonal (segment r*rows + r), so `segment + band_count >= next_row.start` never holds, no dependency is counted and the lower
    # rows are never started (replayed: 64x128 --lp 4 hung before the fix).  Necessary: the row count is collapsed when the width
    # in superblocks is 1 - in the callee, before the first use of the row count.
    rname, wname = init.params[2][0], init.params[3][0]
    collapse = []
    for ev in init.events(('st',)):
        e = ev['e']
        if e[0] == 'a' and e[1] == '=' and pstr(strip(e[2])) == rname:
            conds = [strip(c) for k, c, l in init.ctl_chain(ev) if k == 'if' and c is not None]
            on_w = [c for c in conds if any(x[0] == 'v' and x[1] == wname for x in subexprs(c))]
            rhs = strip(e[3])
            if on_w and rhs[0] == 'l' and rhs[1] == 1:
                c = on_w[0]
                one = c[0] == 'b' and ((c[1] == '==' and pstr(strip(c[3])) == '1') or (c[1] == '<' and pstr(strip(c[3])) == '2') or (c[1] == '<=' and pstr(strip(c[3])) == '1')) and pstr(strip(c[2])) == wname
                if one:
                    collapse.append(ev)
            elif any(x[0] == 'v' and x[1] == wname for x in subexprs(rhs)):
                collapse.append(ev)            # row count computed from the width (e.g. min(rows, f(width))): accepted as a collapse candidate
    first_use = None
    for ev in init.events(('st', 'decl', 'call')):
        e = ev.get('e')
        if e is None or ev in collapse:
            continue
        lhs_only = ev['k'] == 'st' and e[0] == 'a' and pstr(strip(e[2])) == rname
        srcs = subexprs(e[3]) if lhs_only else subexprs(e)
        if any(x[0] == 'v' and x[1] == rname for x in srcs) and not (lhs_only and is_min(e[3], rname) is not None):
            first_use = ev
            break
    ok = bool(collapse) and first_use is not None and all(c.get('l', 0) < first_use.get('l', 0) for c in collapse[:1])
    rep.ob('C24.GRID', 'enc_dec_segments_init/single-column', ok, init.loc(collapse[0]) if collapse else init.loc(),
           ('the segment row count is collapsed to 1 when the tile group is one superblock wide, before its first use (line %s)' % first_use.get('l')) if ok else
           'a tile group one superblock wide keeps several segment rows: the lower rows have no predecessor that starts them and the picture never completes (e.g. 64x128 with --lp 4)')
    rep.floor('C24.GRID', 3)


# ------------------------------------------------------------------------------------------------------------------- UNITS
def run_units(P, rep):
    C = Classes(P)
    live = [f for f in P.fns if f.lib == 'Encoder' and not f.nocfg and f not in C.dead]
    U = Units(P, live)
    nob = 0
    stats = {'functions': 0, 'linearisations': 0, 'delinearisations': 0, 'scalings': 0}

    def leaves(e):
        out = []
        for s_ in summands(e):
            s_ = strip(s_)
            if s_ and s_[0] in ('v', 'm'):
                out.append(s_)
        return out

    def lkey(x):
        return ('v', x[1]) if x[0] == 'v' else ('m', x[1])

    for f in live:
        # ---- use-units: coordinate leaves scaled to pixels by a known block size
        use = {}
        scal = []
        evs = [ev for ev in f.events(('st', 'decl', 'call', 'ret')) if ev.get('e') is not None]
        for ev in evs:
            for x in subexprs(ev['e']):
                if x[0] != 'b' or x[1] not in ('<<', '*'):
                    continue
                for a, b in ((x[2], x[3]), (x[3], x[2])):
                    if x[1] == '<<' and a is x[3]:
                        continue
                    d = U.logsize(b, f, ev) if x[1] == '<<' else U.size(b, f, ev)
                    if d is None or (strip(b)[0] == 'l' and x[1] == '*'):
                        # x * 64 with a bare literal is too common outside grid arithmetic (strides, Q6 scaling): not evidence
                        continue
                    if x[1] == '<<' and strip(b)[0] == 'l':
                        continue
                    ls = leaves(a)
                    if ls:
                        scal.append((ev, x, a, d))
                    for l_ in ls:
                        use.setdefault(lkey(l_), set()).add(d)
        if not use and not any('pic_width_in_sb' in str(ev['e']) or 'sb_width' in str(ev['e']) for ev in evs[:0]):
            pass
        touched = False
        seen_sum = set()
        for ev in evs:
            for x in subexprs(ev['e']):
                # ---- K1: linearisation  y * W + x
                if x[0] == 'b' and x[1] in ('+', '-') and id(x) not in seen_sum:
                    for y in subexprs(x):
                        if y is not x and y[0] == 'b' and y[1] in ('+', '-'):
                            pass
                    S = summands(x)
                    def mark(n_):
                        n_ = strip(n_)
                        if n_ and n_[0] == 'b' and n_[1] in ('+', '-'):
                            seen_sum.add(id(n_)); mark(n_[2]); mark(n_[3])
                    mark(x)
                    muls = [s_ for s_ in S if s_ and s_[0] == 'b' and s_[1] == '*']
                    for m_ in muls:
                        fa, fb = strip(m_[2]), strip(m_[3])
                        ua, ub = U.unit(fa, f, ev), U.unit(fb, f, ev)
                        if ua is None and ub is None:
                            continue
                        known = {}
                        if ua:
                            known['%s counted in' % pstr(fa)[:40]] = ua
                        if ub:
                            known['%s counted in' % pstr(fb)[:40]] = ub
                        coords = [l_ for s_ in S if s_ is not m_ for l_ in leaves(s_)] + leaves(fa if ub else fb) + (leaves(fb) if ua and ub else [])
                        for c_ in coords:
                            uc = U.unit(c_, f, ev)
                            if uc:
                                known['%s counted in' % pstr(c_)[:40]] = uc
                            for d in use.get(lkey(c_), ()):
                                known['%s scaled to pixels by' % pstr(c_)[:40]] = d if ('%s scaled to pixels by' % pstr(c_)[:40]) not in known or known['%s scaled to pixels by' % pstr(c_)[:40]] == d else 'CONFLICT'
                        if len(known) < 2:
                            continue
                        stats['linearisations'] += 1
                        touched = True
                        ok = len(set(known.values())) == 1
                        nob += 1
                        rep.ob('C24.UNITS', 'lin:%s@%s' % (f.name, pstr(m_)[:60]), ok, f.loc(ev),
                               ('linearisation %s: all quantities in units of %s' % (pstr(x)[:70], sorted(set(known.values()))[0])) if ok else
                               'linearisation %s mixes block sizes: %s' % (pstr(x)[:70], '; '.join('%s %s' % kv for kv in sorted(known.items()))))
                # ---- K3: pixel scaling of a count defined in another unit
                if x[0] == 'b' and x[1] in ('<<', '*'):
                    for a, b in ((x[2], x[3]), (x[3], x[2])):
                        if x[1] == '<<' and a is x[3]:
                            continue
                        d = U.logsize(b, f, ev) if x[1] == '<<' else U.size(b, f, ev)
                        if d is None or strip(b)[0] == 'l':
                            continue
                        defs = {}
                        for l_ in leaves(a):
                            ul = U.unit(l_, f, ev)
                            if ul:
                                defs[pstr(l_)[:40]] = ul
                        if not defs:
                            continue
                        stats['scalings'] += 1
                        touched = True
                        ok = set(defs.values()) == {d}
                        nob += 1
                        rep.ob('C24.UNITS', 'scale:%s@%s' % (f.name, pstr(x)[:60]), ok, f.loc(ev),
                               ('%s: count and scale both in %s' % (pstr(x)[:60], d)) if ok else
                               '%s scales by %s a quantity counted in %s' % (pstr(x)[:60], d, defs))
            # ---- K5: de-linearisation  n = i % W  /  n = i / W, n later scaled to pixels
            e = ev['e']
            name, rhs = (ev['n'], e) if ev['k'] == 'decl' else ((strip(e[2])[1], e[3]) if ev['k'] == 'st' and e[0] == 'a' and e[1] == '=' and strip(e[2])[0] == 'v' else (None, None))
            if name:
                r = strip(rhs)
                if r and r[0] == 'b' and r[1] in ('%', '/'):
                    uw = U.unit(r[3], f, ev)
                    us = use.get(('v', name), set())
                    if uw and us:
                        stats['delinearisations'] += 1
                        touched = True
                        ok = us == {uw}
                        nob += 1
                        rep.ob('C24.UNITS', 'delin:%s@%s' % (f.name, name), ok, f.loc(ev),
                               ('%s = %s: stride and pixel scaling both in %s' % (name, pstr(r)[:50], uw)) if ok else
                               '%s = %s splits an index with a stride counted in %s, but %s is scaled to pixels by %s' % (name, pstr(r)[:50], uw, name, sorted(us)))
        if touched:
            stats['functions'] += 1
    rep.analysed['units'] = stats
    rep.floor('C24.UNITS', 8)
