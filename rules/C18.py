"""C18 - frame quantizers stay within the configured QP bounds: every value of the two per-picture quantizer cells that can
reach the hand-off to the coding stages is a clamp idiom over the configured bounds (or the configured QP itself).

  C18.HANDOFF  abstract interpretation of rate_control_kernel and recode_loop_decision_maker over the cells
               base_q_idx (QuantizationParams.base_q_idx) and picture_qp (PictureControlSet.picture_qp): at every hand-off
               (svt_post_full_object in the kernel, every exit of the recode decision) the set of abstract values reaching the
               cell contains no UNKNOWN.  Abstract values: CLAMP_IDX = CLIP3(qindex[min_qp_allowed], qindex[max_qp_allowed], .),
               CLAMP_QP = CLIP3(min_qp_allowed, max_qp_allowed, .), IDX(v) = quantizer_to_qindex[picture_qp] with picture_qp in
               state v (monotone table), CONFIG = static_config.qp, ENTRY = the value handed in by the previous stage,
               UNKNOWN = anything else, in particular the cell after a callee that may store it
  C18.TABLE    every subscript of the 64-entry table quantizer_to_qindex[] is a configured bound / configured QP, a picture_qp
               in a non-UNKNOWN state, a loop counter bounded by the table size, or a local / parameter all of whose
               reaching definitions are such values
  C18.UPSTREAM every store to a picture_qp cell outside the rate-control code is a copy of the other picture_qp cell, the
               configured QP, or a caller-supplied per-picture QP that was range-tested with a leaving / replacing branch
"""
from engine.facts import is_lit, pstr, strip, callee_name, subexprs, fields_in, last_field, root_of, AnalysisBroken
from engine.classes import Classes
from engine.reach import reaching

PID = 'C18'

META = {
    'technique': 'forward abstract interpretation (clamp-idiom lattice) of the two quantizer cells over the event-CFG of the rate-control kernel and the recode decision, with callee may-store summaries from the call graph and reaching-definition classification of locals; table-subscript classification; who-writes inventory of the cells',
    'text': 'Decides that on every path through the rate-control kernel and the recode decision the frame quantizer index and the picture QP that are handed to the coding stages were last produced by a clamp to the configured [min_qp_allowed, max_qp_allowed] (or are the configured QP of the fixed-QP mode), for every rate-control mode and every branch - deleting a clamp, adding a late tweak after it, or assigning from an unclamped helper is reported with the path. It does not decide that the clamped values are the right ones, nor block / segment level deltas. Also decided: the bounds themselves are those the user configured - for every rate-control mode copy_api_from_app takes min/max_qp_allowed over from the caller (the full-range override is reachable only for fixed-QP encoding).',
    'note': 'the qp-file path stores a caller-supplied per-picture QP after only logging that it is out of range: recorded finding; svt_av1_set_quantizer is dead code and ignored',
    'ref': 'DESIGN.md section 5 C18',
}

BQ = 'QuantizationParams.base_q_idx'
PQ = 'PictureControlSet.picture_qp'
PPQ = 'PictureParentControlSet.picture_qp'
CFG_QP = 'EbSvtAv1EncConfiguration.qp'
CFG_MIN = 'EbSvtAv1EncConfiguration.min_qp_allowed'
CFG_MAX = 'EbSvtAv1EncConfiguration.max_qp_allowed'
TABLE = 'quantizer_to_qindex'
GOOD = ('CLAMP_IDX', 'CLAMP_QP', 'CONFIG', 'ENTRY', 'IDX(CLAMP_QP)', 'IDX(CONFIG)', 'IDX(ENTRY)', 'IDXBOUND', 'BOUND', 'RESET', 'QP_OF(CLAMP_IDX)')


def clip3(e):
    """(lo, hi, x) if e is CLIP3(lo, hi, x) = (x < lo) ? lo : ((x > hi) ? hi : x)"""
    e = strip(e)
    if not e or e[0] != 'q':
        return None
    c, t, f = strip(e[1]), strip(e[2]), strip(e[3])
    if not c or c[0] != 'b' or c[1] != '<' or not f or f[0] != 'q':
        return None
    x, lo = strip(c[2]), strip(c[3])
    if pstr(t) != pstr(lo):
        return None
    c2, t2, f2 = strip(f[1]), strip(f[2]), strip(f[3])
    if not c2 or c2[0] != 'b' or c2[1] != '>' or pstr(strip(c2[2])) != pstr(x) or pstr(strip(c2[3])) != pstr(t2) or pstr(f2) != pstr(x):
        return None
    return lo, t2, x


def is_table(e, fld):
    """e == quantizer_to_qindex[<static_config>.fld]"""
    e = strip(e)
    return bool(e) and e[0] == 'i' and strip(e[1]) and strip(e[1])[0] == 'v' and strip(e[1])[1] == TABLE and last_field(strip(e[2])) == fld


def bounded(f, ev, name):
    """`name` is below the table size at `ev`: an enclosing loop / if condition  name < K (K <= 64),  name <= K (K <= 63)
    or  name <= <static_config>.max_qp_allowed"""
    for kind, cond, line in f.ctl_chain(ev):
        if kind in ('for', 'while', 'if') and cond is not None:
            for y in subexprs(strip(cond)):
                if y[0] == 'b' and y[1] in ('<', '<=') and pstr(strip(y[2])) == name:
                    if is_lit(y[3]) and strip(y[3])[1] + (y[1] == '<=') <= 64:
                        return True
                    if y[1] == '<=' and last_field(strip(y[3])) == CFG_MAX:
                        return True
    return False


BITS = {'uint8_t': 8, 'int8_t': 8, 'char': 8, 'unsigned char': 8, 'EbBool': 8, 'uint16_t': 16, 'int16_t': 16, 'short': 16, 'unsigned short': 16,
        'int': 32, 'int32_t': 32, 'uint32_t': 32, 'unsigned int': 32, 'unsigned': 32, 'int64_t': 64, 'uint64_t': 64, 'long': 64, 'unsigned long': 64, 'size_t': 64}


def run(P, rep, tier):
    C = Classes(P)
    _ft = {}
    for rn, r in P.records.items():
        for fd in r.get('fields', ()):
            _ft[rn + '.' + fd['n']] = fd.get('t', '')

    def arg_bits(f, a):
        """width of the C type of an argument expression (declared types of locals / parameters / members; arithmetic is int)"""
        a0 = a
        while a0 and a0[0] == 'k':
            t = a0[1].replace('const ', '').strip()
            if t in BITS:
                return BITS[t]                  # an explicit cast states the width
            a0 = a0[2]
        a = strip(a)
        if not a:
            return 32
        if a[0] == 'v':
            for pn, pt in f.params:
                if pn == a[1]:
                    return BITS.get(pt.replace('const ', '').strip(), 32)
            for d in f.events(('decl',)):
                if d['n'] == a[1]:
                    return BITS.get(d.get('t', '').replace('const ', '').strip(), 32)
            return 32
        if a[0] == 'm':
            return BITS.get(_ft.get(a[1], '').replace('const ', '').strip(), 32)
        if a[0] == 'u' and a[1] == '*':
            b = strip(a[2])
            if b[0] == 'v':
                for pn, pt in f.params:
                    if pn == b[1]:
                        return BITS.get(pt.replace('const ', '').replace('*', '').strip(), 32)
            return 32
        if a[0] == 'l':
            return 8 if 0 <= a[1] <= 255 else 32
        if a[0] == 'i':
            return 8 if strip(a[1])[0] == 'v' and strip(a[1])[1] == TABLE else 32
        return 32
    rck = P.fn('rate_control_kernel')
    recode = P.fn('recode_loop_decision_maker')
    enc = [f for f in P.fns if f.lib == 'Encoder' and not f.nocfg and f not in C.dead]
    # may-store summaries
    direct = {}
    for f in enc:
        for ev in f.events(('st',)):
            e = ev['e']
            if e[0] in ('a', 'u'):
                lf = last_field(strip(e[2]))
                if lf in (BQ, PQ):
                    direct.setdefault(f, set()).add(lf)
    cg = P.callgraph()
    may = {}

    def may_store(f, seen=None):
        if f in may:
            return may[f]
        seen = seen or set()
        if f in seen:
            return set()
        seen.add(f)
        s = set(direct.get(f, ()))
        for g in cg.get(f, ()):
            if g.lib == 'Encoder' and g not in C.dead:
                s |= may_store(g, seen)
        may[f] = s
        return s
    rep.explanation = ('cells: %s, %s; direct writers: %s' % (BQ, PQ, sorted(f.name for f in direct)))
    rep.analysed = {'direct_writers': sorted(f.name for f in direct)}
    rep.assumptions = ['quantizer_to_qindex[] is monotone, so an index taken from a clamped QP lies between the indices of the bounds',
                       'static_config.qp / min_qp_allowed / max_qp_allowed are validated by verify_settings (C12)',
                       'one picture per kernel iteration: the cells are addressed through that picture\'s control sets']

    def classify(f, at, e, state, depth=0):
        """set of abstract tags for expression e evaluated before event `at`"""
        e = strip(e)
        if e is None or depth > 8:
            return {'UNKNOWN:unresolved'}
        c3 = clip3(e)
        if c3:
            lo, hi, x = c3
            if is_table(lo, CFG_MIN) and is_table(hi, CFG_MAX):
                return {'CLAMP_IDX'}
            if last_field(lo) == CFG_MIN and last_field(hi) == CFG_MAX and strip(lo)[0] == 'm' and strip(hi)[0] == 'm':
                # QP recomputed from a clamped index stays a clamp
                return {'CLAMP_QP'}
            return {'UNKNOWN:clip to other bounds %s..%s' % (pstr(lo)[:30], pstr(hi)[:30])}
        if e[0] == 'l':
            return {'RESET'} if 0 <= e[1] <= 255 else {'UNKNOWN:literal'}
        if e[0] == 'c':
            # clamp helper: a function each of whose returns is CLIP3(bounds, parameter).  The clamp only means something if the
            # value reaches it unconverted: an arithmetic argument handed to a parameter narrower than int wraps first.
            n = callee_name(e)
            tg = [g for g in (P.resolve(n, f) if n else []) if not g.nocfg]
            if len(tg) == 1:
                g = tg[0]
                rets = [r for r in g.events(('ret',)) if r.get('e') is not None]
                c3s = [clip3(strip(r['e'])) for r in rets]
                if rets and all(c3s):
                    kinds = set()
                    for lo, hi, x in c3s:
                        if is_table(lo, CFG_MIN) and is_table(hi, CFG_MAX):
                            kind = 'CLAMP_IDX'
                        elif last_field(lo) == CFG_MIN and last_field(hi) == CFG_MAX:
                            kind = 'CLAMP_QP'
                        else:
                            kind = 'UNKNOWN:%s clips to other bounds' % g.name
                        x = strip(x)
                        if x[0] == 'v' and x[2].startswith('p') and x[2][1:].isdigit() and int(x[2][1:]) < len(e[2]):
                            i = int(x[2][1:])
                            pt = g.params[i][1].replace('const ', '').strip()
                            a = strip(e[2][i])
                            if BITS.get(pt, 32) < arg_bits(f, a):
                                kind = 'UNKNOWN:%s is converted to %s before %s clamps it (a value outside the range of %s wraps and is clamped to the wrong end)' % (pstr(a)[:40], pt, g.name, pt)
                        kinds.add(kind)
                    return kinds
        if e[0] == 'i' and strip(e[1]) and strip(e[1])[0] == 'v' and strip(e[1])[1] == TABLE:
            sub = classify(f, at, e[2], state, depth + 1)
            out = set()
            for t in sub:
                if t in ('CLAMP_QP', 'CONFIG', 'ENTRY', 'BOUND'):
                    out.add('IDX(%s)' % ('CONFIG' if t == 'BOUND' else t))
                else:
                    out.add('UNKNOWN:table index %s' % t)
            return out
        if e[0] == 'm':
            if e[1] == CFG_QP:
                return {'CONFIG'}
            if e[1] in (CFG_MIN, CFG_MAX):
                return {'BOUND'}
            if e[1] == PQ:
                return set(state[1])
            if e[1] == PPQ:
                return {'ENTRY'}
            if e[1] == BQ:
                return set(state[0])
            return {'UNKNOWN:%s' % e[1]}
        if e[0] == 'v' and e[2] not in ('g', 's'):
            defs = reaching(f).at(at, e[1])
            out = set()
            if not defs:
                return {'UNKNOWN:undefined %s' % e[1]}
            for d in defs:
                if isinstance(d, tuple):
                    out.add('UNKNOWN:parameter %s' % e[1])
                    continue
                de = d.get('e')
                if d['k'] == 'call' or de is None:
                    out.add('UNKNOWN:%s set by callee / uninitialised' % e[1])
                elif d['k'] == 'decl':
                    out |= classify(f, d, de, state_at(f, d), depth + 1)
                elif de[0] == 'a' and de[1] == '=':
                    out |= classify(f, d, de[3], state_at(f, d), depth + 1)
                else:
                    out.add('UNKNOWN:%s stepped at line %d' % (e[1], d['l']))
            return out
        return {'UNKNOWN:%s' % pstr(e)[:40]}

    flows = {}

    def state_at(f, ev):
        if f.key not in flows:
            return (frozenset(['ENTRY']), frozenset(['ENTRY']))
        ins, tr = flows[f.key]
        st = f.state_at(ins, tr, ev)
        return st if st is not None else (frozenset(['ENTRY']), frozenset(['ENTRY']))

    def analyse(f):
        def tr(ev, st):
            bq, pq = st
            e = ev.get('e')
            if ev['k'] == 'st' and e[0] in ('a', 'u'):
                lf = last_field(strip(e[2]))
                if lf in (BQ, PQ):
                    if e[0] == 'a' and e[1] == '=':
                        tags = frozenset(classify(f, ev, e[3], st))
                    else:
                        tags = frozenset(['UNKNOWN:%s at line %d' % (pstr(e)[:40], ev['l'])])
                    # QP derived from an already clamped index: (base_q_idx + 2) >> 2 inside CLIP3(min,max,.) is CLAMP_QP (handled by clip3)
                    return (tags, pq) if lf == BQ else (bq, tags)
            elif ev['k'] == 'call':
                n = callee_name(e)
                tg = P.resolve(n, f) if n else P.call_targets(f, ev)
                ms = set()
                for g in tg:
                    if g.lib == 'Encoder' and g not in C.dead:
                        ms |= may_store(g)
                if BQ in ms:
                    bq = frozenset(['UNKNOWN:after %s (line %d), which may store base_q_idx' % (n, ev['l'])])
                if PQ in ms:
                    pq = frozenset(['UNKNOWN:after %s (line %d), which may store picture_qp' % (n, ev['l'])])
                return (bq, pq)
            return st
        init = (frozenset(['ENTRY']), frozenset(['ENTRY']))
        flows[f.key] = ({}, tr)      # classify() of locals during the fixpoint uses ENTRY for not-yet-known points
        ins, outs = f.forward(init, tr, meet=lambda a, b: (a[0] | b[0], a[1] | b[1]))
        flows[f.key] = (ins, tr)
        # second pass with the stabilised in-states (locals classified against real states)
        ins, outs = f.forward(init, tr, meet=lambda a, b: (a[0] | b[0], a[1] | b[1]))
        flows[f.key] = (ins, tr)
        return ins, tr

    # ---------------- HANDOFF
    analyse(rck)
    nh = 0
    for ev, n in rck.calls('svt_post_full_object'):
        st = state_at(rck, ev)
        nh += 1
        for cell, tags in ((BQ, st[0]), (PQ, st[1])):
            bad = sorted(t for t in tags if t.startswith('UNKNOWN'))
            rep.ob('C18.HANDOFF', 'rate_control_kernel/post#%d/%s' % (nh, cell.split('.')[1]), not bad, rck.loc(ev),
                   ('%s at this hand-off is one of %s' % (cell, sorted(tags))) if not bad else
                   ('%s can reach this hand-off without having been clamped to the configured bounds: %s' % (cell, '; '.join(b[8:] for b in bad)[:300])))
    analyse(recode)
    nx = 0
    for ev in recode.events(('ret',)):
        st = state_at(recode, ev)
        nx += 1
        for cell, tags in ((BQ, st[0]), (PQ, st[1])):
            bad = sorted(t for t in tags if t.startswith('UNKNOWN'))
            rep.ob('C18.HANDOFF', 'recode_loop_decision_maker/exit#%d/%s' % (nx, cell.split('.')[1]), not bad, recode.loc(ev),
                   ('%s at this exit is one of %s' % (cell, sorted(tags))) if not bad else
                   ('%s can leave the recode decision unclamped: %s' % (cell, '; '.join(b[8:] for b in bad)[:300])))
    # the exit of a void function without return statement
    if nx == 0:
        ex = recode.blocks[recode.exit]
        for p in recode.preds().get(recode.exit, []):
            st = flows[recode.key][0].get(p)
            if st is None:
                continue
            # state at end of predecessor block
            s2 = st
            for e2 in recode.blocks[p]['ev']:
                s2 = flows[recode.key][1](e2, s2)
            nx += 1
            for cell, tags in ((BQ, s2[0]), (PQ, s2[1])):
                bad = sorted(t for t in tags if t.startswith('UNKNOWN'))
                rep.ob('C18.HANDOFF', 'recode_loop_decision_maker/exit#%d/%s' % (nx, cell.split('.')[1]), not bad, recode.loc(),
                       ('%s at the function end is one of %s' % (cell, sorted(tags))) if not bad else
                       ('%s can leave the recode decision unclamped: %s' % (cell, '; '.join(b[8:] for b in bad)[:300])))
    rep.floor('C18.HANDOFF', 6)

    # ---------------- TABLE
    nt = {}
    for f in enc:
        for ev in f.events(('ix',)):
            b = strip(ev['e'])
            if not (b and b[0] == 'v' and b[1] == TABLE):
                continue
            ix = strip(ev['i'])
            k = (f.name, pstr(ix))
            nt[k] = nt.get(k, 0) + 1
            if nt[k] > 1:
                continue
            st = state_at(f, ev) if f.key in flows else (frozenset(['ENTRY']), frozenset(['ENTRY']))
            tags = classify(f, ev, ix, st)
            # counters bounded by the table size or by the configured maximum (loop condition or enclosing if)
            if any(t.startswith('UNKNOWN') for t in tags) and ix[0] == 'v' and bounded(f, ev, ix[1]):
                tags = {'BOUND'}
            # parameters: every call site passes a good value
            if any(t.startswith('UNKNOWN:parameter') for t in tags) and ix[0] == 'v':
                pi = [i for i, (pn, pt) in enumerate(f.params) if pn == ix[1]]
                sites = [(g, cev) for g, cev in P.call_sites(f.name) if g not in C.dead]
                if pi and sites:
                    tt = set()
                    for g, cev in sites:
                        a = strip(cev['e'][2][pi[0]])
                        if a[0] == 'v' and bounded(g, cev, a[1]):
                            tt.add('BOUND')
                        else:
                            tt |= classify(g, cev, a, state_at(g, cev))
                    tags = {t for t in tags if not t.startswith('UNKNOWN:parameter')} | tt
            bad = sorted(t for t in tags if t.startswith('UNKNOWN'))
            rep.ob('C18.TABLE', '%s/%s[%s]' % (f.name, TABLE, pstr(ix)[:40]), not bad, f.loc(ev),
                   ('subscript is %s' % sorted(tags)) if not bad else ('subscript of the 64-entry table is not bounded by a clamp / configured value: %s' % '; '.join(b[8:] for b in bad)[:240]))
    rep.floor('C18.TABLE', 12)

    # ---------------- UPSTREAM
    rc_fns = P.reachable_from([rck]) | {recode}
    nu = 0
    for f in enc:
        if f in rc_fns and f is not P.fn('picture_manager_kernel', required=False):
            if f.name not in ('resource_coordination_kernel', 'picture_manager_kernel'):
                continue
        for ev in f.events(('st',)):
            e = ev['e']
            if e[0] not in ('a', 'u'):
                continue
            lf = last_field(strip(e[2]))
            if lf not in (PQ, PPQ):
                continue
            nu += 1
            rhs = strip(e[3]) if e[0] == 'a' and e[1] == '=' else None
            ok, why = False, 'not a plain copy / configured value'
            if rhs is not None:
                rl = last_field(rhs) if rhs[0] == 'm' else None
                if rl in (PQ, PPQ):
                    ok, why = True, 'copy of %s' % rl
                elif rl == CFG_QP:
                    ok, why = True, 'configured QP'
                elif clip3(rhs):
                    ok, why = True, 'clamped'
                elif rl == 'EbBufferHeaderType.qp':
                    # caller-supplied per-picture QP: must be range-tested on this path with a branch that does not store it
                    tested = False
                    for kind, cond, line in f.ctl_chain(ev):
                        if cond is not None and 'EbBufferHeaderType.qp' in fields_in(cond) and kind in ('if', 'else'):
                            c = strip(cond)
                            # the store must sit on the in-range side: `if (qp <= MAX)` then-branch or `if (qp > MAX)` else-branch
                            if c[0] == 'b' and ((c[1] in ('<=', '<') and kind == 'if') or (c[1] in ('>', '>=') and kind == 'else')):
                                tested = True
                    ok = tested
                    why = 'caller-supplied per-picture QP (qp file) %s' % ('stored only on the in-range side of its range test' if tested else
                          'stored whatever its value: the range test only logs a warning, and picture_qp then indexes quantizer_to_qindex[64] out of bounds')
            rep.ob('C18.UPSTREAM', '%s/%s<-%s' % (f.name, lf.split('.')[0], pstr(rhs)[:40] if rhs is not None else pstr(e)[:40]), ok, f.loc(ev), why)
    rep.floor('C18.UPSTREAM', 4)

    # ---------------- PLUMB: the bounds the clamps use are the bounds the user configured, in every rate-control mode (the
    # property's quantifier includes mode 0 with QP scaling).  Decided by conditional constant propagation of copy_api_from_app
    # under rate_control_mode = 0, 1, 2.  Mode 0 replaces them by 1..63 today: replayed, known finding (design decision).
    from rules.C20 import sccp, _ev
    cap = P.fn('copy_api_from_app')
    RCM = 'EbSvtAv1EncConfiguration.rate_control_mode'
    npl = 0
    for mode in (0, 1, 2):
        ins, tr = sccp(cap, {RCM: mode})
        for fld in (CFG_MIN, CFG_MAX):
            sts = [ev for ev in cap.events(('st',)) if ev['e'][0] == 'a' and strip(ev['e'][2])[0] == 'm' and strip(ev['e'][2])[1] == fld and ev['b'] in ins]
            if not sts:
                rep.ob('C18.PLUMB', 'copy_api_from_app/%s|rc=%d' % (fld.split('.')[1], mode), False, cap.loc(),
                       'with rate_control_mode = %d no store to static_config.%s is reachable: the configured bound is never taken over' % (mode, fld.split('.')[1]))
                npl += 1
                continue
            for ev in sts:
                npl += 1
                val = _ev(ev['e'][3], {RCM: mode}, dict(cap.state_at(ins, tr, ev) or ()))
                ok = val is None and fld in fields_in(ev['e'][3])
                rep.ob('C18.PLUMB', 'copy_api_from_app/%s|rc=%d' % (fld.split('.')[1], mode), ok, cap.loc(ev),
                       ('with rate_control_mode = %d static_config.%s is the caller\'s value' % (mode, fld.split('.')[1])) if ok else
                       ('with rate_control_mode = %d static_config.%s evaluates to %s instead of the caller\'s value: every clamp then uses bounds the user did not configure'
                        % (mode, fld.split('.')[1], val if val is not None else pstr(strip(ev['e'][3]))[:40])))
    rep.floor('C18.PLUMB', 4)
