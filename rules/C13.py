"""C13 - the library's default configuration is complete and well-defined.

  C13.COMPLETE  every member of EbSvtAv1EncConfiguration that the library reads from the *caller's* structure
                (copy_api_from_app and everything else reached from svt_av1_enc_set_parameter with the caller's pointer)
                is stored by svt_svt_enc_init_parameter on every path to its normal return - unless every such read is
                control-dependent on another member that is defaulted to the disabling literal
  C13.STRAIGHT  the default function has no branch besides the NULL guard (so "stored" = stored on every path)
  C13.ACCEPTED  substituting the default values (plus a documented valid source_width/height, which the caller must set)
                into copy_api_from_app + verify_settings (evaluated over the extracted CFGs, C integer semantics)
                yields no rejection, for several prior contents of the caller's memory being irrelevant by COMPLETE
"""
from engine.facts import pstr, strip, callee_name, subexprs, fields_in, last_field, root_of, AnalysisBroken
from engine.cinterp import Machine, V, Unknown, Unsupported, UB

PID = 'C13'

META = {
    'technique': 'def-use over the type-resolved configuration struct (stores of the default function vs loads from the caller pointer, with structured control dependence) + constant evaluation of the extracted copy/verify CFGs on the default values',
    'text': 'Decides that every configuration member the library reads from the caller is given a value by handle creation on every path (so prior memory contents cannot matter), and that the defaults, pushed through the extracted copy_api_from_app and verify_settings control-flow graphs with C integer semantics, are not rejected. Quantifies over all prior memory contents by construction (a member is either always written or flagged), which no finite set of runs can.',
    'note': 'source_width/source_height are documented as mandatory caller settings (doc default "None") and are supplied as 640x480 for the acceptance evaluation; the evaluator covers the closed expression language of the configuration code and reports anything outside it as analysis broken',
    'ref': 'DESIGN.md section 5 C13',
}

CFG = 'EbSvtAv1EncConfiguration'
DEFAULT_FN = 'svt_svt_enc_init_parameter'
COPY_FN = 'copy_api_from_app'


def member_of(e):
    """(top-level member name, rest) for an access path through the configuration struct, else None."""
    chain = []
    x = strip(e)
    while x:
        if x[0] == 'm':
            chain.append(x[1])
            x = strip(x[3])
        elif x[0] == 'i':
            x = strip(x[1])
        elif x[0] == 'u' and x[1] in ('*', '&'):
            x = strip(x[2])
        else:
            break
    for fid in reversed(chain):
        if fid.startswith(CFG + '.'):
            return fid.split('.', 1)[1]
    return None


def run(P, rep, tier):
    rec = P.record(CFG)
    members = [f['n'] for f in rec['fields']]
    if len(members) < 100:
        raise AnalysisBroken('%s has only %d members' % (CFG, len(members)))
    d = P.fn(DEFAULT_FN)
    c = P.fn(COPY_FN)
    setp = P.fn('svt_av1_enc_set_parameter')
    rep.explanation = ('Members of %s: %d (from the AST). Stores of %s are matched against loads through the caller pointer in %s; '
                       'the default values are then evaluated through the extracted CFGs of %s and verify_settings.' %
                       (CFG, len(members), DEFAULT_FN, COPY_FN, COPY_FN))
    rep.analysed = {'members': len(members), 'default_fn': d.loc(), 'copy_fn': c.loc()}
    rep.assumptions = ['the caller sets source_width/source_height (documented as mandatory)', 'clang constant evaluation of enumerators/macros']

    # ---------------- STRAIGHT: only branches are the NULL guard of the parameter (and do{}while(0) macro bodies)
    pname = d.params[0][0]
    branches = [b for bid, b in d.blocks.items() if bid in d.reach() and len([s for s in b['succ'] if s is not None]) > 1]
    odd = [b for b in branches if not (b.get('cond') is not None and pstr(strip(b['cond'])).replace('!', '').replace('(', '').replace(')', '')
                                        .replace(' == 0', '').replace(' != 0', '') == pname)]
    rep.ob('C13.STRAIGHT', DEFAULT_FN + '/straight-line', not odd, d.loc(),
           'default function branches only on its NULL guard' if not odd else 'conditional default at line %s' % odd[0].get('tl'))

    # ---------------- stores of the default function
    stored = {}
    for ev in d.events(('st', 'call')):
        if ev['k'] == 'st' and ev['e'][0] == 'a':
            m = member_of(ev['e'][2])
            r = root_of(strip(ev['e'][2]))
            if m and r is not None and r[1] == pname:
                stored.setdefault(m, []).append(ev)
        elif ev['k'] == 'call':
            n = callee_name(ev['e'])
            if n in ('memset', 'memcpy') and ev['e'][2]:
                a0 = strip(ev['e'][2][0])
                m = member_of(a0)
                r = root_of(a0)
                if r is not None and r[1] == pname:
                    if m:
                        stored.setdefault(m, []).append(ev)
                    elif a0[0] == 'v':
                        for mm in members:
                            stored.setdefault(mm, []).append(ev)
    # helpers: an unconditional call that hands the configuration pointer to a straight-line function of this file which stores
    # members through that parameter (a group of defaults moved into `static void set_default_x(cfg)`)
    for ev in d.events(('call',)):
        n = callee_name(ev['e'])
        if not n or d.ctl_chain(ev):
            continue
        for g in P.resolve(n, d):
            if g.nocfg or g.file != d.file:
                continue
            pos = [i for i, a in enumerate(ev['e'][2]) if strip(a) and strip(a)[0] == 'v' and strip(a)[1] == pname]
            if not pos or pos[0] >= len(g.params):
                continue
            gp = g.params[pos[0]][0]
            if any(len([s_ for s_ in b['succ'] if s_ is not None]) > 1 for bid, b in g.blocks.items() if bid in g.reach()):
                continue                         # a branching helper does not store "on every path"
            for sev in g.events(('st',)):
                if sev['e'][0] == 'a':
                    m = member_of(sev['e'][2])
                    r = root_of(strip(sev['e'][2]))
                    if m and r is not None and r[1] == gp:
                        stored.setdefault(m, []).append(sev)
    # sub-members for struct-typed members
    sub = {}
    for f in rec['fields']:
        if f.get('rec') and not f.get('ptr') and f['rec'] in P.records:
            sub[f['n']] = [x['n'] for x in P.records[f['rec']]['fields']]

    def fully_stored(m):
        evs = stored.get(m, [])
        if not evs:
            return False
        if m in sub and not any(ev['k'] == 'call' or last_field(strip(ev['e'][2])) == CFG + '.' + m for ev in evs):
            got = {last_field(strip(ev['e'][2])).split('.', 1)[1] for ev in evs if ev['k'] == 'st'}
            return set(sub[m]) <= got
        fld = [f for f in rec['fields'] if f['n'] == m][0]
        dims = fld.get('dims')
        if dims and not any(ev['k'] == 'call' for ev in evs):
            idx = set()
            for ev in evs:
                t = strip(ev['e'][2])
                while t and t[0] != 'i':
                    t = strip(t[3]) if t[0] == 'm' else None
                if t and strip(t[2])[0] == 'l':
                    idx.add(strip(t[2])[1])
            return dims[0] > 8 or set(range(dims[0])) <= idx
        return True

    # ---------------- loads from the caller's struct
    # the caller pointer inside set_parameter's flow: parameter of copy_api_from_app that receives config_struct
    cfg_param = None
    for ev, n in setp.calls(COPY_FN):
        for i, a in enumerate(ev['e'][2]):
            r = root_of(strip(a))
            if r is not None and r[1] == setp.params[1][0]:
                cfg_param = c.params[i][0]
    if cfg_param is None:
        raise AnalysisBroken('set_parameter no longer passes the caller configuration to ' + COPY_FN)
    reads = {}
    for ev in c.events(('st', 'call', 'decl')):
        e = ev.get('e')
        if e is None:
            continue
        parts = [e[3]] if (ev['k'] == 'st' and e[0] == 'a') else [e]
        if ev['k'] == 'st' and e[0] == 'a' and e[1] != '=':
            parts.append(e[2])
        for p in parts:
            for x in subexprs(p):
                if x[0] == 'm' and x[1].startswith(CFG + '.'):
                    r = root_of(x)
                    if r is not None and r[1] == cfg_param:
                        reads.setdefault(member_of(x), []).append(ev)
    # reads inside branch conditions: taken from the structured control contexts (their own context = the parent's)
    for i, (parent, kind, cond, line) in enumerate(c.ctl):
        if cond is None or kind == 'case':
            continue
        for x in subexprs(cond):
            if x[0] == 'm' and x[1].startswith(CFG + '.'):
                r = root_of(x)
                if r is not None and r[1] == cfg_param:
                    reads.setdefault(member_of(x), []).append({'l': line, 'ctl': parent, 'b': -1, 'x': 0, 'k': 'cond'})
    if len(reads) < 80:
        raise AnalysisBroken('only %d members read from the caller structure' % len(reads))

    def gate(ev):
        """members (of the caller struct) whose value controls this read"""
        g = set()
        for kind, cond, line in c.ctl_chain(ev):
            if cond is None:
                continue
            for x in subexprs(cond):
                if x[0] == 'm' and x[1].startswith(CFG + '.'):
                    g.add(x[1].split('.', 1)[1])
        return g

    default_lit = {}
    for m, evs in stored.items():
        for ev in evs:
            if ev['k'] == 'st' and strip(ev['e'][3]) and strip(ev['e'][3])[0] == 'l' and last_field(strip(ev['e'][2])) == CFG + '.' + m:
                default_lit[m] = strip(ev['e'][3])[1]
    for m in sorted(reads):
        evs = reads[m]
        ok = fully_stored(m)
        why = 'stored by the default function'
        if not ok:
            # every read gated by a member defaulted to 0 (the disabling literal)?
            gates = [gate(ev) - {m} for ev in evs]
            if all(any(default_lit.get(g) == 0 and fully_stored(g) for g in gs) for gs in gates):
                ok = True
                why = 'not defaulted, but every read is control-dependent on %s which is defaulted to 0' % sorted(set.union(*gates))
                rep.exempt('C13.COMPLETE', m, why)
            else:
                why = 'read from the caller structure at %s but never stored by %s' % (c.loc(evs[0]), DEFAULT_FN)
        rep.ob('C13.COMPLETE', 'member:' + m, ok, c.loc(evs[0]), why)
    for m in members:
        if m not in reads and not fully_stored(m):
            rep.note('member %s is neither defaulted nor read from the caller (informational)' % m)
    rep.floor('C13.COMPLETE', 80)

    # ---------------- ACCEPTED
    for prior in (0, 0xFF, 0x5A):
        M = Machine(P)
        # prior contents of the caller memory: every scalar member pre-filled (irrelevant if COMPLETE holds)
        for f in rec['fields']:
            if 'bits' in f and not f.get('dims'):
                fill = int.from_bytes(bytes([prior]) * (f['bits'] // 8), 'little')
                M.mem[('CFG', f['n'])] = V(fill, f['bits'], f['signed'])
        try:
            r = M.run(d, {d.params[0][0]: ('CFG',)})
            if r.v != 0:
                rep.ob('C13.ACCEPTED', 'prior=0x%02X/default-fn-returns-ok' % prior, False, d.loc(), 'default function returns %d' % r.v)
                continue
            M.mem[('CFG', 'source_width')] = V(640, 32, False)
            M.mem[('CFG', 'source_height')] = V(480, 32, False)
            M.run(c, {c.params[0][0]: ('SCS',), cfg_param: ('CFG',)})
            v = P.fn('verify_settings', 'EbEncHandle.c')
            r = M.run(v, {v.params[0][0]: ('SCS',)})
            rep.ob('C13.ACCEPTED', 'prior=0x%02X/defaults-accepted' % prior, r.v == 0, v.loc(),
                   'verify_settings evaluated on the defaults (640x480) returns %d' % r.v)
        except Unknown as e:
            rep.ob('C13.ACCEPTED', 'prior=0x%02X/defaults-accepted' % prior, False, d.loc(),
                   'evaluation needs a value the defaults do not define: %s' % e)
        except UB as e:
            rep.ob('C13.ACCEPTED', 'prior=0x%02X/defaults-accepted' % prior, False, d.loc(),
                   'evaluating copy/verify on the returned defaults hits undefined behaviour: %s' % e)
        except Unsupported as e:
            raise AnalysisBroken('configuration code left the evaluator\'s language: %s' % e)
    rep.floor('C13.ACCEPTED', 3)
