"""C25 - entropy coder round trip: writer and reader agree on their duplicated definitions.

The encoder (Common/Codec/EbBitstreamUnit.[ch], EbCabacContextModel.h) and the decoder (Decoder/Codec/EbDecBitstreamUnit.[ch])
each carry their own copy of the range-coder constants, of the CDF adaptation routine and of the interval-split formula.
If the copies differ the reader cannot recover what the writer wrote.

  C25.CONST  EC_PROB_SHIFT, EC_MIN_PROB, CDF_PROB_BITS, CDF_PROB_TOP, CDF_INIT_TOP, CDF_SHIFT, AOM_ICDF(.), sizeof(AomCdfProb)
             evaluate (clang constant evaluator, one witness TU per side, real flags) to the same values on both sides
  C25.ADAPT  update_cdf (writer) and dec_update_cdf (reader): equal normalised bodies, including the nsymbs2speed table
  C25.SPLIT  the interval-split expression  ((r >> 8) * (f >> S1) >> S2) + M * (N - k)  uses the same constants S1, S2, M (and 8)
             in the writer's and the reader's symbol and boolean coders
  C25.TABLES the default CDF tables have a single definition shared by both sides
"""
from engine import compdb
from engine.facts import pstr, strip, callee_name, subexprs, AnalysisBroken

PID = 'C25'

META = {
    'technique': 'constant evaluation of the duplicated range-coder macros in one witness translation unit per side (clang constant evaluator, real compile flags) + sibling agreement of normalised function bodies and of the interval-split sub-expressions extracted from the writer and the reader',
    'text': 'Decides that the arithmetic writer and reader are instantiated with identical constants, identical CDF adaptation (rate schedule table included) and identical interval-split scaling - the duplicated definitions whose divergence silently breaks every round trip. Does not decide carry propagation, renormalisation or the tell/bit-count estimate (value-level). Also decided: the writer\'s byte and pre-carry buffers keep their contents when they grow (realloc of itself, or a fresh block sized and copied with the buffer\'s own element size).',
    'note': 'the two sides keep separate headers; the witness TUs include each side\'s own headers with that side\'s include paths',
    'ref': 'DESIGN.md section 5 C25',
}

NAMES = ['EC_PROB_SHIFT', 'EC_MIN_PROB', 'CDF_PROB_BITS', 'CDF_PROB_TOP', 'CDF_INIT_TOP', 'CDF_SHIFT']
EXPRS = [('AOM_ICDF_0', 'AOM_ICDF(0)'), ('AOM_ICDF_12345', 'AOM_ICDF(12345)'), ('AOM_ICDF_TOP', 'AOM_ICDF(CDF_PROB_TOP)'),
         ('SIZEOF_CDFPROB', 'sizeof(AomCdfProb)'), ('SPLIT_SHIFT', '7 - EC_PROB_SHIFT - CDF_SHIFT')]


def witness(side):
    inc = {'enc': '#include "EbDefinitions.h"\n#include "EbBitstreamUnit.h"\n#include "EbCabacContextModel.h"\n',
           'dec': '#include "EbDefinitions.h"\n#include "EbDecBitstreamUnit.h"\n'}[side]
    body = ''.join('long long svtw_%s = (long long)(%s);\n' % (n, n) for n in NAMES)
    body += ''.join('long long svtw_%s = (long long)(%s);\n' % (n, e) for n, e in EXPRS)
    like = {'enc': 'Source/Lib/Encoder/Codec/EbEntropyCoding.c', 'dec': 'Source/Lib/Decoder/Codec/EbDecBitstreamUnit.c'}[side]
    d = compdb.extract_witness('c25_' + side, inc + body, like)
    vals = {}
    for g in d['globals']:
        if g['name'].startswith('svtw_'):
            vals[g['name'][5:]] = g.get('val')
    return vals


def norm_body(f, rename):
    """Multiset of normalised statements of a function (casts dropped, given variables renamed)."""
    out = []

    import re as _re
    # alpha-normalisation: parameters by position, locals by order of declaration - a rename on one side is not a difference
    alpha = {pn: 'P%d' % i for i, (pn, pt) in enumerate(f.params)}
    nloc = 0
    for ev in f.events(('decl',)):
        if ev['n'] not in alpha:
            alpha[ev['n']] = 'L%d' % nloc
            nloc += 1
    pat = _re.compile(r'\b(' + '|'.join(_re.escape(k) for k in sorted(alpha, key=len, reverse=True)) + r')\b') if alpha else None

    def nm(e):
        s = pstr(e)
        for a, b in rename.items():
            s = s.replace(a, b)
        if pat is not None:
            s = pat.sub(lambda m: alpha[m.group(1)], s)
        return s
    def is_assert(b):
        return any(ev['k'] == 'call' and '__assert_fail' in pstr(ev['e'][1]) for ev in b['ev'])
    assert_guards = set()     # blocks whose branch only decides whether an assertion fires: not behaviour (absent under NDEBUG)
    for bid in f.reach():
        b = f.blocks[bid]
        if b.get('cond') is not None and any(s is not None and is_assert(f.blocks[s]) for s in b['succ']):
            assert_guards.add(bid)
    for ev in f.events(('st', 'decl', 'ret', 'call')):
        e = ev.get('e')
        if ev['k'] == 'call' and '__assert_fail' in pstr(e[1]):
            continue
        if ev['k'] == 'decl':
            out.append(('decl', alpha.get(ev['n'], ev['n']), nm(e) if e is not None else ''))
        elif e is not None:
            out.append((ev['k'], nm(e)))
    for bid in f.reach():
        c = f.blocks[bid].get('fullcond')
        if c is not None and bid not in assert_guards:
            out.append(('cond', nm(c)))
    return sorted(out)


def split_consts(f):
    """{(8-literal, S1, S2)} and {M} from sub-expressions ((r >> A) * (x >> S1)) >> S2   and  M * (N - k)."""
    shifts, mins = set(), set()
    for ev in f.events(('st', 'decl')):
        e = ev.get('e')
        if e is None:
            continue
        for x in subexprs(e):
            if x[0] == 'b' and x[1] == '>>':
                l = strip(x[2])
                if l and l[0] == 'b' and l[1] == '*':
                    a, b = strip(l[2]), strip(l[3])
                    if a and a[0] == 'b' and a[1] == '>>' and b and b[0] == 'b' and b[1] == '>>':
                        s2 = strip(x[3])
                        if strip(a[3])[0] == 'l' and strip(b[3])[0] == 'l' and s2[0] == 'l':
                            shifts.add((strip(a[3])[1], strip(b[3])[1], s2[1]))
            if x[0] == 'b' and x[1] == '*':
                a, b = strip(x[2]), strip(x[3])
                if a and a[0] == 'l' and b and b[0] == 'b' and b[1] == '-' and 'N' in pstr(b):
                    mins.add(a[1])
            if x[0] == 'a' and x[1] == '+=' and strip(x[3]) and strip(x[3])[0] == 'l' and pstr(strip(x[2])) == 'v':
                mins.add(strip(x[3])[1])
    return shifts, mins


def run(P, rep, tier):
    ve, vd = witness('enc'), witness('dec')
    rep.explanation = ('Witness TUs evaluated by clang for both sides (%d constants each); update_cdf / dec_update_cdf and the four '
                       'range-coder kernels compared structurally.' % len(ve))
    rep.analysed = {'encoder_values': ve, 'decoder_values': vd}
    rep.assumptions = ['clang constant evaluation equals what the compiler uses']
    for n in NAMES + [x[0] for x in EXPRS]:
        a, b = ve.get(n), vd.get(n)
        if a is None or b is None:
            raise AnalysisBroken('constant %s not evaluable on one side (enc=%s dec=%s)' % (n, a, b))
        rep.ob('C25.CONST', 'const:' + n, a == b, 'Source/Lib/Decoder/Codec/EbDecBitstreamUnit.h', 'writer %s = %s, reader %s = %s' % (n, a, n, b))
    rep.floor('C25.CONST', 10)

    # ---------------- ADAPT
    w = P.fn('update_cdf')
    r = P.fn('dec_update_cdf')
    bw, br = norm_body(w, {}), norm_body(r, {})
    same = bw == br
    diff = [x for x in bw if x not in br][:2] + [x for x in br if x not in bw][:2]
    rep.ob('C25.ADAPT', 'update_cdf~dec_update_cdf', same, r.loc(),
           'writer and reader CDF adaptation have equal normalised bodies (%d statements)' % len(bw) if same else
           'writer and reader CDF adaptation differ: %s' % diff)
    tw = [x for x in bw if x[0] == 'decl' and x[2].startswith('{')]
    tr = [x for x in br if x[0] == 'decl' and x[2].startswith('{')]
    rep.ob('C25.ADAPT', 'nsymbs2speed-table', bool(tw) and tw == tr, r.loc(), 'rate schedule tables: writer %s reader %s' % (tw[0][2] if tw else None, tr[0][2] if tr else None))
    rep.floor('C25.ADAPT', 2)

    # ---------------- SPLIT
    pairs = [('od_ec_encode_q15', 'od_ec_decode_cdf_q15'), ('svt_od_ec_encode_bool_q15', 'od_ec_decode_bool_q15')]
    for wn, rn in pairs:
        wf, rf = P.fn(wn, required=False), P.fn(rn, required=False)
        if wf is None or rf is None:
            # names differ between versions: find by structure
            raise AnalysisBroken('range coder kernels %s / %s not found' % (wn, rn))
        sw, mw = split_consts(wf)
        sr, mr = split_consts(rf)
        if not sw or not sr:
            raise AnalysisBroken('interval-split expression not found in %s / %s' % (wn, rn))
        rep.ob('C25.SPLIT', '%s~%s/shifts' % (wn, rn), sw == sr, rf.loc(), 'writer (r>>A, f>>S1, >>S2) = %s ; reader = %s' % (sorted(sw), sorted(sr)))
        rep.ob('C25.SPLIT', '%s~%s/min-prob' % (wn, rn), mw == mr and bool(mw), rf.loc(), 'writer minimum-probability multiplier %s ; reader %s' % (sorted(mw), sorted(mr)))
    rep.floor('C25.SPLIT', 4)

    # ---------------- TABLES
    defs = {}
    for g in P.globals:
        n = g['name']
        if 'cdf' in n.lower() and n.startswith('default_') and g.get('def'):
            defs.setdefault(n, []).append(g)
    if len(defs) < 40:
        raise AnalysisBroken('only %d default CDF tables found' % len(defs))
    for n, gs in sorted(defs.items()):
        files = sorted({g['file'] for g in gs})
        rep.ob('C25.TABLES', 'table:' + n, len(files) == 1, '%s:%d' % (gs[0]['file'].replace('/repo/', ''), gs[0]['line']),
               'single definition' if len(files) == 1 else 'defined in %s: writer and reader may start from different tables' % files,
               nontrivial=True)
    rep.floor('C25.TABLES', 40)

    # ---------------- GROW: the writer's byte buffer and pre-carry buffer grow while symbols are being coded; whatever was
    # written so far must survive.  Every (re)allocation of one of those buffers is sized with at least its element size, every
    # copy from / into one uses exactly its element size, and a buffer pointer is only ever replaced by realloc() of itself or by
    # a block into which the old contents were copied.
    enc_rec = P.record('OdEcEnc')
    elem = {}
    for x in enc_rec['fields']:
        if x['t'].rstrip().endswith('*'):
            base = x['t'].replace('*', '').replace('const', '').strip()
            elem['OdEcEnc.' + x['n']] = {'uint8_t': 1, 'unsigned char': 1, 'uint16_t': 2, 'unsigned short': 2, 'uint32_t': 4}.get(base)
    if 'OdEcEnc.precarry_buf' not in elem or 'OdEcEnc.buf' not in elem:
        raise AnalysisBroken('OdEcEnc no longer has buf / precarry_buf')

    def sizeof_lits(e):
        return [a[1] for a in subexprs(e) if a[0] == 'l' and len(a) > 2 and a[2] and 'sizeof' in str(a[2])]

    def buf_of(f, e):
        """the writer buffer field an expression designates (directly or through a local assigned from it)"""
        from engine.facts import last_field
        e = strip(e)
        lf = last_field(e)
        if lf in elem:
            return lf
        if e and e[0] == 'v' and e[2] == 'l':
            for ev in f.events(('decl', 'st')):
                x = ev.get('e')
                if x is None:
                    continue
                if ev['k'] == 'decl' and ev['n'] == e[1] and last_field(strip(x)) in elem:
                    return last_field(strip(x))
                if ev['k'] == 'st' and x[0] == 'a' and x[1] == '=' and pstr(strip(x[2])) == e[1] and last_field(strip(x[3])) in elem and strip(x[3])[0] == 'm':
                    return last_field(strip(x[3]))
        return None
    ngrow = 0
    for f in P.fns:
        if f.nocfg or not f.file.endswith('EbBitstreamUnit.c'):
            continue
        for ev, n in f.calls(('realloc', 'memcpy', 'memmove', 'svt_memcpy_c')):
            args = ev['e'][2]
            if n == 'realloc' and len(args) >= 2:
                b = buf_of(f, args[0])
                if b:
                    ngrow += 1
                    ls = sizeof_lits(args[1])
                    ok = bool(ls) and min(ls) >= elem[b]
                    rep.ob('C25.GROW', '%s/realloc:%s' % (f.name, b), ok, f.loc(ev),
                           'realloc of %s (element size %d) sized with element size %s: contents preserved by realloc' % (b, elem[b], ls))
            elif n != 'realloc' and len(args) >= 3:
                bs = [x for x in (buf_of(f, args[0]), buf_of(f, args[1])) if x]
                for b in bs:
                    ngrow += 1
                    ls = sizeof_lits(args[2])
                    ok = bool(ls) and all(l == elem[b] for l in ls)
                    rep.ob('C25.GROW', '%s/copy:%s' % (f.name, b), ok, f.loc(ev),
                           ('copy of %s uses its element size %d' % (b, elem[b])) if ok else
                           ('%s has %d-byte elements but the copy length is computed with element size %s (%s): only part of the coded data survives the growth'
                            % (b, elem[b], ls, pstr(strip(args[2]))[:60])))
        # a buffer pointer replaced by something that is neither realloc(itself) nor a block the old contents were copied into
        for ev in f.events(('st',)):
            e = ev['e']
            if e[0] != 'a' or e[1] != '=' or strip(e[2])[0] != 'm' or strip(e[2])[1] not in elem:
                continue
            b = strip(e[2])[1]
            if f.name in ('svt_od_ec_enc_init',):
                continue
            rhs = strip(e[3])
            src_ok = False
            why = pstr(rhs)[:40]
            if rhs[0] == 'v':
                for e2 in f.events(('st', 'decl')):
                    x = e2.get('e')
                    if x is None:
                        continue
                    r2 = strip(x) if e2['k'] == 'decl' and e2['n'] == rhs[1] else (strip(x[3]) if e2['k'] == 'st' and x[0] == 'a' and x[1] == '=' and pstr(strip(x[2])) == rhs[1] else None)
                    if r2 is not None and r2[0] == 'c':
                        if callee_name(r2) == 'realloc' and buf_of(f, r2[2][0]) == b:
                            src_ok = True
                        elif callee_name(r2) in ('malloc', 'calloc'):
                            cps = [c for c, nn in f.calls(('memcpy', 'memmove')) if pstr(strip(c['e'][2][0])) == rhs[1] and buf_of(f, c['e'][2][1]) == b and f.ev_dominates(c, ev)]
                            src_ok = bool(cps)
                            why = 'fresh block %s the old contents' % ('after copying' if cps else 'WITHOUT copying')
            ngrow += 1
            rep.ob('C25.GROW', '%s/replace:%s' % (f.name, b), src_ok, f.loc(ev),
                   '%s is replaced by %s' % (b, 'realloc of itself / a block holding the old contents' if src_ok else why))
    rep.floor('C25.GROW', 4)
