"""C25 - entropy coder round trip: writer and reader agree on their duplicated definitions.

The encoder (Common/Codec/EbBitstreamUnit.[ch], EbCabacContextModel.h) and the decoder (Decoder/Codec/EbDecBitstreamUnit.[ch])
each carry their own copy of the range-coder constants, of the CDF adaptation routine and of the interval-split formula.
If the copies differ the reader cannot recover what the writer wrote.

  C25.CONST  EC_PROB_SHIFT, EC_MIN_PROB, CDF_PROB_BITS, CDF_PROB_TOP, CDF_INIT_TOP, CDF_SHIFT, AOM_ICDF(.), sizeof(AomCdfProb)
             evaluate (clang constant evaluator, one witness TU per side, real flags) to the same values on both sides
  C25.ADAPT  update_cdf (writer) and dec_update_cdf (reader): equal normalised bodies, including the nsymbs2speed table
  C25.SPLIT  the interval-split expression  ((r >> 8) * (f >> S1) >> S2) + M * (N - k)  uses the same constants S1, S2, M (and 8)
             in the writer's and the reader's symbol and boolean coders
  C25.TABLES the default CDF tables have a single definition shared by both sides
"""
from engine import compdb
from engine.facts import pstr, strip, callee_name, subexprs, AnalysisBroken

PID = 'C25'

META = {
    'technique': 'constant evaluation of the duplicated range-coder macros in one witness translation unit per side (clang constant evaluator, real compile flags) + sibling agreement of normalised function bodies and of the interval-split sub-expressions extracted from the writer and the reader',
    'text': 'Decides that the arithmetic writer and reader are instantiated with identical constants, identical CDF adaptation (rate schedule table included) and identical interval-split scaling - the duplicated definitions whose divergence silently breaks every round trip. Does not decide carry propagation, renormalisation or the tell/bit-count estimate (value-level).',
    'note': 'the two sides keep separate headers; the witness TUs include each side\'s own headers with that side\'s include paths',
    'ref': 'DESIGN.md section 5 C25',
}

NAMES = ['EC_PROB_SHIFT', 'EC_MIN_PROB', 'CDF_PROB_BITS', 'CDF_PROB_TOP', 'CDF_INIT_TOP', 'CDF_SHIFT']
EXPRS = [('AOM_ICDF_0', 'AOM_ICDF(0)'), ('AOM_ICDF_12345', 'AOM_ICDF(12345)'), ('AOM_ICDF_TOP', 'AOM_ICDF(CDF_PROB_TOP)'),
         ('SIZEOF_CDFPROB', 'sizeof(AomCdfProb)'), ('SPLIT_SHIFT', '7 - EC_PROB_SHIFT - CDF_SHIFT')]


def witness(side):
    inc = {'enc': '#include "EbDefinitions.h"\n#include "EbBitstreamUnit.h"\n#include "EbCabacContextModel.h"\n',
           'dec': '#include "EbDefinitions.h"\n#include "EbDecBitstreamUnit.h"\n'}[side]
    body = ''.join('long long svtw_%s = (long long)(%s);\n' % (n, n) for n in NAMES)
    body += ''.join('long long svtw_%s = (long long)(%s);\n' % (n, e) for n, e in EXPRS)
    like = {'enc': 'Source/Lib/Encoder/Codec/EbEntropyCoding.c', 'dec': 'Source/Lib/Decoder/Codec/EbDecBitstreamUnit.c'}[side]
    d = compdb.extract_witness('c25_' + side, inc + body, like)
    vals = {}
    for g in d['globals']:
        if g['name'].startswith('svtw_'):
            vals[g['name'][5:]] = g.get('val')
    return vals


def norm_body(f, rename):
    """Multiset of normalised statements of a function (casts dropped, given variables renamed)."""
    out = []

    def nm(e):
        s = pstr(e)
        for a, b in rename.items():
            s = s.replace(a, b)
        return s
    for ev in f.events(('st', 'decl', 'ret', 'call')):
        e = ev.get('e')
        if ev['k'] == 'decl':
            out.append(('decl', ev['n'], nm(e) if e is not None else ''))
        elif e is not None:
            out.append((ev['k'], nm(e)))
    for bid in f.reach():
        c = f.blocks[bid].get('fullcond')
        if c is not None:
            out.append(('cond', nm(c)))
    return sorted(out)


def split_consts(f):
    """{(8-literal, S1, S2)} and {M} from sub-expressions ((r >> A) * (x >> S1)) >> S2   and  M * (N - k)."""
    shifts, mins = set(), set()
    for ev in f.events(('st', 'decl')):
        e = ev.get('e')
        if e is None:
            continue
        for x in subexprs(e):
            if x[0] == 'b' and x[1] == '>>':
                l = strip(x[2])
                if l and l[0] == 'b' and l[1] == '*':
                    a, b = strip(l[2]), strip(l[3])
                    if a and a[0] == 'b' and a[1] == '>>' and b and b[0] == 'b' and b[1] == '>>':
                        s2 = strip(x[3])
                        if strip(a[3])[0] == 'l' and strip(b[3])[0] == 'l' and s2[0] == 'l':
                            shifts.add((strip(a[3])[1], strip(b[3])[1], s2[1]))
            if x[0] == 'b' and x[1] == '*':
                a, b = strip(x[2]), strip(x[3])
                if a and a[0] == 'l' and b and b[0] == 'b' and b[1] == '-' and 'N' in pstr(b):
                    mins.add(a[1])
            if x[0] == 'a' and x[1] == '+=' and strip(x[3]) and strip(x[3])[0] == 'l' and pstr(strip(x[2])) == 'v':
                mins.add(strip(x[3])[1])
    return shifts, mins


def run(P, rep, tier):
    ve, vd = witness('enc'), witness('dec')
    rep.explanation = ('Witness TUs evaluated by clang for both sides (%d constants each); update_cdf / dec_update_cdf and the four '
                       'range-coder kernels compared structurally.' % len(ve))
    rep.analysed = {'encoder_values': ve, 'decoder_values': vd}
    rep.assumptions = ['clang constant evaluation equals what the compiler uses']
    for n in NAMES + [x[0] for x in EXPRS]:
        a, b = ve.get(n), vd.get(n)
        if a is None or b is None:
            raise AnalysisBroken('constant %s not evaluable on one side (enc=%s dec=%s)' % (n, a, b))
        rep.ob('C25.CONST', 'const:' + n, a == b, 'Source/Lib/Decoder/Codec/EbDecBitstreamUnit.h', 'writer %s = %s, reader %s = %s' % (n, a, n, b))
    rep.floor('C25.CONST', 10)

    # ---------------- ADAPT
    w = P.fn('update_cdf')
    r = P.fn('dec_update_cdf')
    bw, br = norm_body(w, {}), norm_body(r, {})
    same = bw == br
    diff = [x for x in bw if x not in br][:2] + [x for x in br if x not in bw][:2]
    rep.ob('C25.ADAPT', 'update_cdf~dec_update_cdf', same, r.loc(),
           'writer and reader CDF adaptation have equal normalised bodies (%d statements)' % len(bw) if same else
           'writer and reader CDF adaptation differ: %s' % diff)
    tw = [x for x in bw if x[0] == 'decl' and x[1] == 'nsymbs2speed']
    tr = [x for x in br if x[0] == 'decl' and x[1] == 'nsymbs2speed']
    rep.ob('C25.ADAPT', 'nsymbs2speed-table', bool(tw) and tw == tr, r.loc(), 'rate schedule tables: writer %s reader %s' % (tw[0][2] if tw else None, tr[0][2] if tr else None))
    rep.floor('C25.ADAPT', 2)

    # ---------------- SPLIT
    pairs = [('od_ec_encode_q15', 'od_ec_decode_cdf_q15'), ('svt_od_ec_encode_bool_q15', 'od_ec_decode_bool_q15')]
    for wn, rn in pairs:
        wf, rf = P.fn(wn, required=False), P.fn(rn, required=False)
        if wf is None or rf is None:
            # names differ between versions: find by structure
            raise AnalysisBroken('range coder kernels %s / %s not found' % (wn, rn))
        sw, mw = split_consts(wf)
        sr, mr = split_consts(rf)
        if not sw or not sr:
            raise AnalysisBroken('interval-split expression not found in %s / %s' % (wn, rn))
        rep.ob('C25.SPLIT', '%s~%s/shifts' % (wn, rn), sw == sr, rf.loc(), 'writer (r>>A, f>>S1, >>S2) = %s ; reader = %s' % (sorted(sw), sorted(sr)))
        rep.ob('C25.SPLIT', '%s~%s/min-prob' % (wn, rn), mw == mr and bool(mw), rf.loc(), 'writer minimum-probability multiplier %s ; reader %s' % (sorted(mw), sorted(mr)))
    rep.floor('C25.SPLIT', 4)

    # ---------------- TABLES
    defs = {}
    for g in P.globals:
        n = g['name']
        if 'cdf' in n.lower() and n.startswith('default_') and g.get('def'):
            defs.setdefault(n, []).append(g)
    if len(defs) < 40:
        raise AnalysisBroken('only %d default CDF tables found' % len(defs))
    for n, gs in sorted(defs.items()):
        files = sorted({g['file'] for g in gs})
        rep.ob('C25.TABLES', 'table:' + n, len(files) == 1, '%s:%d' % (gs[0]['file'].replace('/repo/', ''), gs[0]['line']),
               'single definition' if len(files) == 1 else 'defined in %s: writer and reader may start from different tables' % files,
               nontrivial=True)
    rep.floor('C25.TABLES', 40)
