"""C14 - API calls return error codes instead of crashing or blocking.

Decided (DESIGN.md section 5, C14):
  C14.1 NULLDOM   every dereference of a pointer argument of an EB_API function (and of *pp for T** arguments that
                  the function reads before writing) is dominated by a NULL test; interprocedural through callees
                  that receive the argument unchanged.
  C14.2 PAIR      the configuration mutex taken by set_parameter is released on every exit (and, generally, no
                  EB_API function returns with a library mutex held).
  C14.3 BOUND     in the set_parameter / init_handle flow, an array of known extent indexed by a loop counter bounded
                  by a caller-controlled configuration count (or memcpy'd with a caller-controlled length) is
                  dominated by a comparison of that count with a literal.
  C14.4 BLOCK     the set of blocking primitives reachable from each EB_API function equals the frozen allow-list; a teardown
                  call joins threads only after it has itself signalled the shutdown.
  C14.6 DANGLE    an API function that frees what a process-global pointer designates resets the pointer or guards a repeated call.
  C14.7 LAZY      decoder teardown touches lazily created (first-frame) resources only when they exist.
"""
from engine.classes import Classes
from engine.facts import pstr, strip, callee_name, subexprs, fields_in, last_field, root_of, AnalysisBroken
from engine.locks import LockAnalysis
from engine.nulldom import NullDom

PID = 'C14'

META = {
    'technique': 'CFG may-analysis for NULL dominance + lockset dataflow + dominance of range tests + call-graph reachability of blocking primitives',
    'text': 'Decides four structural clauses on every path of all EB_API functions: NULL-argument tests dominate every dereference (interprocedural), no API exit leaves a mutex held (so a rejected configuration leaves the handle usable), caller-controlled counts are range-tested before bounding array accesses in the set_parameter flow, only allow-listed blocking primitives are reachable per API function, a teardown call joins the pipeline threads only after signalling their shutdown itself, a teardown that frees what a process-global pointer designates is safe to repeat, and decoder teardown touches first-frame resources only when they exist. Structure, not behaviour: it does not execute call sequences. Also decided: the payload pointers inside the structures the caller hands over (plane pointers of the picture, the buffer svt_av1_get_recon copies into) are NULL-tested before use, and decoder configuration members used as allocation sizes or loop bounds are range-tested by svt_av1_dec_set_parameter.',
    'note': 'clang 14 front end/CFG; production flags from CMake (-DNDEBUG); handle-internal state (p_component_private) assumed valid; function-pointer targets resolved from address-taken facts',
    'ref': 'DESIGN.md section 5 C14',
}

BLOCKING = {'svt_get_full_object', 'svt_get_empty_object', 'svt_block_on_semaphore', 'svt_wait_cond_var',
            'svt_destroy_thread', 'pthread_join', 'sem_wait', 'pthread_cond_wait', 'sleep', 'usleep', 'nanosleep',
            'svt_sleep'}

# API function -> blocking primitives it is allowed to reach (first blocking callee along each call-graph path).
ALLOW_BLOCK = {
    'svt_av1_enc_get_packet': {'svt_get_full_object'},        # documented blocking packet wait (pic_send_done branch only)
    'svt_av1_enc_send_picture': {'svt_get_empty_object'},     # back-pressure on the input pool (documented in Docs/svt-av1_encoder_user_guide.md)
    'svt_av1_enc_deinit': {'svt_destroy_thread'},             # joins the pipeline threads after shutting their FIFOs down
    'svt_av1_enc_deinit_handle': {'svt_destroy_thread'},      # dctor chain of the handle (thread handles)
    'svt_av1_dec_deinit': {'svt_destroy_thread'},             # joins decoder workers
    'svt_av1_enc_init_handle': {'svt_destroy_thread'},        # error unwinding runs the handle dctor
    # EB_NEW's failure unwinding runs destructors; destructor slots of pooled objects are resolved as "any installed
    # dctor", the only thread-joining one being the handle's own (i.e. teardown after the threads' FIFOs are shut down)
    'svt_av1_enc_init': {'svt_destroy_thread'},
    # decoder: svt_av1_dec_frame is the decode call itself; in multi-thread mode it hands tiles to its own worker
    # threads and waits for them (finite work per frame), and on a sequence change frees/rebuilds the worker set
    # through the memory map.  deinit (also run by init_handle's failure path) waits for the workers to exit.
    'svt_av1_dec_frame': {'svt_block_on_semaphore', 'svt_destroy_thread', 'nanosleep'},
    'svt_av1_dec_deinit': {'svt_destroy_thread', 'nanosleep'},
    'svt_av1_dec_init_handle': {'svt_destroy_thread', 'nanosleep'},
    'svt_av1_dec_init': {'svt_destroy_thread', 'nanosleep'},
}

# Call-graph nodes the reachability does not traverse, each with its reason.
NO_TRAVERSE = {
    # takes the queue lock, peeks, and only calls the blocking get when an object is already queued
    # (that control dependence is checked below and again under C23)
    'svt_get_full_object_non_blocking': 'non-blocking wrapper (checked: blocking get is control-dependent on a non-empty queue)',
    # error callback installed in app_callback_ptr->error_handler: posts an *error packet*; runs only after an internal
    # failure, which C14 does not quantify over (C16 does)
    'lib_svt_encoder_send_error_exit': 'internal-error reporting path',
}


def api_functions(P):
    return sorted([f for f in P.fns if f.api and not f.nocfg and f.lib in ('Encoder', 'Decoder')], key=lambda f: (f.file, f.line))


def is_ptr(t):
    return t.rstrip().endswith('*')


def is_pp(t):
    t = t.replace(' ', '')
    return t.endswith('**')


def rule1(P, rep, apis):
    nd = NullDom(P)
    n = 0
    for f in apis:
        for i, (pn, pt) in enumerate(f.params):
            if not is_ptr(pt):
                continue
            taint = [pn]
            v = nd.analyse(f, taint)
            key = '%s/param:%s' % (f.name, pn)
            if v:
                ev, p, kind, detail = v[0]
                rep.ob('C14.1-NULLDOM', key, False, f.loc(ev), detail, extra={'entry': f.name, 'all': [(f.loc(e), d) for e, _, _, d in v[:6]]})
            else:
                # non-trivial when the parameter is actually dereferenced or passed on somewhere
                used = any(ev['k'] in ('dr', 'ix') and pstr(strip(ev['e'])) == pn for ev in f.events(('dr', 'ix')))
                rep.ob('C14.1-NULLDOM', key, True, f.loc(), 'every dereference dominated by a NULL test', nontrivial=used)
            n += 1
            if is_pp(pt):
                # *pp read before the function writes it
                key2 = '%s/param:*%s' % (f.name, pn)
                v2 = [x for x in nd.analyse(f, ['*' + pn]) if x[1] == '*' + pn]
                if v2:
                    ev, p, kind, detail = v2[0]
                    rep.ob('C14.1-NULLDOM', key2, False, f.loc(ev), detail, extra={'entry': f.name})
                else:
                    rep.ob('C14.1-NULLDOM', key2, True, f.loc(), 'pointee never dereferenced before being tested or overwritten', nontrivial=False)
    return n


def rule2(P, rep, apis):
    la = LockAnalysis(P)
    seen_cfg = False
    for f in apis:
        a = la.analyse(f)
        acqs = [(ev, ident, cls) for ev, kind, ident, cls, _ in a['events'] if kind == 'acq']
        if not acqs:
            continue
        bad = la.unreleased(f)
        byident = {}
        for ident, cls, ret, bid, aev in bad:
            byident.setdefault((ident, cls), []).append(ret)
        for ev, ident, cls in acqs:
            key = '%s/lock:%s' % (f.name, cls)
            if cls.endswith('.config_mutex') and f.name == 'svt_av1_enc_set_parameter':
                seen_cfg = True
            if (ident, cls) in byident:
                rets = byident[(ident, cls)]
                where = f.loc(rets[0]) if rets[0] is not None else f.loc()
                rep.ob('C14.2-PAIR', key, False, where,
                       '%s acquired at %s may still be held at the exit at %s' % (ident, f.loc(ev), where),
                       extra={'entry': f.name, 'exits': [f.loc(r) if r is not None else 'fallthrough' for r in rets]})
            else:
                rep.ob('C14.2-PAIR', key, True, f.loc(ev), '%s released on every path to every exit' % ident)
    if not seen_cfg:
        raise AnalysisBroken('svt_av1_enc_set_parameter no longer takes config_mutex: anchor of C14.2 vanished')


def _cond_bounds_field(cond, fld):
    """cond compares configuration field `fld` with a literal."""
    for x in subexprs(cond):
        if x[0] == 'b' and x[1] in ('<', '<=', '>', '>=', '==', '!='):
            l, r = strip(x[2]), strip(x[3])
            for a, b in ((l, r), (r, l)):
                if b and b[0] == 'l' and fld in fields_in(a):
                    return True
    return False


def _conjuncts(c):
    c = strip(c)
    if c and c[0] == 'b' and c[1] == '&&':
        return _conjuncts(c[2]) + _conjuncts(c[3])
    return [c]


def _guarded(f, ev, fld):
    # structured: enclosing if/else whose condition bounds the field
    for kind, cond, line in f.ctl_chain(ev):
        if kind in ('if', 'else', 'and', 'or') and cond is not None and _cond_bounds_field(cond, fld):
            return True
    # CFG: a dominating branch on the field one of whose successors cannot reach the event
    for bid in f.reach():
        b = f.blocks[bid]
        c = b.get('cond')
        if c is None or len(b['succ']) != 2 or not _cond_bounds_field(c, fld):
            continue
        if b.get('tk') in ('ForStmt', 'WhileStmt', 'DoStmt'):
            continue
        if bid != ev['b'] and f.block_dominates(bid, ev['b']):
            reach = []
            for s in b['succ']:
                if s is None:
                    reach.append(False)
                    continue
                seen, st = set(), [s]
                while st:
                    x = st.pop()
                    if x in seen:
                        continue
                    seen.add(x)
                    st.extend(y for y in f.blocks[x]['succ'] if y is not None)
                reach.append(ev['b'] in seen)
            if reach.count(True) == 1:
                return True
    return False


def rule3(P, rep):
    roots = [P.fn('svt_av1_enc_set_parameter'), P.fn('svt_av1_enc_init_handle')]
    scope = [f for f in P.reachable_from(roots) if f.lib == 'Encoder' and f.sub == 'Globals']
    cfgrec = 'EbSvtAv1EncConfiguration.'
    n = 0
    for f in sorted(scope, key=lambda f: f.line):
        # loop counters bounded by a configuration field
        for ev in f.events(('ix',)):
            if 'n' not in ev:
                continue
            idx = strip(ev['i'])
            if not idx or idx[0] != 'v' or idx[2] != 'l':
                continue
            bound_fld = None
            lit_bounded = False
            for kind, cond, line in f.ctl_chain(ev):
                if kind in ('for', 'while', 'do') and cond is not None:
                    for c in _conjuncts(cond):
                        if c and c[0] == 'b' and c[1] in ('<', '<=', '!='):
                            l, r = strip(c[2]), strip(c[3])
                            if l == idx:
                                fl = [x for x in fields_in(r) if x.startswith(cfgrec)]
                                if r and r[0] == 'l':
                                    if r[1] + (1 if c[1] == '<=' else 0) <= ev['n']:
                                        lit_bounded = True
                                elif fl:
                                    bound_fld = fl[0]
                    if bound_fld:
                        break
            if not bound_fld:
                continue
            arr = last_field(ev['e']) or pstr(ev['e'])
            key = '%s/%s[%s<%s]' % (f.name, arr.split('.', 1)[-1], idx[1], bound_fld.split('.', 1)[1])
            ok = lit_bounded or _guarded(f, ev, bound_fld)
            rep.ob('C14.3-BOUND', key, ok, f.loc(ev),
                   ('subscript of %s (extent %d) by a counter bounded by caller-controlled %s ' % (arr, ev['n'], bound_fld)) +
                   ('is dominated by a range test of that count' if ok else 'with no dominating range test of that count'),
                   extra={'entry': f.name})
            n += 1
        # memcpy with a caller-controlled length into a fixed array
        for ev, name in f.calls():
            if name not in ('memcpy', 'svt_memcpy_app', 'svt_memcpy', 'memmove', 'svt_memcpy_c'):
                continue
            args = ev['e'][2]
            if len(args) < 3:
                continue
            # the length may be prepared in a local (const size_t n = sizeof(T) * MIN(cfg->count, EXTENT)): look through
            # single-definition locals
            def _expand(x, depth=0):
                x = strip(x)
                if x is None or depth > 3:
                    return x
                if x[0] == 'v' and x[2] == 'l':
                    ds = [d for d in f.events(('decl', 'st')) if (d['k'] == 'decl' and d['n'] == x[1] and d.get('e') is not None) or
                          (d['k'] == 'st' and d['e'][0] == 'a' and d['e'][1] == '=' and strip(d['e'][2]) == x)]
                    if len(ds) == 1:
                        return _expand(ds[0]['e'] if ds[0]['k'] == 'decl' else ds[0]['e'][3], depth + 1)
                    return x
                if x[0] in ('b',):
                    return [x[0], x[1], _expand(x[2], depth), _expand(x[3], depth)] + list(x[4:])
                if x[0] == 'q':
                    return [x[0], _expand(x[1], depth), _expand(x[2], depth), _expand(x[3], depth)] + list(x[4:])
                if x[0] == 'k':
                    return _expand(x[-1], depth)
                return x
            lenx = _expand(args[2])
            fl = [x for x in fields_in(lenx) if x.startswith(cfgrec)] if lenx is not None else []
            if not fl:
                continue
            dst = strip(args[0])
            dfield = last_field(dst)
            if not dfield:
                continue
            rec, fn_ = dfield.split('.', 1)
            r = P.records.get(rec)
            dims = None
            if r:
                for fd in r['fields']:
                    if fd['n'] == fn_:
                        dims = fd.get('dims')
            if not dims:
                continue
            key = '%s/%s(%s,len~%s)' % (f.name, name, fn_, fl[0].split('.', 1)[1])
            ok = _guarded(f, ev, fl[0])
            if not ok:
                # a length that stays within the destination for the largest count (MIN against the extent) needs no range test
                from rules.C20 import _ev as _pev
                esz = {'uint8_t': 1, 'int8_t': 1, 'uint16_t': 2, 'int16_t': 2, 'uint32_t': 4, 'int32_t': 4, 'uint64_t': 8, 'int64_t': 8, 'EbBool': 1}
                cap = None
                for fd in r['fields']:
                    if fd['n'] == fn_:
                        base_t = fd.get('t', '').split('[')[0].strip()
                        if base_t in esz:
                            cap = esz[base_t]
                            for dmn in dims:
                                cap *= dmn
                if cap is not None:
                    worst = _pev(lenx, {fl[0]: 1 << 30}, {})
                    ok = worst is not None and worst <= cap
            rep.ob('C14.3-BOUND', key, ok, f.loc(ev),
                   ('copy into %s (extent %s) with a length computed from caller-controlled %s ' % (dfield, dims, fl[0])) +
                   ('is dominated by a range test' if ok else 'with no dominating range test of that count'),
                   extra={'entry': f.name})
            n += 1
        # (direct subscripts by caller-controlled members are handled below, over everything set_parameter reaches)
        # interprocedural: a fixed-extent configuration array and a caller-controlled count handed to a callee that subscripts the
        # array parameter with a counter bounded only by the count parameter
        for ev, name in f.calls():
            if not name:
                continue
            args = ev['e'][2]
            for g in P.resolve(name, f):
                if g.nocfg or g.lib != 'Encoder':
                    continue
                pidx = {pn: i for i, (pn, pt) in enumerate(g.params)}
                for ix in g.events(('ix',)):
                    base, idx = strip(ix['e']), strip(ix['i'])
                    if not (base and base[0] == 'v' and base[1] in pidx and idx and idx[0] == 'v' and idx[2] == 'l'):
                        continue
                    cnt_param, lit = None, False
                    for kind, cond, line in g.ctl_chain(ix):
                        if kind in ('for', 'while', 'do') and cond is not None:
                            for c in _conjuncts(cond):
                                if c and c[0] == 'b' and c[1] in ('<', '<=') and strip(c[2]) == idx:
                                    r = strip(c[3])
                                    if r[0] == 'l':
                                        lit = True
                                    elif r[0] == 'v' and r[1] in pidx:
                                        cnt_param = r[1]
                    if cnt_param is None:
                        continue
                    ai, ci = pidx[base[1]], pidx[cnt_param]
                    if ai >= len(args) or ci >= len(args):
                        continue
                    afld = last_field(strip(args[ai]))
                    cfl = [x for x in fields_in(args[ci]) if x.startswith(cfgrec)]
                    if not afld or not cfl:
                        continue
                    rec, fn_ = afld.split('.', 1)
                    dims = None
                    for fd in (P.records.get(rec) or {}).get('fields', ()):
                        if fd['n'] == fn_:
                            dims = fd.get('dims')
                    if not dims:
                        continue
                    key = '%s/%s(%s,count~%s)' % (f.name, name, fn_, cfl[0].split('.', 1)[1])
                    if any(o['key'] == key for o in rep.obs):
                        break
                    ok = lit or _guarded(f, ev, cfl[0])
                    rep.ob('C14.3-BOUND', key, ok, f.loc(ev),
                           ('%s walks %s (extent %s) up to the caller-controlled %s ' % (name, afld, dims, cfl[0])) +
                           (('and bounds the walk by a literal as well' if lit else 'and the call is dominated by a range test of that count') if ok else
                            'and nothing stops the call when the count is out of range: the range test above only records an error and falls through, so the callee reads past the array'),
                           extra={'entry': f.name})
                    n += 1
                    break
    # direct subscripts of fixed-extent configuration arrays by an expression that reads a caller-controlled member, in every
    # encoder function that svt_av1_enc_set_parameter reaches (constructors included): both ends of the range must have been
    # tested - in the function, or by verify_settings, which runs first and makes set_parameter return.
    vs = P.fn('verify_settings', 'EbEncHandle.c')
    tested = {}
    def constant(x):
        x = strip(x)
        return bool(x) and (x[0] == 'l' or (x[0] == 'b' and constant(x[2]) and constant(x[3])) or (x[0] == 'u' and constant(x[2])))
    for bid in vs.reach():
        b = vs.blocks[bid]
        c = b.get('fullcond')
        if c is None or b.get('tk') != 'IfStmt':
            continue
        for y in subexprs(c):
            if y[0] == 'b' and y[1] in ('<', '<=', '>', '>='):
                l, r = strip(y[2]), strip(y[3])
                for side, other, op in ((l, r, y[1]), (r, l, {'<': '>', '<=': '>=', '>': '<', '>=': '<='}[y[1]])):
                    if side and side[0] == 'm' and side[1].startswith(cfgrec) and constant(other):
                        tested.setdefault(side[1], set()).add('upper' if op in ('>', '>=') else 'lower')
    wide = [g for g in P.reachable_from([P.fn('svt_av1_enc_set_parameter')]) if g.lib == 'Encoder' and not g.nocfg]
    seen_k = set()
    for g in sorted(wide, key=lambda g: (g.file, g.line)):
        for ev in g.events(('ix',)):
            if 'n' not in ev:
                continue
            idx = strip(ev['i'])
            fl = [x for x in fields_in(idx) if x.startswith(cfgrec)] if idx else []
            base_f = last_field(ev['e'])
            if not fl or not base_f or not base_f.startswith(cfgrec):
                continue
            fld = fl[0]
            subtracts = any(y[0] == 'b' and y[1] == '-' for y in subexprs(idx))
            ftype = ''
            for fd in P.record('EbSvtAv1EncConfiguration')['fields']:
                if fd['n'] == fld.split('.', 1)[1]:
                    ftype = fd.get('t', '')
            signed = not ftype.startswith('u') and ftype not in ('EbBool',)
            need = {'upper'} | ({'lower'} if (subtracts or signed) else set())
            have = set(tested.get(fld, ()))
            if _guarded(g, ev, fld):
                have |= {'upper', 'lower'}
            key = '%s/%s[%s]' % (g.name, base_f.split('.', 1)[1], pstr(idx)[:40])
            if key in seen_k:
                continue
            seen_k.add(key)
            ok = need <= have
            rep.ob('C14.3-BOUND', key, ok, g.loc(ev),
                   ('subscript of %s (extent %d) by %s: %s range-tested before (verify_settings / local guard)' % (base_f, ev['n'], pstr(idx)[:40], ' and '.join(sorted(need)) + ' bound')) if ok else
                   ('subscript of %s (extent %d) by %s: the %s bound of the caller-controlled %s is never tested before set_parameter gets here (verify_settings tests %s only)' %
                    (base_f, ev['n'], pstr(idx)[:40], ' / '.join(sorted(need - have)), fld.split('.', 1)[1], sorted(have) or 'nothing')),
                   extra={'entry': 'svt_av1_enc_set_parameter'})
            n += 1
    return n


def rule4(P, rep, apis):
    cg = P.callgraph()
    used_nt = set()
    for f in apis:
        # first blocking callee along each path
        hit = {}
        seen = set()
        st = [(f, (f.name,))]
        while st:
            g, path = st.pop()
            if g in seen:
                continue
            seen.add(g)
            for ev, n in g.calls():
                if n in BLOCKING:
                    hit.setdefault(n, (g, ev, path))
                if n in NO_TRAVERSE:
                    used_nt.add(n)
            for t in cg.get(g, ()):
                if t.name in BLOCKING or t.name in NO_TRAVERSE:
                    continue
                if t not in seen:
                    st.append((t, path + (t.name,)))
        allowed = ALLOW_BLOCK.get(f.name, set())
        extra = sorted(set(hit) - allowed)
        key = '%s/blocking' % f.name
        if extra:
            g, ev, path = hit[extra[0]]
            rep.ob('C14.4-BLOCK', key, False, g.loc(ev),
                   'blocking primitive(s) %s reachable from %s via %s; allow-list is %s' % (extra, f.name, ' -> '.join(path), sorted(allowed) or 'empty'),
                   extra={'entry': f.name, 'path': list(path)})
        else:
            rep.ob('C14.4-BLOCK', key, True, f.loc(), 'reaches only %s' % (sorted(hit) or 'no blocking primitive'), nontrivial=bool(hit))
    # the polling variants must stay non-blocking: get_packet's blocking call must be control-dependent on pic_send_done
    gp = P.fn('svt_av1_enc_get_packet')
    found = False
    for ev, n in gp.calls('svt_get_full_object'):
        found = True
        dep = any(kind in ('if', 'else') and cond is not None and any(x[0] == 'v' and x[1] == gp.params[2][0] for x in subexprs(cond))
                  for kind, cond, line in gp.ctl_chain(ev))
        rep.ob('C14.4-BLOCK', 'svt_av1_enc_get_packet/blocking-only-when-requested', dep, gp.loc(ev),
               'the blocking get is %scontrol-dependent on the caller\'s pic_send_done flag' % ('' if dep else 'NOT '))
    if not found:
        rep.note('svt_av1_enc_get_packet no longer calls svt_get_full_object directly')
    # a teardown call may wait for the pipeline threads only after it has told them to quit: the join reachable from
    # svt_av1_enc_deinit_handle must be dominated, in that same call, by the shutdown signalling (svt_shutdown_process on the
    # stage FIFOs).  Without it `init_handle; set_parameter; init; deinit_handle` blocks forever in pthread_join.
    dh = P.fn('svt_av1_enc_deinit_handle')
    reach_join = {g for g in P.fns if not g.nocfg and any(t.name == 'svt_destroy_thread' for t in P.reachable_from([g]))}
    reach_sig = {g for g in P.fns if not g.nocfg and any(t.name == 'svt_shutdown_process' for t in P.reachable_from([g]))}
    joins = [ev for ev, n in dh.calls() if n and any(t in reach_join for t in P.resolve(n, dh))]
    sigs = [ev for ev, n in dh.calls() if n and any(t in reach_sig for t in P.resolve(n, dh))]
    if not joins:
        raise AnalysisBroken('svt_av1_enc_deinit_handle no longer reaches the thread join')
    okj = all(any(dh.ev_dominates(s_, j) for s_ in sigs) for j in joins)
    rep.ob('C14.4-BLOCK', 'svt_av1_enc_deinit_handle/join-after-shutdown-signal', okj, dh.loc(joins[0]),
           'the pipeline threads are told to quit (%s) before the handle destructor joins them' % (callee_name(sigs[0]['e']) if sigs else '?') if okj else
           'the handle destructor joins the pipeline threads, but this call never tells them to quit: after svt_av1_enc_init, svt_av1_enc_deinit_handle without a preceding svt_av1_enc_deinit blocks forever in pthread_join')
    for n in sorted(used_nt):
        rep.exempt('C14.4-BLOCK', n, NO_TRAVERSE[n])
    # the non-blocking wrapper: its blocking get must be control-dependent on the emptiness peek
    nb = P.fn('svt_get_full_object_non_blocking')
    for ev, n in nb.calls('svt_get_full_object'):
        conds = [pstr(cond) for kind, cond, line in nb.ctl_chain(ev) if kind in ('if', 'else') and cond is not None]
        dep = any('fifo_empty' in c or 'empty' in c for c in conds)
        rep.ob('C14.4-BLOCK', 'svt_get_full_object_non_blocking/get-only-when-nonempty', dep, nb.loc(ev),
               'blocking get inside the non-blocking wrapper is %scontrol-dependent on the emptiness peek (%s)' % ('' if dep else 'NOT ', conds))


def rule5(P, rep):
    """C14.5-NBQUIT: the polling API (svt_av1_enc_get_packet with pic_send_done == 0, svt_av1_get_recon) goes through
    svt_get_full_object_non_blocking, which peeks and then delegates to the *blocking* get.  The blocking get consumes one
    semaphore token and, on a FIFO in quit state, returns without popping.  So if anything can put an application-consumed FIFO
    into quit state (svt_shutdown_process on the output-stream / output-recon resource), the peek must treat a quitting FIFO as
    empty - otherwise each poll burns a token and the (queued + 2)-th poll sleeps for ever.  Conditional rule: vacuous while no
    such shutdown exists, so deleting the (then dead) quit test alone does not alarm."""
    app_res = ('_EbEncHandle.output_stream_buffer_resource_ptr_array', '_EbEncHandle.output_recon_buffer_resource_ptr_array')
    shut = []
    for f in P.fns:
        if f.lib != 'Encoder' or f.nocfg:
            continue
        for ev, n in f.calls('svt_shutdown_process'):
            lf = last_field(strip(ev['e'][2][0])) if ev['e'][2] else None
            if lf in app_res:
                shut.append((f, ev, lf))
    nb = P.fn('svt_get_full_object_non_blocking')
    guarded = False
    for ev, n in nb.calls('svt_fifo_peak_front'):
        for kind, cond, line in nb.ctl_chain(ev):
            if cond is not None and not isinstance(cond[0], list) and 'EbFifo.quit_signal' in fields_in(cond):
                guarded = True
    ok = guarded or not shut
    where = shut[0][0].loc(shut[0][1]) if shut else nb.loc()
    rep.ob('C14.5-NBQUIT', 'svt_get_full_object_non_blocking/quit-aware-peek', ok, where,
           ('no application-consumed FIFO is ever shut down (%s)' % ('peek is quit-aware as well' if guarded else 'the peek does not test quit_signal')) if not shut else
           ('%s shuts down %s; the non-blocking get %s' % (shut[0][0].name, shut[0][2].split('.')[1],
            'treats a quitting FIFO as empty' if guarded else
            'still peeks a quitting FIFO as non-empty and delegates to the blocking get, which takes a token without popping: polling after that blocks for ever')),
           nontrivial=True)


def rule6(P, rep, apis):
    """C14.6-DANGLE: an API function that frees the storage a process-global pointer designates must leave that pointer reset, so
    that the same call made again (double deinit is inside the property's quantifier) finds nothing to free instead of walking
    freed memory.  Decided per (API function, global): locals that alias the global (assigned from it or from a chain walked from
    it) and are handed to free(); a store to the global after the last such free is required."""
    FREES = ('free', 'svt_aligned_free', '_aligned_free')
    n = 0
    for f in apis:
        glob_alias = {}
        ch = True
        while ch:
            ch = False
            for ev in f.events(('decl', 'st')):
                e = ev.get('e')
                if e is None:
                    continue
                name, rhs = (ev['n'], e) if ev['k'] == 'decl' else ((strip(e[2])[1], e[3]) if e[0] == 'a' and e[1] == '=' and strip(e[2])[0] == 'v' and strip(e[2])[2] == 'l' else (None, None))
                if not name:
                    continue
                r = strip(rhs)
                root = root_of(r)
                if root is None:
                    continue
                g = None
                if root[2] == 'g' and r[0] == 'v':
                    g = root[1]
                elif root[2] == 'l' and root[1] in glob_alias and r[0] in ('v', 'm'):
                    g = glob_alias[root[1]]
                if g and glob_alias.get(name) != g:
                    glob_alias[name] = g; ch = True
        if not glob_alias:
            continue
        freed = {}
        for ev, nm in f.calls(FREES):
            a = strip(ev['e'][2][0]) if ev['e'][2] else None
            if a is not None and a[0] == 'v' and a[1] in glob_alias:
                freed.setdefault(glob_alias[a[1]], []).append(ev)
        for g, evs in sorted(freed.items()):
            n += 1
            last = max(ev.get('l', 0) for ev in evs)
            resets = [ev for ev in f.events(('st',)) if ev['e'][0] == 'a' and ev['e'][1] == '=' and strip(ev['e'][2])[0] == 'v' and strip(ev['e'][2])[1] == g and strip(ev['e'][2])[2] == 'g']
            ok = any(ev.get('l', 0) > last for ev in resets)
            how = 'the global is reset afterwards'
            if not ok:
                # idempotence guard: a member that is cleared after the last free is tested, with an early return, before the first free
                first = min(ev.get('l', 0) for ev in evs)
                cleared = {last_field(strip(ev['e'][2])) for ev in f.events(('st',)) if ev['e'][0] == 'a' and ev['e'][1] == '=' and strip(ev['e'][2])[0] == 'm' and
                           strip(ev['e'][3])[0] == 'l' and strip(ev['e'][3])[1] == 0 and ev.get('l', 0) > last}
                for bid in f.reach():
                    b = f.blocks[bid]
                    c = b.get('fullcond')
                    if c is None or b.get('tk') != 'IfStmt' or b.get('tl', 0) >= first:
                        continue
                    tested = {x[1] for x in subexprs(c) if x[0] == 'm'} & cleared
                    rets = [s_ for s_ in b['succ'] if s_ is not None and any(e2['k'] == 'ret' for e2 in f.blocks[s_]['ev'])]
                    if tested and rets and all(f.block_dominates(bid, ev['b']) for ev in evs):
                        ok = True
                        how = 'a repeated call returns early: %s is cleared after the release and tested before it' % sorted(tested)[0].split('.')[1]
            rep.ob('C14.6-DANGLE', '%s/%s' % (f.name, g), ok, f.loc(evs[-1]),
                   ('the entries reachable from the process-global %s are freed; %s' % (g, how)) if ok else
                   ('%s frees the entries reachable from the process-global %s and leaves it pointing at them: calling %s again walks and frees them a second time' % (f.name, g, f.name)))
    rep.floor('C14.6-DANGLE', 1)


def rule7(P, rep, apis):
    """C14.7-LAZY: the decoder creates its multi-thread resources lazily, when the first frame header arrives
    (dec_system_resource_init), not in svt_av1_dec_init.  Teardown can therefore run before they exist (init; deinit).  Every call
    made by a teardown API function to a function that dereferences such lazily created handle members must be control-dependent
    on a test of one of them."""
    C = Classes(P)
    H = 'EbDecHandle.'
    init_fns = P.reachable_from([P.fn('svt_av1_dec_init'), P.fn('svt_av1_dec_init_handle')])
    stores = {}
    for f in P.fns:
        if f.lib != 'Decoder' or f.nocfg:
            continue
        for ev in f.events(('st',)):
            e = ev['e']
            if e[0] == 'a' and e[1] == '=':
                lf = last_field(strip(e[2]))
                if lf and lf.startswith(H) and strip(e[2])[0] == 'm':
                    r = strip(e[3])
                    if not (r[0] == 'l' and r[1] == 0):
                        stores.setdefault(lf, set()).add(f)
    ptr_fields = {H + fd['n'] for fd in P.record('EbDecHandle')['fields'] if fd.get('ptr') or '*' in fd.get('t', '')}
    lazy = {lf for lf, fs in stores.items() if lf in ptr_fields and fs and not (fs & set(init_fns))}
    if not lazy:
        raise AnalysisBroken('no lazily created decoder handle member found')
    # functions that dereference a lazy member of the handle
    def derefs_lazy(g):
        out = set()
        for ev in g.events():
            e = ev.get('e')
            if e is None:
                continue
            for x in subexprs(e):
                if x[0] in ('m', 'i') or (x[0] == 'u' and x[1] == '*'):
                    b = strip(x[3]) if x[0] == 'm' and x[2] else (strip(x[1]) if x[0] == 'i' else (strip(x[2]) if x[0] == 'u' else None))
                    if b is not None and b[0] == 'm' and b[1] in lazy:
                        out.add(b[1])
                if x[0] == 'c':
                    for a in x[2]:
                        a = strip(a)
                        if a and a[0] == 'm' and a[1] in lazy and callee_name(x) in ('svt_post_semaphore', 'svt_block_on_semaphore', 'svt_block_on_mutex', 'svt_release_mutex'):
                            out.add(a[1])
        return out
    n = 0
    for f in apis:
        if f.name not in ('svt_av1_dec_deinit', 'svt_av1_dec_deinit_handle'):
            continue
        for ev, nm in f.calls():
            if not nm:
                continue
            for t in P.resolve(nm, f):
                if t.nocfg or t.lib != 'Decoder':
                    continue
                used = derefs_lazy(t)
                if not used:
                    continue
                n += 1
                tested = set()
                for kind, cond, line in f.ctl_chain(ev):
                    if cond is not None and kind == 'if':
                        tested |= {x[1] for x in subexprs(cond) if x[0] == 'm' and x[1] in lazy}
                ok = bool(tested)
                rep.ob('C14.7-LAZY', '%s/%s' % (f.name, t.name), ok, f.loc(ev),
                       ('%s uses the lazily created %s; the call is made only when %s exists' % (t.name, sorted(x.split('.')[1] for x in used)[:3], sorted(x.split('.')[1] for x in tested)[0])) if ok else
                       ('%s dereferences %s, which exist only after the first frame header was parsed, and is called unconditionally: svt_av1_dec_init followed by %s (threads > 1, nothing decoded) crashes' %
                        (t.name, sorted(x.split('.')[1] for x in used)[:4], f.name)))
    rep.analysed_lazy = sorted(lazy)
    rep.floor('C14.7-LAZY', 1)


def rule1b(P, rep, apis):
    """C14.1b-NESTED: caller-owned metadata.  svt_metadata_array_alloc(n) hands out n NULL slots, and every public metadata
    function tolerates them; the library's own deep copy (copy_metadata_buffer) dereferences each slot unchecked.  So either the
    copy checks the slot, or the API entry detaches the caller's array before the copy (today: p_buffer->metadata = NULL).  For
    each API function that hands its EbBufferHeaderType parameter to code reaching an unchecked slot dereference, the detaching
    store must dominate the call."""
    ARR = 'SvtMetadataArray.metadata_array'
    arr_ids = [k for r in P.records.values() for k in [r['name'] + '.metadata_array'] if any(fd['n'] == 'metadata_array' for fd in r.get('fields', ()))]
    if not arr_ids:
        raise AnalysisBroken('no record with a metadata_array member')
    unchecked = set()
    summ = set()          # (function key, parameter index): metadata slots reachable from that parameter are dereferenced unchecked
    for g in P.fns:
        if g.nocfg or g.lib != 'Encoder':
            continue
        pidx = {pn: i for i, (pn, pt) in enumerate(g.params)}
        slot_locals = {}
        for ev in g.events(('decl', 'st')):
            e = ev.get('e')
            if e is None:
                continue
            name, rhs = (ev['n'], e) if ev['k'] == 'decl' else ((strip(e[2])[1], e[3]) if e[0] == 'a' and e[1] == '=' and strip(e[2])[0] == 'v' else (None, None))
            r = strip(rhs) if rhs is not None else None
            if name and r and r[0] == 'i' and last_field(strip(r[1])) in arr_ids:
                rt = root_of(r)
                slot_locals[name] = rt[1] if rt is not None else None
        for ev in g.events():
            e = ev.get('e')
            if e is None:
                continue
            for x in subexprs(e):
                if x[0] == 'm' and x[2]:
                    b = strip(x[3])
                    is_slot = (b[0] == 'v' and b[1] in slot_locals) or (b[0] == 'i' and last_field(strip(b[1])) in arr_ids)
                    if not is_slot:
                        continue
                    guarded = any(c is not None and ((b[0] == 'v' and any(y[0] == 'v' and y[1] == b[1] for y in subexprs(c))) or (b[0] == 'i' and pstr(b) in pstr(strip(c))))
                                  for k, c, l in g.ctl_chain(ev))
                    if not guarded:
                        unchecked.add(g)
                        rootname = slot_locals.get(b[1]) if b[0] == 'v' else (root_of(b)[1] if root_of(b) is not None else None)
                        if rootname in pidx:
                            summ.add((g.key, pidx[rootname]))
    ch = True
    while ch:
        ch = False
        for h in P.fns:
            if h.nocfg or h.lib != 'Encoder':
                continue
            pidx = {pn: i for i, (pn, pt) in enumerate(h.params)}
            for ev, nm in h.calls():
                if not nm:
                    continue
                for t in P.resolve(nm, h):
                    for i, a in enumerate(ev['e'][2]):
                        a = strip(a)
                        if (t.key, i) in summ and a and a[0] == 'v' and a[1] in pidx and (h.key, pidx[a[1]]) not in summ:
                            summ.add((h.key, pidx[a[1]])); ch = True
    n = 0
    for f in apis:
        bufs = [pn for pn, pt in f.params if 'EbBufferHeaderType' in pt and pt.count('*') == 1]
        for pn in bufs:
            for ev, nm in f.calls():
                if not nm:
                    continue
                if not any((t.key, i) in summ for t in P.resolve(nm, f) for i, a in enumerate(ev['e'][2]) if strip(a) and strip(a)[0] == 'v' and strip(a)[1] == pn):
                    continue
                n += 1
                det = [s_ for s_ in f.events(('st',)) if s_['e'][0] == 'a' and s_['e'][1] == '=' and last_field(strip(s_['e'][2])) == 'EbBufferHeaderType.metadata' and
                       root_of(strip(s_['e'][2])) is not None and root_of(strip(s_['e'][2]))[1] == pn and strip(s_['e'][3])[0] == 'l' and strip(s_['e'][3])[1] == 0]
                ok = any(f.ev_dominates(s_, ev) for s_ in det)
                rep.ob('C14.1b-NESTED', '%s/%s->%s' % (f.name, pn, nm), ok, f.loc(ev),
                       ('the metadata array of the caller is detached before %s, which reaches an unchecked slot dereference (%s)' % (nm, sorted(g.name for g in unchecked)[0])) if ok else
                       ('%s hands the buffer of the caller to %s, which reaches %s: each metadata slot is dereferenced without a NULL test, and a slot left empty by svt_metadata_array_alloc crashes the call' %
                        (f.name, nm, sorted(g.name for g in unchecked)[0])))
    if unchecked and not n:
        rep.note('unchecked metadata slot dereferences exist (%s) but no API function hands them a caller buffer' % sorted(g.name for g in unchecked))
    rep.ob('C14.1b-NESTED', 'slot-dereferences', True, 'Source/Lib/Encoder', '%d function(s) dereference metadata slots unchecked: %s; %d API hand-over(s) examined' % (len(unchecked), sorted(g.name for g in unchecked), n), nontrivial=bool(unchecked))
    rep.floor('C14.1b-NESTED', 1)


def run(P, rep, tier):
    apis = api_functions(P)
    if len(apis) < 20:
        raise AnalysisBroken('only %d EB_API definitions found' % len(apis))
    rep.explanation = (
        'Static decision of four structural clauses of C14 over all %d EB_API definitions of the encoder and decoder libraries: '
        '(1) may-analysis over the clang CFG proving every dereference of a pointer argument is dominated by a NULL test '
        '(interprocedural via memoised callee summaries); (2) lockset dataflow proving no API function exits with a mutex held; '
        '(3) dominance of range tests over every fixed-extent array access whose loop bound / copy length is a caller-controlled '
        'configuration count in the set_parameter/init_handle flow; (4) call-graph reachability of blocking primitives from each '
        'API function compared with a frozen allow-list. Decides the code shape on all paths, not a sampled call sequence.' % len(apis))
    rep.analysed = {'api_functions': [f.name for f in apis], 'units': len(P.units), 'functions': len(P.fns)}
    rep.assumptions = ['p_component_private of a non-NULL handle is valid (handle state, not an argument)',
                       'thread entry points / function-pointer targets are those visible as address-taken functions',
                       'clang 14 CFG; production configuration (-DNDEBUG: assert() is not a test)']
    rule1(P, rep, apis)
    rule2(P, rep, apis)
    rule3(P, rep)
    rule4(P, rep, apis)
    rule5(P, rep)
    rule6(P, rep, apis)
    rule7(P, rep, apis)
    rule1b(P, rep, apis)
    rule1c(P, rep, apis)
    rule3d(P, rep)
    rep.floor('C14.1-NULLDOM', 30)
    rep.floor('C14.2-PAIR', 1)
    rep.floor('C14.3-BOUND', 5)
    rep.floor('C14.4-BLOCK', 25)
    rep.floor('C14.5-NBQUIT', 1)


def rule1c(P, rep, apis):
    """C14.1c-PAYLOAD: payload pointers inside the caller's structures.  The picture handed to svt_av1_enc_send_picture is a header
    whose p_buffer designates an EbSvtIOFormat with three plane pointers; the buffer handed to svt_av1_get_recon is a header whose
    p_buffer the library copies into.  Each such pointer is a caller-supplied buffer pointer in the sense of the property: a use of it
    (any call argument built from it: the copy loops, the unpacking kernels) needs a NULL test of that pointer with an error return in
    the API function itself, before the call chain that uses it, or a dominating test in the using function."""
    IO = ('EbSvtIOFormat.luma', 'EbSvtIOFormat.cb', 'EbSvtIOFormat.cr')
    HB = 'EbBufferHeaderType.p_buffer'
    n = 0
    for a in apis:
        if a.lib != 'Encoder' or a.nocfg:
            continue
        hp = [i for i, (pn, pt) in enumerate(a.params) if pt.replace(' ', '') == 'EbBufferHeaderType*']
        if not hp:
            continue
        chain = [g for g in P.reachable_from([a]) if g.lib == 'Encoder' and g.sub == 'Globals' and not g.nocfg]

        def _tested_in_api(field):
            for rv in a.events(('ret',)):
                v = strip(rv.get('e')) if rv.get('e') is not None else None
                if v is not None and v[0] == 'l' and v[1] == 0:
                    continue
                for kind, cond, line in a.ctl_chain(rv)[:1]:
                    if kind == 'if' and cond is not None and any(x[0] == 'm' and x[1] == field and
                                                                  (field != HB or (len(x) > 3 and strip(x[3]) is not None and strip(x[3])[0] == 'v' and strip(x[3])[1] in hdr_names))
                                                                  for x in subexprs(cond)):
                        return True
            return False
        hdr_names = set(a.params[i][0] for i in hp)
        # which parameters of the functions of the chain receive the caller's header
        caller_param = {a.key: set(a.params[i][0] for i in hp)}
        for _ in range(3):
            for g in chain:
                own = caller_param.get(g.key, set())
                if not own:
                    continue
                for cv in g.events(('call',)):
                    for h in P.call_targets(g, cv):
                        if h not in chain:
                            continue
                        for ai, arg in enumerate(cv['e'][2] or ()):
                            x = strip(arg)
                            while x is not None and x[0] == 'k':
                                x = strip(x[-1])
                            if x is not None and x[0] == 'v' and x[1] in own and ai < len(h.params):
                                caller_param.setdefault(h.key, set()).add(h.params[ai][0])
        for g in chain:
            own = caller_param.get(g.key, set())
            for cv in g.events(('call',)):
                for arg in cv['e'][2] or ():
                    for x in subexprs(arg):
                        if x[0] != 'm':
                            continue
                        fld = None
                        if x[1] in IO:
                            fld = x[1]
                        elif x[1] == HB and len(x) > 3 and strip(x[3]) is not None and strip(x[3])[0] == 'v' and strip(x[3])[1] in own:
                            fld = x[1]           # the payload pointer handed to a copy routine or passed on to be cast
                        if not fld:
                            continue
                        n += 1
                        base = strip(x[3])[1] if len(x) > 3 and strip(x[3]) is not None and strip(x[3])[0] == 'v' else None
                        local = any(c is not None and any(y[0] == 'm' and y[1] == fld and len(y) > 3 and strip(y[3]) is not None and strip(y[3])[0] == 'v' and strip(y[3])[1] == base
                                                          for y in subexprs(c)) for k, c, l in g.ctl_chain(cv) if k == 'if')
                        ok = local or _tested_in_api(fld)
                        rep.ob('C14.1c-PAYLOAD', '%s/%s/%s@%d' % (a.name, g.name, fld.split('.')[1], cv['l']), ok, g.loc(cv),
                               ('%s is NULL-tested with an error return before %s uses it' % (fld.split('.')[1], g.name)) if ok else
                               ('%s uses the caller\'s %s (%s) without any NULL test of it on the way from %s: a header whose payload pointer is NULL crashes the library instead of being refused with EB_ErrorBadParameter' %
                                (g.name, fld.split('.')[1], pstr(strip(arg))[:50], a.name)))
    rep.floor('C14.1c-PAYLOAD', 4)


def rule3d(P, rep):
    """C14.3d-DECCFG: a member of the decoder configuration that decoder code uses as an allocation size or as a loop bound (directly or
    through a single-definition local) is range-tested, with an error return, in svt_av1_dec_set_parameter: the structure is copied
    from the caller as it is, and nothing else stands between a nonsensical count and the code that sizes its arrays with it."""
    CFG = 'EbSvtAv1DecConfiguration.'
    setp = P.fn('svt_av1_dec_set_parameter')
    uses = {}
    for f in P.fns:
        if f.lib != 'Decoder' or f.nocfg:
            continue
        loc = {}
        for d in f.events(('decl', 'st')):
            e = d.get('e')
            if e is None:
                continue
            if d['k'] == 'decl':
                n, rhs = d['n'], e
            elif e[0] == 'a' and e[1] == '=' and strip(e[2])[0] == 'v':
                n, rhs = strip(e[2])[1], e[3]
            else:
                continue
            ms = [x[1] for x in subexprs(rhs) if x[0] == 'm' and x[1].startswith(CFG)]
            if ms:
                loc[n] = ms[0]

        def members(x):
            return [y[1] for y in subexprs(x) if y[0] == 'm' and y[1].startswith(CFG)] + [loc[y[1]] for y in subexprs(x) if y[0] == 'v' and y[1] in loc]
        for par, kind, cond, line in f.ctl:
            if kind in ('for', 'while') and cond is not None:
                for m in members(cond):
                    uses.setdefault(m, []).append(('loop bound', f, line))
        for ev in f.events(('call',)):
            n = callee_name(ev['e']) or ''
            if 'alloc' in n:
                for a in ev['e'][2]:
                    for m in members(a):
                        uses.setdefault(m, []).append(('allocation size', f, ev['l']))
    if not uses:
        raise AnalysisBroken('no decoder configuration member is used as a size or loop bound')
    for m, us in sorted(uses.items()):
        tested = False
        for rv in setp.events(('ret',)):
            v = strip(rv.get('e')) if rv.get('e') is not None else None
            if v is not None and v[0] == 'l' and v[1] == 0:
                continue
            for kind, cond, line in setp.ctl_chain(rv)[:1]:
                if kind == 'if' and cond is not None and any(x[0] == 'm' and x[1] == m for x in subexprs(cond)):
                    tested = True
        kind, f, line = us[0]
        rep.ob('C14.3d-DECCFG', 'svt_av1_dec_set_parameter/%s' % m.split('.')[1], tested, setp.loc(),
               ('%s (%d uses as allocation size / loop bound, e.g. %s in %s) is range-tested by svt_av1_dec_set_parameter' % (m.split('.')[1], len(us), kind, f.name)) if tested else
               ('%s is copied from the caller untested and used %d times as allocation size / loop bound (e.g. %s in %s:%d): a nonsensical value crashes the decoder instead of being refused' % (m.split('.')[1], len(us), kind, f.name, line)))
    rep.floor('C14.3d-DECCFG', 1)
