"""C07 - every SIMD kernel is a drop-in for its C reference: the *pairing* clause only.

Bit-exact equality over all arguments is not decidable by static analysis here.  What is decided is the pairing the
property presupposes: the kernel the dispatch table installs for pointer P is an implementation of P's operation.

  C07.D1  shape tokens agree: for every dispatch entry, the block-size token (WxH) and the bit-depth token
          (highbd|hbd|lbd|lowbd|8bit|10bit|16bit) of the pointer's name and of every function installed in it are
          equal whenever both sides carry a token of that kind (a generic kernel that serves many sizes carries none)
  C07.D1b all functions installed in one pointer (C fallback and every ISA level) have the same parameter list
          (types), i.e. the table cannot pair a kernel with a reference of a different signature through a cast
  C07.D1c the C fallback of pointer P is the reference the SIMD levels are paired with: its name is P's name
          (modulo the svt_/aom_ prefixes) + `_c`, or the recorded exception
  C07.SATSIGN  belief contradiction inside a kernel: the result of a *signed-saturating* 8/16-bit add or subtract
          (_mm*_adds_epi16, _mm*_subs_epi8 ...) is later consumed by an operation that interprets the lanes as *unsigned*
          (_mm*_cvtepu16_epi32, _mm_minpos_epu16, min/max/avg_epu16).  One of the two beliefs is wrong: either the value can
          exceed the signed range (then it was clamped at 32767 / 127 and the C reference, which sums in int, differs) or the
          unsigned consumer is pointless.  Zero instances today; a witness translation unit with the pattern must match on
          every run so the rule cannot pass vacuously.  (The opposite direction, unsigned-saturating then signed max/min, is
          the code base's absolute-difference idiom - 26 sites - and is not flagged.)
"""
import re

from engine.facts import pstr, strip, subexprs, callee_name, AnalysisBroken, Fn
from engine import compdb
from engine.rtcd import dispatch_entries

PID = 'C07'

META = {
    'technique': 'dispatch-table reconstruction + agreement of the shape tokens (block size, bit depth) and of the resolved parameter-type lists between each pointer, its C reference and every installed kernel; def-use contradiction lint over intrinsic calls (signed-saturating producer, unsigned consumer) with a compiled positive witness; lane-width typestate (a vector that certainly holds full 64-bit products, by reaching definitions, accumulated with an 8/16/32-bit lane addition) with its own compiled positive witness; 16-bit lane capacity bound of the AVX2 variance family (shared with C06)',
    'text': 'Decides only the pairing that bit-exactness presupposes: each of the ~1600 installed kernels is an implementation of the operation (block size, bit depth, signature) of the slot it is installed in, and the slot\'s fallback is that operation\'s C reference. One arithmetic contradiction is decided kernel by kernel (a signed-saturating 8/16-bit sum consumed as unsigned). Beyond that, the arithmetic equality of kernel and reference over all arguments is NOT decided (that needs execution or symbolic equivalence, a different technique family). Three arithmetic hazards specific to SIMD are decided for every kernel: signed-saturating sums and packs consumed as unsigned, 64-bit products accumulated in narrower lanes, and the 16-bit sum lanes of the AVX2 variance family (closed-form capacity bound from the macro instantiation arguments). A fourth: a kernel declared to return a 64-bit sum does not end in a signed 32-bit reduction.',
    'note': 'function and pointer names are the repository\'s declared interface for kernel shape (headers, tests and tables are generated from them); a difference is reported only when both sides carry a token of the same kind',
    'ref': 'DESIGN.md section 5 C07',
}

SIZE = re.compile(r'(?<![0-9a-z])(\d{1,3})x(\d{1,3})(?![0-9])')
BD = re.compile(r'(?<![a-z0-9])(highbd|hbd|lbd|lowbd|8bit|10bit|16bit)(?![a-z0-9])')
BD_CLASS = {'highbd': 'H', 'hbd': 'H', '16bit': 'H', '10bit': 'H', 'lbd': 'L', 'lowbd': 'L', '8bit': 'L'}


def tokens(name):
    n = name.lower()
    sizes = {(int(a), int(b)) for a, b in SIZE.findall(n.replace('_', ' _').replace(' _', '_'))}
    sizes = set()
    for part in re.split(r'_', n):
        m = re.fullmatch(r'(\d{1,3})x(\d{1,3})', part)
        if m:
            sizes.add((int(m.group(1)), int(m.group(2))))
    bds = set()
    for part in re.split(r'_', n):
        if part in BD_CLASS:
            bds.add(BD_CLASS[part])
    return sizes, bds


def run(P, rep, tier):
    ents = [e for e in dispatch_entries(P) if not e[3].startswith('->')]
    rep.explanation = ('%d (pointer, installed function) pairs reconstructed from the setup functions; size and bit-depth tokens compared '
                       'pairwise; parameter-type lists compared between the functions installed in one slot.' % len(ents))
    rep.analysed = {'pairs': len(ents)}
    rep.assumptions = ['names carry the kernel shape by project convention']
    seen = set()
    byptr = {}
    for f, ev, ptr, fn, g, names in ents:
        byptr.setdefault(ptr, []).append((f, ev, fn, g))
        key = '%s<-%s' % (ptr, fn)
        if key in seen:
            continue
        seen.add(key)
        base = ptr.split('[')[0]
        ps, pb = tokens(base)
        fs, fb = tokens(fn)
        bad = []
        if ps and fs and not (ps & fs):
            bad.append('block size %s vs %s' % (sorted(ps), sorted(fs)))
        if pb and fb and not (pb & fb):
            bad.append('bit depth class %s vs %s' % (sorted(pb), sorted(fb)))
        rep.ob('C07.D1', key, not bad, f.loc(ev),
               ('%s installed in %s: shape tokens agree' % (fn, ptr)) if not bad else
               '%s installed in %s: %s - a kernel for a different operation is paired with this slot' % (fn, ptr, '; '.join(bad)),
               nontrivial=bool((ps and fs) or (pb and fb)))
    rep.floor('C07.D1', 1400)

    # ---------------- D1b: parameter lists of all functions installed in one slot
    def sig(name):
        c = P.by_name.get(name, [])
        if not c:
            return None
        return tuple(t.replace('const ', '').replace(' ', '') for _, t in c[0].params)
    n = 0
    for ptr, lst in sorted(byptr.items()):
        sigs = {}
        for f, ev, fn, g in lst:
            s = sig(fn)
            if s is not None:
                sigs.setdefault(s, []).append((fn, f, ev))
        if len(sigs) <= 1:
            if sigs:
                n += 1
                rep.ob('C07.D1b', 'slot:' + ptr, True, lst[0][0].loc(lst[0][1]), '%d installed function(s), one parameter list' % len(lst),
                       nontrivial=len(lst) > 1)
            continue
        n += 1
        # typedef spellings of one type are not distinguished by spelling: compare arity first, then normalised names
        arities = {len(s) for s in sigs}
        items = sorted(sigs.items(), key=lambda kv: -len(kv[1]))
        odd = items[1][1][0]
        ok = len(arities) == 1 and _same_modulo_typedefs(list(sigs))
        rep.ob('C07.D1b', 'slot:' + ptr, ok, odd[1].loc(odd[2]),
               'all installed functions take the same parameters' if ok else
               'functions installed in %s disagree on their parameter list: %s vs %s' % (ptr, items[0][1][0][0] + str(items[0][0]), odd[0] + str(items[1][0])))
    rep.floor('C07.D1b', 500)

    # ---------------- D1c: the fallback is the slot's C reference
    for ptr, lst in sorted(byptr.items()):
        fall = [(f, ev, fn) for f, ev, fn, g in lst if g == 'C']
        if not fall:
            continue
        f, ev, fn = fall[0]
        base = ptr.split('[')[0]
        ok = fn.endswith('_c') or fn.endswith('_c_wrapper') or '_c_' in fn or not any(fn.endswith(s) for s in ('_sse2', '_ssse3', '_sse4_1', '_avx2', '_avx512', '_sse4', '_avx'))
        rep.ob('C07.D1c', 'fallback:' + ptr, ok, f.loc(ev), 'fallback of %s is %s' % (ptr, fn) + ('' if ok else ' - an ISA-suffixed function in the reference slot'))
    rep.floor('C07.D1c', 500)
    run_satsign(P, rep)
    run_lanewidth(P, rep)
    run_retwidth(P, rep)
    # the 16-bit lane capacity of the AVX2 variance family is as much a statement about kernel == C reference as about
    # output independent of the instruction set: same rule, reported under this property too
    from rules.C06 import run_acc16
    run_acc16(P, rep, 'C07.ACC16')


TYPEDEF_EQ = [{'uint8_t', 'unsignedchar', 'EbByte'}, {'int32_t', 'int'}, {'uint32_t', 'unsignedint', 'unsigned'}, {'int16_t', 'short'},
              {'uint16_t', 'unsignedshort'}, {'int64_t', 'long', 'longlong', 'ptrdiff_t'}, {'uint64_t', 'unsignedlong', 'size_t', 'unsignedlonglong'},
              {'int8_t', 'signedchar', 'char'}]


def _norm(t):
    t = t.replace('restrict', '').replace('__', '')
    stars = t.count('*')
    b = t.replace('*', '')
    for cls in TYPEDEF_EQ:
        if b in cls:
            b = sorted(cls)[0]
            break
    return b + '*' * stars


def _same_modulo_typedefs(sigs):
    n = {tuple(_norm(t) for t in s) for s in sigs}
    return len(n) == 1


SIGNED_SAT = re.compile(r'^_mm(256|512)?_((adds|subs)_epi(8|16)|packs_epi(16|32))$')
UNS_USE = re.compile(r'^_mm(256|512)?_(cvtepu(8|16)_epi(16|32|64)|minpos_epu16|min_epu(8|16)|max_epu(8|16)|avg_epu(8|16)|sad_epu8)$')
WITNESS = """
#include <immintrin.h>
unsigned svtw_satsign(const unsigned char *a, const unsigned char *b) {
    const __m128i z = _mm_setzero_si128();
    const __m128i s0 = _mm_sad_epu8(_mm_loadu_si128((const __m128i *)a), _mm_loadu_si128((const __m128i *)b));
    const __m128i s1 = _mm_sad_epu8(_mm_loadu_si128((const __m128i *)(a + 16)), _mm_loadu_si128((const __m128i *)(b + 16)));
    const __m128i sum = _mm_adds_epi16(s0, s1);
    const __m256i w = _mm256_cvtepu16_epi32(sum);
    (void)z;
    return (unsigned)_mm256_extract_epi32(w, 0);
}
"""


def satsign_sites(fns):
    from engine.reach import ReachingDefs
    out = []
    for f in fns:
        if f.nocfg:
            continue
        if not any(x[0] == 'c' and SIGNED_SAT.match(callee_name(x) or '') for ev in f.events(('decl', 'st', 'call', 'ret')) if ev.get('e') is not None for x in subexprs(ev['e'])):
            continue
        rd = ReachingDefs(f)

        def producer_of(dv):
            """the signed-saturating intrinsic whose result this definition stores, or None"""
            if isinstance(dv, tuple):
                return None
            e = dv.get('e')
            if e is None:
                return None
            r = strip(e) if dv['k'] == 'decl' else (strip(e[3]) if dv['k'] == 'st' and e[0] == 'a' and e[1] == '=' else None)
            if r is not None and r[0] == 'c' and SIGNED_SAT.match(callee_name(r) or ''):
                return callee_name(r)
            return None
        for ev in f.events(('decl', 'st', 'call', 'ret')):
            e = ev.get('e')
            if e is None:
                continue
            for x in subexprs(e):
                if x[0] != 'c':
                    continue
                cn = callee_name(x) or ''
                if not UNS_USE.match(cn):
                    continue
                for a in x[2]:
                    a = strip(a)
                    if a and a[0] == 'v' and a[2] == 'l':
                        # flow-sensitive: every definition reaching this use is a signed-saturating result
                        ds = rd.at(ev, a[1])
                        pcs = [producer_of(dv) for dv in ds]
                        if ds and all(pcs):
                            out.append((f, ev, a[1], pcs[0], cn))
                    elif a and a[0] == 'c' and SIGNED_SAT.match(callee_name(a) or ''):
                        out.append((f, ev, pstr(a)[:30], callee_name(a), cn))
    seen, uniq = set(), []
    for t in out:
        k = (t[0].name, t[1].get('l'), t[2], t[4])
        if k not in seen:
            seen.add(k); uniq.append(t)
    return uniq


def run_satsign(P, rep, rule='C07.SATSIGN'):
    d = compdb.extract_witness('c07_satsign', WITNESS, 'ASM_AVX2/EbComputeSAD_Intrinsic_AVX2.c')
    wf = [Fn(fd, d['unit'], 'witness', '') for fd in d['functions'] if fd.get('name') == 'svtw_satsign']
    pos = satsign_sites(wf)
    if len(pos) != 1:
        raise AnalysisBroken('the positive witness of C07.SATSIGN matched %d times (expected 1): the lint is blind' % len(pos))
    kernels = [f for f in P.fns if f.lib in ('Common', 'Encoder', 'Decoder') and not f.nocfg and f.sub.startswith('ASM_')]
    if len(kernels) < 800:
        raise AnalysisBroken('only %d SIMD-unit functions analysed' % len(kernels))
    nprod = sum(1 for f in kernels for ev in f.events(('decl', 'st')) if ev.get('e') is not None and any(x[0] == 'c' and SIGNED_SAT.match(callee_name(x) or '') for x in subexprs(ev['e'])))
    sites = satsign_sites(kernels)
    rep.analysed['satsign'] = {'simd_functions': len(kernels), 'signed_saturating_results': nprod, 'positive_witness_matches': len(pos)}
    for f, ev, var, pc, uc in sites:
        rep.ob(rule, '%s/%s->%s' % (f.name, pc, uc), False, f.loc(ev),
               '%s holds the result of %s (clamped to the signed range) and is consumed by %s as unsigned: a sum above the signed maximum arrives as the clamp, a negative packed value as a large unsigned one, while the C reference computes in wider / signed arithmetic' % (var, pc, uc))
    rep.ob(rule, 'all-kernels', not sites, 'Source/Lib', '%d signed-saturating 8/16-bit results in %d SIMD-unit functions; none is consumed as unsigned (witness pattern matched: rule is live)' % (nprod, len(kernels)))
    rep.floor(rule, 1)


# ---------------- LANEWIDTH: a vector holding full 64-bit products (mul_epi32 / mul_epu32, or 64-bit sums of such) is
# accumulated with a 32-bit (or narrower) lane addition: the carry from the low into the high half of each product is lost
# once a lane's running sum passes 2^32, while the C reference accumulates in 64 bits.  Belief contradiction in the sense of
# Engler et al.: the producer says "these are 64-bit lanes", the consumer treats them as two independent 32-bit lanes.
# Decided flow-sensitively (reaching definitions of the vector local); a compiled positive witness keeps the rule live.
WIDE_PROD = re.compile(r'^_mm(256|512)?_mul_ep[iu]32$')
WIDE_KEEP = re.compile(r'^_mm(256|512)?_(add|sub)_epi64$')
NARROW_ACC = re.compile(r'^_mm(256|512)?_(h?add|h?sub|adds|subs)_epi(8|16|32)$')
WITNESS_LW = """
#include <immintrin.h>
unsigned long long svtw_lanewidth(const int *a, int n) {
    __m256i acc = _mm256_setzero_si256();
    for (int i = 0; i < n; i += 4) {
        __m256i x = _mm256_cvtepi32_epi64(_mm_loadu_si128((const __m128i *)(a + i)));
        x   = _mm256_mul_epi32(x, x);
        acc = _mm256_add_epi32(acc, x);
    }
    return (unsigned long long)_mm256_extract_epi64(acc, 0);
}
"""


def lanewidth_sites(fns):
    from engine.reach import ReachingDefs
    out = []
    for f in fns:
        if f.nocfg:
            continue
        if not any(WIDE_PROD.match(n or '') for ev, n in f.calls()) and \
           not any(x[0] == 'c' and WIDE_PROD.match(callee_name(x) or '') for ev in f.events(('decl', 'st', 'ret')) if ev.get('e') is not None for x in subexprs(ev['e'])):
            continue
        rd = ReachingDefs(f)

        def rhs_of(dv, name):
            e = dv.get('e')
            if e is None:
                return None
            if dv['k'] == 'decl':
                return strip(e)
            if dv['k'] == 'st' and e[0] == 'a' and e[1] == '=':
                return strip(e[3])
            return None

        def wide(x, ev, depth=0):
            """x certainly carries full-width 64-bit products at ev"""
            x = strip(x)
            if x is None or depth > 6:
                return False
            if x[0] == 'c':
                cn = callee_name(x) or ''
                if WIDE_PROD.match(cn):
                    return True
                if WIDE_KEEP.match(cn):
                    return any(wide(a, ev, depth + 1) for a in x[2])
                return False
            if x[0] == 'v' and x[2] == 'l':
                ds = rd.at(ev, x[1])
                if not ds:
                    return False
                ok = False
                for dv in ds:
                    if isinstance(dv, tuple):
                        return False
                    r = rhs_of(dv, x[1])
                    if r is None:
                        # declaration without initialiser / setzero: neutral
                        continue
                    if r[0] == 'c' and re.match(r'^_mm(256|512)?_setzero_si(128|256|512)$', callee_name(r) or ''):
                        continue
                    if dv is ev:
                        continue
                    if wide(r, dv, depth + 1):
                        ok = True
                    else:
                        return False
                return ok
            return False
        for ev in f.events(('decl', 'st', 'call', 'ret')):
            e = ev.get('e')
            if e is None:
                continue
            for x in subexprs(e):
                if x[0] != 'c' or not NARROW_ACC.match(callee_name(x) or ''):
                    continue
                # the target of the statement, when this call is its whole right-hand side
                tgt = None
                if ev['k'] == 'decl' and strip(e) is x:
                    tgt = ev['n']
                elif ev['k'] == 'st' and e[0] == 'a' and e[1] == '=' and strip(e[3]) is x and strip(e[2])[0] == 'v':
                    tgt = strip(e[2])[1]
                args = [strip(a) for a in x[2]]
                for ai, a in enumerate(args):
                    if not wide(a, ev):
                        continue
                    others = [b for bi, b in enumerate(args) if bi != ai]
                    # an accumulation: the other operand is the running sum the result is stored back into, or carries wide
                    # products itself.  (Adding a small rounding constant to one product before a 64-bit shift is a different
                    # idiom -- highbd iidentity -- whose safety depends on the value range; not decided here.)
                    if any((b is not None and b[0] == 'v' and b[1] == tgt) or wide(b, ev) for b in others):
                        out.append((f, ev, pstr(a)[:40], callee_name(x)))
    seen, uniq = set(), []
    for t in out:
        k = (t[0].name, t[1].get('l'), t[2], t[3])
        if k not in seen:
            seen.add(k); uniq.append(t)
    return uniq


def run_lanewidth(P, rep, rule='C07.LANEWIDTH'):
    d = compdb.extract_witness('c07_lanewidth', WITNESS_LW, 'ASM_AVX2/EbComputeSAD_Intrinsic_AVX2.c')
    wf = [Fn(fd, d['unit'], 'witness', '') for fd in d['functions'] if fd.get('name') == 'svtw_lanewidth']
    pos = lanewidth_sites(wf)
    if len(pos) != 1:
        raise AnalysisBroken('the positive witness of C07.LANEWIDTH matched %d times (expected 1): the lint is blind' % len(pos))
    kernels = [f for f in P.fns if f.lib in ('Common', 'Encoder', 'Decoder') and not f.nocfg and f.sub.startswith('ASM_')]
    nprod = sum(1 for f in kernels for ev in f.events(('decl', 'st', 'call', 'ret')) if ev.get('e') is not None
                for x in subexprs(ev['e']) if x[0] == 'c' and WIDE_PROD.match(callee_name(x) or ''))
    if nprod < 20:
        raise AnalysisBroken('only %d full-width 32x32->64 products found in the SIMD units' % nprod)
    sites = lanewidth_sites(kernels)
    rep.analysed['lanewidth'] = {'simd_functions': len(kernels), 'wide_products': nprod, 'positive_witness_matches': len(pos)}
    for f, ev, var, uc in sites:
        rep.ob(rule, '%s/%s<-%s' % (f.name, uc, var), False, f.loc(ev),
               '%s holds full 64-bit products (mul_epi32 / 64-bit sums of them) and is accumulated with %s: carries out of the low 32 bits of a lane are dropped, so once a lane sum passes 2^32 the kernel and its 64-bit C reference disagree' % (var, uc))
    rep.ob(rule, 'all-kernels', not sites, 'Source/Lib', '%d 32x32->64 products in %d SIMD-unit functions; none is accumulated with a narrower lane addition (witness pattern matched: rule is live)' % (nprod, len(kernels)))
    rep.floor(rule, 1)


# ---------------- RETWIDTH: a SIMD kernel declared to return a 64-bit sum must not end in a signed 32-bit reduction.  `return
# hadd32(...)` / `return _mm_cvtsi128_si32(x)` in a function returning uint64_t / int64_t is a belief contradiction: the signature
# says the value needs 64 bits (and the C reference accumulates in 64), the last step keeps 32 and sign-extends them.  An explicit
# unsigned cast of a 32-bit value states the narrower range on purpose and is left alone.
def run_retwidth(P, rep, rule='C07.RETWIDTH'):
    W32 = ('_mm_cvtsi128_si32', '_mm_extract_epi32', '_mm256_extract_epi32')
    kernels = [f for f in P.fns if f.lib in ('Common', 'Encoder', 'Decoder') and not f.nocfg and f.sub.startswith('ASM_')]
    n = 0
    for f in kernels:
        if f.ret.replace(' ', '') not in ('uint64_t', 'int64_t'):
            continue
        rd = None
        for ev in f.events(('ret',)):
            sources = []

            def resolve(x, casted, depth=0):
                """the calls whose value is returned: through casts and through locals with one kind of definition"""
                nonlocal rd
                while x is not None and isinstance(x, list) and x and x[0] == 'k':
                    if 'uint32_t' in str(x[1]) or 'unsigned' in str(x[1]):
                        casted = True
                    x = x[-1]
                if x is None or not isinstance(x, list) or not x:
                    return
                if x[0] == 'c':
                    sources.append((x, casted))
                elif x[0] == 'v' and x[2] == 'l' and depth < 3:
                    if rd is None:
                        from engine.reach import ReachingDefs
                        rd = ReachingDefs(f)
                    for dv in rd.at(ev, x[1]):
                        if isinstance(dv, tuple):
                            continue
                        de = dv.get('e')
                        if dv['k'] == 'decl' and de is not None:
                            # a local of an unsigned 32-bit type zero-extends like the explicit cast does
                            t = dv.get('t', '')
                            resolve(de, casted or 'uint32_t' in t or 'unsigned' in t, depth + 1)
                        elif dv['k'] == 'st' and de[0] == 'a' and de[1] == '=':
                            t = next((d.get('t', '') for d in rd.byname.get(x[1], []) if d['k'] == 'decl'), '')
                            resolve(de[3], casted or 'uint32_t' in t or 'unsigned' in t, depth + 1)
            resolve(ev.get('e'), False)
            for x, casted in sources:
                cn = callee_name(x) or ''
                g = P.fn(cn, required=False)
                rt = g.ret.replace(' ', '') if g is not None else None
                n += 1
                narrow = cn in W32 or rt in ('int32_t', 'int')
                ok = not narrow or casted
                rep.ob(rule, '%s/return:%s' % (f.name, cn), ok, f.loc(ev),
                       ('%s returns the 64-bit value of %s' % (f.name, cn)) if ok else
                       ('%s is declared to return %s but returns the signed 32-bit result of %s: a sum that reaches 2^31 comes back sign-extended, one above 2^32 wrapped, while the C reference returns the 64-bit sum' % (f.name, f.ret, cn)))
    rep.floor(rule, 8)
