"""C07 - every SIMD kernel is a drop-in for its C reference: the *pairing* clause only.

Bit-exact equality over all arguments is not decidable by static analysis here.  What is decided is the pairing the
property presupposes: the kernel the dispatch table installs for pointer P is an implementation of P's operation.

  C07.D1  shape tokens agree: for every dispatch entry, the block-size token (WxH) and the bit-depth token
          (highbd|hbd|lbd|lowbd|8bit|10bit|16bit) of the pointer's name and of every function installed in it are
          equal whenever both sides carry a token of that kind (a generic kernel that serves many sizes carries none)
  C07.D1b all functions installed in one pointer (C fallback and every ISA level) have the same parameter list
          (types), i.e. the table cannot pair a kernel with a reference of a different signature through a cast
  C07.D1c the C fallback of pointer P is the reference the SIMD levels are paired with: its name is P's name
          (modulo the svt_/aom_ prefixes) + `_c`, or the recorded exception
"""
import re

from engine.facts import pstr, strip, AnalysisBroken
from engine.rtcd import dispatch_entries

PID = 'C07'

META = {
    'technique': 'dispatch-table reconstruction + agreement of the shape tokens (block size, bit depth) and of the resolved parameter-type lists between each pointer, its C reference and every installed kernel',
    'text': 'Decides only the pairing that bit-exactness presupposes: each of the ~1600 installed kernels is an implementation of the operation (block size, bit depth, signature) of the slot it is installed in, and the slot\'s fallback is that operation\'s C reference. The arithmetic equality of kernel and reference over all arguments is NOT decided (that needs execution or symbolic equivalence, a different technique family).',
    'note': 'function and pointer names are the repository\'s declared interface for kernel shape (headers, tests and tables are generated from them); a difference is reported only when both sides carry a token of the same kind',
    'ref': 'DESIGN.md section 5 C07',
}

SIZE = re.compile(r'(?<![0-9a-z])(\d{1,3})x(\d{1,3})(?![0-9])')
BD = re.compile(r'(?<![a-z0-9])(highbd|hbd|lbd|lowbd|8bit|10bit|16bit)(?![a-z0-9])')
BD_CLASS = {'highbd': 'H', 'hbd': 'H', '16bit': 'H', '10bit': 'H', 'lbd': 'L', 'lowbd': 'L', '8bit': 'L'}


def tokens(name):
    n = name.lower()
    sizes = {(int(a), int(b)) for a, b in SIZE.findall(n.replace('_', ' _').replace(' _', '_'))}
    sizes = set()
    for part in re.split(r'_', n):
        m = re.fullmatch(r'(\d{1,3})x(\d{1,3})', part)
        if m:
            sizes.add((int(m.group(1)), int(m.group(2))))
    bds = set()
    for part in re.split(r'_', n):
        if part in BD_CLASS:
            bds.add(BD_CLASS[part])
    return sizes, bds


def run(P, rep, tier):
    ents = [e for e in dispatch_entries(P) if not e[3].startswith('->')]
    rep.explanation = ('%d (pointer, installed function) pairs reconstructed from the setup functions; size and bit-depth tokens compared '
                       'pairwise; parameter-type lists compared between the functions installed in one slot.' % len(ents))
    rep.analysed = {'pairs': len(ents)}
    rep.assumptions = ['names carry the kernel shape by project convention']
    seen = set()
    byptr = {}
    for f, ev, ptr, fn, g, names in ents:
        byptr.setdefault(ptr, []).append((f, ev, fn, g))
        key = '%s<-%s' % (ptr, fn)
        if key in seen:
            continue
        seen.add(key)
        base = ptr.split('[')[0]
        ps, pb = tokens(base)
        fs, fb = tokens(fn)
        bad = []
        if ps and fs and not (ps & fs):
            bad.append('block size %s vs %s' % (sorted(ps), sorted(fs)))
        if pb and fb and not (pb & fb):
            bad.append('bit depth class %s vs %s' % (sorted(pb), sorted(fb)))
        rep.ob('C07.D1', key, not bad, f.loc(ev),
               ('%s installed in %s: shape tokens agree' % (fn, ptr)) if not bad else
               '%s installed in %s: %s - a kernel for a different operation is paired with this slot' % (fn, ptr, '; '.join(bad)),
               nontrivial=bool((ps and fs) or (pb and fb)))
    rep.floor('C07.D1', 1400)

    # ---------------- D1b: parameter lists of all functions installed in one slot
    def sig(name):
        c = P.by_name.get(name, [])
        if not c:
            return None
        return tuple(t.replace('const ', '').replace(' ', '') for _, t in c[0].params)
    n = 0
    for ptr, lst in sorted(byptr.items()):
        sigs = {}
        for f, ev, fn, g in lst:
            s = sig(fn)
            if s is not None:
                sigs.setdefault(s, []).append((fn, f, ev))
        if len(sigs) <= 1:
            if sigs:
                n += 1
                rep.ob('C07.D1b', 'slot:' + ptr, True, lst[0][0].loc(lst[0][1]), '%d installed function(s), one parameter list' % len(lst),
                       nontrivial=len(lst) > 1)
            continue
        n += 1
        # typedef spellings of one type are not distinguished by spelling: compare arity first, then normalised names
        arities = {len(s) for s in sigs}
        items = sorted(sigs.items(), key=lambda kv: -len(kv[1]))
        odd = items[1][1][0]
        ok = len(arities) == 1 and _same_modulo_typedefs(list(sigs))
        rep.ob('C07.D1b', 'slot:' + ptr, ok, odd[1].loc(odd[2]),
               'all installed functions take the same parameters' if ok else
               'functions installed in %s disagree on their parameter list: %s vs %s' % (ptr, items[0][1][0][0] + str(items[0][0]), odd[0] + str(items[1][0])))
    rep.floor('C07.D1b', 500)

    # ---------------- D1c: the fallback is the slot's C reference
    for ptr, lst in sorted(byptr.items()):
        fall = [(f, ev, fn) for f, ev, fn, g in lst if g == 'C']
        if not fall:
            continue
        f, ev, fn = fall[0]
        base = ptr.split('[')[0]
        ok = fn.endswith('_c') or fn.endswith('_c_wrapper') or '_c_' in fn or not any(fn.endswith(s) for s in ('_sse2', '_ssse3', '_sse4_1', '_avx2', '_avx512', '_sse4', '_avx'))
        rep.ob('C07.D1c', 'fallback:' + ptr, ok, f.loc(ev), 'fallback of %s is %s' % (ptr, fn) + ('' if ok else ' - an ISA-suffixed function in the reference slot'))
    rep.floor('C07.D1c', 500)


TYPEDEF_EQ = [{'uint8_t', 'unsignedchar', 'EbByte'}, {'int32_t', 'int'}, {'uint32_t', 'unsignedint', 'unsigned'}, {'int16_t', 'short'},
              {'uint16_t', 'unsignedshort'}, {'int64_t', 'long', 'longlong', 'ptrdiff_t'}, {'uint64_t', 'unsignedlong', 'size_t', 'unsignedlonglong'},
              {'int8_t', 'signedchar', 'char'}]


def _norm(t):
    t = t.replace('restrict', '').replace('__', '')
    stars = t.count('*')
    b = t.replace('*', '')
    for cls in TYPEDEF_EQ:
        if b in cls:
            b = sorted(cls)[0]
            break
    return b + '*' * stars


def _same_modulo_typedefs(sigs):
    n = {tuple(_norm(t) for t in s) for s in sigs}
    return len(n) == 1
