"""C17 - concurrent instances do not interfere: inventory of process-global mutable state.

Every variable with static storage in the three libraries is enumerated with all its writers (direct stores, ++/--,
element stores, memset/memcpy destinations, address handed to a callee that writes through the corresponding parameter).
There is no process-wide lock or once-flag in the code base, so

  C17.GLOBAL  a non-const global written by code reachable from the API (handle creation, init, run time, teardown) is
              shared unsynchronised state between instances: one finding per (global, writer function).  Findings that
              exist today are frozen in known_findings.json; a new mutable global, or a new writer of an existing one, is a
              violation.  Dispatch (RTCD) pointer tables are grouped per setup function.
  C17.ESCAPE  the address of mutable process-global storage does not escape into instance-owned storage: a small points-to
              analysis follows every address-of / array decay of a mutable global, and every pointer read out of a (const)
              global table whose initialiser holds such addresses ("carrier"), through locals, pointer arithmetic, returns
              and one level of callee parameters.  Each use must be a read: an indexed load, a read-only argument (memcpy
              source, a parameter the callee neither writes through nor stores), a comparison.  A store of such a pointer
              into a member / heap cell with a non-const pointee, a whole-struct copy out of a carrier, or a write through
              such a pointer makes one instance's later writes land in storage every instance shares.
  C17.NOLOCK  the premise is re-checked on every run: no mutex that is itself a process global exists (if one appears, the
              rule must be revisited: analysis broken rather than a silent pass)
"""
from engine.facts import pstr, strip, callee_name, subexprs, root_of, last_field, AnalysisBroken
from engine.classes import Classes

PID = 'C17'

META = {
    'technique': 'whole-program inventory of variables with static storage and of their writers (type-resolved stores, memset/memcpy destinations, one-level interprocedural write-through-pointer summaries) joined with call-graph reachability from the API; flow-insensitive points-to / escape analysis of addresses of mutable globals (through locals, returns, carrier tables and callee parameter summaries)',
    'text': 'Decides (GLOBAL) the clause "instances share no unsynchronised mutable state" structurally: every mutable process global and every function that writes it is enumerated from the whole program; each (global, writer) pair reachable from the API is a point where two instances interfere. The pairs that exist today are genuine multi-instance defects recorded as known findings; the check fails on any new global or new writer. C17.ESCAPE additionally shows that no pointer into mutable global storage is planted in per-instance structures (so the inventory of writers is complete with respect to aliasing through instance pointers). Interference through the heap or the OS is not decided.',
    'note': 'logging configuration (g_log_file, g_log_level) is process-wide by design and exempt with that reason; writers that are dead code are ignored',
    'ref': 'DESIGN.md section 5 C17',
}

BY_DESIGN = {'g_log_file': 'process-wide logging configuration, set once from the environment by svt_log_init',
             'g_log_level': 'process-wide logging configuration, set once from the environment by svt_log_init'}
MEMW = {'__builtin_memset': (0,), '__builtin_memcpy': (0,), 'memset': (0,), 'memcpy': (0,), 'svt_memcpy': (0,), 'memmove': (0,), 'rand_r': (0,), 'svt_memcpy_c': (0,), 'strcpy': (0,), 'strncpy': (0,),
        'EB_MEMSET': (0,), 'fread': (0,)}


def cname(e):
    """callee name, also for calls through a process-global function pointer (RTCD slots such as svt_memcpy)"""
    n = callee_name(e)
    if n is None and e[1] and e[1][0] == 'v' and e[1][2] in ('g', 's'):
        return e[1][1]
    return n


def param_write_summary(P):
    """{(fn name, param index)} for functions that store through a pointer parameter (p[i] = .., *p = .., p->f = ..)."""
    out = set()
    for f in P.fns:
        if f.nocfg:
            continue
        pn = {n: i for i, (n, t) in enumerate(f.params) if t.rstrip().endswith('*') or '[' in t}
        if not pn:
            continue
        for ev in f.events(('st', 'call')):
            e = ev['e']
            if ev['k'] == 'st':
                t = strip(e[2]) if e[0] in ('a', 'u') else None
                if t is None or t[0] == 'v':
                    continue
                r = root_of(t)
                if r is not None and r[1] in pn and r[2].startswith('p'):
                    out.add((f.name, pn[r[1]]))
            else:
                n = callee_name(e)
                if n in MEMW:
                    for i in MEMW[n]:
                        if i < len(e[2]):
                            r = root_of(strip(e[2][i]))
                            if r is not None and r[1] in pn and r[2].startswith('p'):
                                out.add((f.name, pn[r[1]]))
    return out


def run(P, rep, tier):
    C = Classes(P)
    libs = ('Common', 'Encoder', 'Decoder')
    gl = {}
    for g in P.globals:
        if g.get('lib') in libs and g.get('def'):
            gl.setdefault(g['name'], g)
    mutable = {n: g for n, g in gl.items() if not g['const']}
    if len(gl) < 300 or len(mutable) < 100:
        raise AnalysisBroken('inventory too small: %d globals, %d mutable' % (len(gl), len(mutable)))
    pws = param_write_summary(P)
    writers = {}      # global -> {fn name: (Fn, ev, how)}
    for f in P.fns:
        if f.lib not in libs or f.nocfg or f in C.dead:
            continue
        for ev in f.events(('st', 'call')):
            e = ev['e']
            if ev['k'] == 'st':
                t = strip(e[2]) if e[0] in ('a', 'u') else None
                r = root_of(t) if t is not None else None
                if r is not None and r[2] in ('g', 's') and r[1] in mutable:
                    mx = ev.get('mx') or ()
                    if mx and mx[0].endswith('_DEC'):
                        # the decoder's allocation macros update the memory-map globals at every expansion site: one
                        # writer (the macro) instead of one per expanding function
                        writers.setdefault(r[1], {}).setdefault('macro:' + mx[0], (f, ev, 'store inside the expansion of %s (first site shown)' % mx[0]))
                    else:
                        writers.setdefault(r[1], {}).setdefault(f.name, (f, ev, 'store'))
            else:
                n = cname(e)
                for i, a in enumerate(e[2]):
                    a0 = strip(a)
                    r = root_of(a0)
                    if r is None or r[2] not in ('g', 's') or r[1] not in mutable:
                        continue
                    # by address / as array (decays): &g, g (array), &g[i], g[i] when g is pointer-to-array element
                    is_addr = (a0[0] == 'u' and a0[1] == '&') or (a0[0] == 'v' and 'n' in mutable[r[1]]) or \
                              (a0[0] == 'i' and mutable[r[1]].get('type', '').count('[') > 1)
                    if not is_addr:
                        continue
                    if (n in MEMW and i in MEMW[n]) or (n, i) in pws:
                        writers.setdefault(r[1], {}).setdefault(f.name, (f, ev, 'written through argument %d of %s' % (i, n)))
    rep.explanation = ('%d variables with static storage defined in the three libraries, %d of them mutable (%d function-pointer dispatch '
                       'slots); writers collected from %d live functions; every (global, writer) pair is one instance.' %
                       (len(gl), len(mutable), sum(1 for g in mutable.values() if g.get('fnptr')), sum(1 for f in P.fns if f.lib in libs and f not in C.dead)))
    rep.analysed = {'globals': len(gl), 'mutable': len(mutable), 'written': len(writers)}
    rep.assumptions = ['no process-wide lock exists (re-checked: C17.NOLOCK)', 'dead functions do not run']

    # ---------------- NOLOCK premise
    glock = [n for n, g in mutable.items() if 'pthread_mutex_t' in g.get('type', '') or (g.get('type', '') in ('EbHandle', 'void *') and 'mutex' in n.lower())]
    # ... or any global handed directly to the lock primitive
    for f in P.fns:
        for ev, n in f.calls(('svt_block_on_mutex', 'pthread_mutex_lock')):
            a = strip(ev['e'][2][0]) if ev['e'][2] else None
            if a is not None and (a[0] == 'v' or (a[0] == 'u' and a[1] == '&' and strip(a[2])[0] == 'v')):
                r = root_of(a)
                if r is not None and r[2] in ('g', 's'):
                    glock.append(r[1])
    once = [n for n, g in mutable.items() if 'pthread_once' in g.get('type', '')]
    if glock or once:
        raise AnalysisBroken('a process-global lock / once-flag now exists (%s): C17 must be re-derived' % (glock + once))
    rep.ob('C17.NOLOCK', 'no-process-wide-lock', True, 'Source/Lib', 'no mutex or once-flag with static storage exists; every write to a global is unsynchronised between instances')

    # ---------------- ESCAPE (also yields writers that reach a global through a pointer)
    for name, f, ev, how in run_escape(P, rep, C, gl, mutable, libs):
        if name in mutable:
            writers.setdefault(name, {}).setdefault(f.name, (f, ev, how))

    # ---------------- GLOBAL
    rtcd_groups = {}
    nrep = 0
    for name in sorted(writers):
        g = mutable[name]
        for wname, (f, ev, how) in sorted(writers[name].items()):
            if g.get('fnptr'):
                rtcd_groups.setdefault(wname, []).append((name, f, ev))
                continue
            if name in BY_DESIGN:
                rep.exempt('C17.GLOBAL', name, BY_DESIGN[name])
                rep.ob('C17.GLOBAL', 'global:%s/%s' % (name, wname), True, f.loc(ev), 'exempt: ' + BY_DESIGN[name], nontrivial=False)
                continue
            nrep += 1
            rep.ob('C17.GLOBAL', 'global:%s/%s' % (name, wname), False, f.loc(ev),
                   'process-global %s (%s, %s:%d)%s is written by %s [%s] (%s) with no process-wide synchronisation: concurrent instances interfere' %
                   (name, g.get('type', '?'), g['file'].replace('/repo/', ''), g['line'],
                    (' static local of ' + g['infn']) if g.get('infn') else '', wname, C.cls(f), how))
    for wname, lst in sorted(rtcd_groups.items()):
        name, f, ev = lst[0]
        rep.ob('C17.GLOBAL', 'dispatch-table/%s' % wname, False, f.loc(ev),
               '%d function-pointer dispatch slots (e.g. %s) are (re)written by %s [%s] for every instance with that instance\'s CPU flags / bit depth: '
               'concurrent with another instance\'s calls through them' % (len(lst), name, wname, C.cls(f)))
    rep.floor('C17.GLOBAL', 30)
    unwritten = [n for n in mutable if n not in writers and not mutable[n].get('fnptr')]
    rep.note('%d mutable globals have no writer in live code (could be const): %s' % (len(unwritten), sorted(unwritten)[:12]))


# --------------------------------------------------------------------------------------------------------------- ESCAPE
READ_ONLY_EXTERNALS = {'memcmp': None, 'strcmp': None, 'strncmp': None, 'strlen': None, 'printf': None, 'fprintf': None, 'fwrite': None, 'svt_log': None,
                       'snprintf': (2, 3, 4, 5, 6, 7, 8, 9), 'sprintf': (1, 2, 3, 4, 5, 6, 7, 8), 'fputs': None, 'fopen': None, 'getenv': None,
                       'memcpy': (1,), 'svt_memcpy': (1,), 'svt_memcpy_c': (1,), 'memmove': (1,), 'strcpy': (1,), 'strncpy': (1,), 'strtol': (0,), 'strtoul': (0,),
                       'svt_print_alloc_fail': None, '__assert_fail': None,
                       'pthread_setaffinity_np': None, 'sched_setaffinity': None, 'SetThreadGroupAffinity': None}


def _is_array_type(t):
    return '[' in (t or '')


def run_escape(P, rep, C, gl, mutable, libs):
    MG = {n for n, g in mutable.items() if not g.get('fnptr')}

    def grefs(e):
        return {x[1] for x in subexprs(e) if x[0] == 'v' and x[2] in ('g', 's')}
    carriers = {}        # global -> all mutable globals whose address it holds
    cfield = {}          # global -> {member id or '*': targets}  (which member holds which address, from the initialiser)
    for n, g in gl.items():
        if g.get('e') is not None:
            t = grefs(g['e']) & MG
            if not t:
                continue
            carriers[n] = set(t)
            rt = g.get('type', '').replace('const ', '').split('[')[0].strip()
            rec = P.records.get(rt)
            fm = cfield.setdefault(n, {})
            rows = g['e'][1] if g['e'][0] == 'il' else []
            for row in rows:
                if rec and row and row[0] == 'il' and len(row[1]) <= len(rec['fields']):
                    for j, x in enumerate(row[1]):
                        tj = grefs(x) & MG
                        if tj:
                            fm.setdefault(rt + '.' + rec['fields'][j]['n'], set()).update(tj)
                else:
                    tj = grefs(row) & MG
                    if tj:
                        fm.setdefault('*', set()).update(tj)
            if not rows:
                fm['*'] = set(t)
    live = [f for f in P.fns if f.lib in libs and not f.nocfg and f not in C.dead]
    ftypes = {}
    for rn, r in P.records.items():
        for fd in r.get('fields', ()):
            ftypes[rn + '.' + fd['n']] = fd.get('t', '')

    def ltypes(f, env):
        d = {n: t for n, t in f.params}
        for ev in f.events(('decl',)):
            d[env.key(ev['n'], ev)] = ev.get('t', '')
        return d

    class Env:
        """per-function state; a local name declared more than once (sibling scopes) is split per declaration, resolved
        through the structured-control id of the event being evaluated"""

        def __init__(self, f):
            self.f = f
            self.ev = None
            self.multi = {}
            seen = {}
            for ev in f.events(('decl',)):
                seen.setdefault(ev['n'], []).append(ev.get('ctl', -1))
            self.multi = {n: c for n, c in seen.items() if len(c) > 1}

        def anc(self, c):
            out = []
            while c is not None and c >= 0:
                out.append(c)
                c = self.f.ctl[c][0]
            out.append(-1)
            return out

        def key(self, name, ev=None):
            if name not in self.multi:
                return name
            ev = ev if ev is not None else self.ev
            if ev is None:
                return name
            for c in self.anc(ev.get('ctl', -1)):
                if c in self.multi[name]:
                    return '%s#%d' % (name, c)
            return name

    def callees(f, ev):
        """names of the functions a call may reach: the direct callee, or the implementations behind a dispatch pointer"""
        e = ev['e']
        n = cname(e) or ''
        if n in MEMW or n in READ_ONLY_EXTERNALS or (callee_name(e) and P.by_name.get(n)):
            return [n]
        ts = sorted({t.name for t in P.call_targets(f, ev)})
        return ts or [n]

    def tag(e):
        if e[0] == 'm':
            return e[4] if len(e) > 4 else ''
        if e[0] == 'i' or (e[0] == 'u' and e[1] == '*'):
            return e[3] if len(e) > 3 else ''
        return ''

    def is_array_lv(e, env):
        e = strip(e)
        if e[0] in ('m', 'i') or (e[0] == 'u' and e[1] == '*'):
            return tag(e) == 'a'
        if e[0] == 'v':
            if e[2] in ('g', 's'):
                return _is_array_type(gl.get(e[1], {}).get('type', ''))
            return _is_array_type(env.lt.get(env.key(e[1]), '')) and not e[2].startswith('p')
        if e[0] == 'm':
            return _is_array_type(ftypes.get(e[1], ''))
        if e[0] == 'i':
            b = strip(e[1])
            if b[0] == 'v' and b[2] in ('g', 's'):
                return gl.get(b[1], {}).get('type', '').count('[') > 1
            if b[0] == 'm':
                return ftypes.get(b[1], '').count('[') > 1
            if b[0] == 'v':
                return env.lt.get(env.key(b[1]), '').count('[') > 1
        return False

    def storage(e, env):
        """where the lvalue e lives: ('var', v-node) or ('deref', pointer expression)"""
        e = strip(e)
        if not e:
            return None
        if e[0] == 'v':
            return ('var', e)
        if e[0] == 'm':
            return ('deref', e[3]) if e[2] else storage(e[3], env)
        if e[0] == 'i':
            return storage(e[1], env) if is_array_lv(e[1], env) else ('deref', e[1])
        if e[0] == 'u' and e[1] == '*':
            return ('deref', e[2])
        return None

    RET = {}     # function name -> markers its return value may carry

    def pv(e, env, depth=0):
        """markers of the storage a pointer-valued expression may point into: 'G:<mutable global>' / 'H:<carrier>'"""
        e = strip(e)
        if not e or not isinstance(e[0], str) or depth > 12:
            return set()
        k = e[0]
        if k == 'v':
            if e[2] in ('g', 's'):
                if is_array_lv(e, env):
                    out = set()
                    if e[1] in MG:
                        out.add('G:' + e[1])
                    if e[1] in carriers:
                        out.add('H:' + e[1])
                    return out
                return set()
            return set(env.gp.get(env.key(e[1]), ()))
        if k == 'u' and e[1] == '&':
            st = storage(e[2], env)
            if st is None:
                return set()
            if st[0] == 'var':
                v = st[1]
                if v[2] in ('g', 's'):
                    out = set()
                    if v[1] in MG:
                        out.add('G:' + v[1])
                    if v[1] in carriers:
                        out.add('H:' + v[1])
                    return out
                return set()
            return pv(st[1], env, depth + 1)
        if k == 'b' and e[1] in ('+', '-'):
            return pv(e[2], env, depth + 1) | pv(e[3], env, depth + 1)
        if k == 'q':
            return pv(e[2], env, depth + 1) | pv(e[3], env, depth + 1)
        if k == 'a' and e[1] == '=':
            return pv(e[3], env, depth + 1)
        if k == 'c':
            return set(RET.get(cname(e) or '', ()))
        if k in ('m', 'i') or (k == 'u' and e[1] == '*'):
            t = tag(e)
            st = storage(e, env)
            if t == 'a':
                # array member / row of a 2-D array: decays to a pointer into the same storage
                if st and st[0] == 'var' and st[1][2] in ('g', 's'):
                    n = st[1][1]
                    return ({'G:' + n} if n in MG else set()) | ({'H:' + n} if n in carriers else set())
                if st and st[0] == 'deref':
                    return pv(st[1], env, depth + 1)
                return set()
            if t != 'p':
                return set()
            # a pointer read out of storage: only carriers (tables holding addresses of mutable globals) matter
            hs = set()
            if st and st[0] == 'var' and st[1][2] in ('g', 's') and st[1][1] in carriers:
                hs.add(st[1][1])
            elif st and st[0] == 'deref':
                hs |= {m[2:] for m in pv(st[1], env, depth + 1) if m[2:] in carriers}
            out = set()
            fid = e[1] if k == 'm' else None
            for h in hs:
                fm = cfield.get(h, {})
                tg = set(fm.get('*', ())) | (set(fm.get(fid, ())) if fid else set().union(*fm.values()) if fm else set())
                out |= {'G:' + x for x in tg}
            return out
        return set()

    def build_env(f):
        env = Env(f)
        env.lt = ltypes(f, env)
        env.gp = {}
        ch = True
        n = 0
        while ch and n < 8:
            ch = False
            n += 1
            for ev in f.events(('decl', 'st')):
                e = ev.get('e')
                if e is None:
                    continue
                if ev['k'] == 'decl':
                    name, rhs = ev['n'], e
                elif e[0] == 'a' and e[1] in ('=', '+=', '-=') and strip(e[2])[0] == 'v' and not strip(e[2])[2] in ('g', 's'):
                    name, rhs = strip(e[2])[1], e[3]
                else:
                    continue
                env.ev = ev
                name = env.key(name, ev)
                if '*' not in env.lt.get(name, '*') and '[' not in env.lt.get(name, ''):
                    continue
                m = pv(rhs, env)
                if m - env.gp.get(name, set()):
                    env.gp.setdefault(name, set()).update(m); ch = True
        return env

    # callee parameter summaries (transitive): writes through / lets escape parameter i
    pw, pe = set(), set()
    ch = True
    rounds = 0
    while ch and rounds < 6:
        ch = False
        rounds += 1
        for f in P.fns:
            if f.nocfg or f.lib not in libs:
                continue
            pn = {n: i for i, (n, t) in enumerate(f.params) if t.rstrip().endswith('*') or '[' in t}
            if not pn:
                continue

            def proot(x):
                x = strip(x)
                while x and x[0] in ('b', 'u'):
                    if x[0] == 'b' and x[1] in ('+', '-'):
                        x = strip(x[2])
                    elif x[0] == 'u' and x[1] == '&':
                        x = strip(x[2])
                        while x and x[0] in ('i', 'm'):       # &p[i], &p[i].f, &p->f : still inside p's pointee
                            x = strip(x[1] if x[0] == 'i' else x[3])
                    else:
                        break
                return x[1] if x and x[0] == 'v' and x[2].startswith('p') and x[1] in pn else None
            for ev in f.events(('st', 'call', 'ret')):
                e = ev.get('e')
                if e is None:
                    continue
                if ev['k'] == 'st':
                    t = strip(e[2]) if e[0] in ('a', 'u') else None
                    if t is None:
                        continue
                    if t[0] != 'v':
                        r = root_of(t)
                        if r is not None and r[1] in pn and r[2].startswith('p') and (f.name, pn[r[1]]) not in pw:
                            pw.add((f.name, pn[r[1]])); ch = True
                        if e[0] == 'a' and e[1] == '=':
                            p = proot(e[3])
                            if p and (f.name, pn[p]) not in pe and 'const' not in ftypes.get(last_field(t) or '', '').split('*')[0]:
                                pe.add((f.name, pn[p])); ch = True
                elif ev['k'] == 'ret':
                    p = proot(e)
                    if p and (f.name, pn[p]) not in pe:
                        pe.add((f.name, pn[p])); ch = True
                else:
                    ns = None
                    for i, a in enumerate(e[2]):
                        p = proot(a)
                        if not p:
                            continue
                        if ns is None:
                            ns = callees(f, ev)
                        if any((n in MEMW and i in MEMW[n]) or (n, i) in pw for n in ns) and (f.name, pn[p]) not in pw:
                            pw.add((f.name, pn[p])); ch = True
                        if any((n, i) in pe for n in ns) and (f.name, pn[p]) not in pe:
                            pe.add((f.name, pn[p])); ch = True

    def analyse():
        # functions returning global addresses (fixpoint)
        envs = {}
        ch = True
        rounds = 0
        while ch and rounds < 5:
            ch = False
            rounds += 1
            for f in live:
                env = build_env(f)
                envs[f.key] = env
                for ev in f.events(('ret',)):
                    if ev.get('e') is None:
                        continue
                    env.ev = ev
                    m = pv(ev['e'], env)
                    if m - RET.get(f.name, set()):
                        RET.setdefault(f.name, set()).update(m); ch = True

        sites = {}     # (fn, marker) -> list of (ok, loc, text)
        alias_writes = []
        grew = []

        def add(f, ev, ms, ok, text):
            for m in ms:
                sites.setdefault((f.name, m), []).append((ok, f.loc(ev), text))

        externals = set()
        for f in live:
            env = envs[f.key]
            for ev in f.events(('st', 'call', 'decl', 'ret')):
                e = ev.get('e')
                if e is None:
                    continue
                env.ev = ev
                if ev['k'] == 'decl':
                    m = pv(e, env)
                    if m:
                        add(f, ev, m, True, 'held in local %s (uses followed)' % ev['n'])
                    continue
                if ev['k'] == 'ret':
                    m = pv(e, env)
                    if m:
                        api = f in C.api if hasattr(C, 'api') else False
                        add(f, ev, m, True, 'returned to the caller (followed there)')
                    continue
                if ev['k'] == 'st':
                    if e[0] not in ('a', 'u'):
                        continue
                    lhs = strip(e[2])
                    st = storage(lhs, env)
                    if lhs[0] != 'v' and st and st[0] == 'deref':
                        w = {m for m in pv(st[1], env) if m.startswith('G:')}
                        if w:
                            add(f, ev, w, True, 'write through a pointer into the global (%s): counted as a writer under C17.GLOBAL' % pstr(e)[:50])
                            for x in w:
                                alias_writes.append((x[2:], f, ev, 'store through a pointer into it: %s' % pstr(e)[:50]))
                    if e[0] != 'a' or e[1] != '=':
                        continue
                    m = pv(e[3], env)
                    if lhs[0] == 'v' and lhs[2] not in ('g', 's'):
                        continue
                    gm = {x for x in m if x.startswith('G:')}
                    if gm:
                        lf = last_field(lhs)
                        ft = ftypes.get(lf or '', '')
                        if lhs[0] == 'v':
                            ft = gl.get(lhs[1], {}).get('type', '')
                        ro = 'const' in ft.split('*')[0] and '*' in ft
                        dglob = set()
                        if st and st[0] == 'var' and st[1][2] in ('g', 's'):
                            dglob.add(st[1][1])
                        elif st and st[0] == 'deref':
                            dglob |= {x[2:] for x in pv(st[1], env)}
                        if dglob and not ro:
                            # global-to-global link: not instance-owned storage; the destination becomes a carrier
                            for d in dglob:
                                fk = lf if lhs[0] == 'm' and lf else '*'
                                if not ({x[2:] for x in gm} <= cfield.get(d, {}).get(fk, set())):
                                    carriers.setdefault(d, set()).update(x[2:] for x in gm)
                                    cfield.setdefault(d, {}).setdefault(fk, set()).update(x[2:] for x in gm)
                                    grew.append(d)
                            add(f, ev, gm, True, 'stored into process-global %s (global-to-global link; readers of that table are followed)' % sorted(dglob)[0])
                            continue
                        add(f, ev, gm, ro, ('stored into %s as a pointer to const' if ro else 'ESCAPES: stored into %s, a pointer through which the pointee can be written') % pstr(lhs)[:50])
                    # whole-struct copy out of a carrier
                    r = strip(e[3])
                    if r[0] in ('i',) or (r[0] == 'u' and r[1] == '*'):
                        st2 = storage(r, env)
                        hs = set()
                        if st2 and st2[0] == 'var' and st2[1][2] in ('g', 's') and st2[1][1] in carriers and strip(r[1] if r[0] == 'i' else r[2])[0] == 'v':
                            hs.add(st2[1][1])
                        elif st2 and st2[0] == 'deref':
                            hs |= {x[2:] for x in pv(st2[1], env) if x.startswith('H:')}
                        for h in hs:
                            if 'struct' in gl[h].get('type', '') or gl[h].get('type', '').replace('const ', '').split('[')[0].strip() in P.records:
                                add(f, ev, {'H:' + h}, False, 'ESCAPES: element of %s (which holds addresses of mutable globals) copied by value into %s' % (h, pstr(lhs)[:40]))
                    continue
                # calls
                n = cname(e) or ''
                for i, a in enumerate(e[2]):
                    m = pv(a, env)
                    if not m:
                        continue
                    a0 = strip(a)
                    direct = root_of(a0) is not None and root_of(a0)[2] in ('g', 's') and not any(x[0] == 'm' and x[2] for x in subexprs(a0))
                    gm = {x for x in m if x.startswith('G:')}
                    hm = {x for x in m if x.startswith('H:')}
                    ns = callees(f, ev)
                    writes = any((x in MEMW and i in MEMW[x]) or (x, i) in pw for x in ns)
                    if gm and writes:
                        if direct:
                            add(f, ev, gm, True, 'written through argument %d of %s: recorded as a writer under C17.GLOBAL' % (i, n))
                        else:
                            add(f, ev, gm, True, 'written through a pointer into it handed to %s: counted as a writer under C17.GLOBAL' % n)
                            for x in gm:
                                alias_writes.append((x[2:], f, ev, 'written through a pointer into it passed as argument %d of %s' % (i, n)))
                        continue
                    if gm and any((x, i) in pe for x in ns):
                        add(f, ev, gm, False, 'ESCAPES: %s stores / returns its parameter %d' % (n, i))
                        continue
                    if hm and n in ('memcpy', 'svt_memcpy', 'svt_memcpy_c', 'memmove') and i == 1:
                        for h in hm:
                            rt = gl[h[2:]].get('type', '').replace('const ', '').split('[')[0].strip()
                            if rt in P.records and any(fd.get('ptr') for fd in P.records[rt].get('fields', ())):
                                add(f, ev, {h}, False, 'ESCAPES: bytes of %s, whose elements hold addresses of mutable globals (%s), copied into %s' %
                                    (h[2:], ', '.join(sorted(carriers[h[2:]])[:2]), pstr(strip(e[2][0]))[:50]))
                            else:
                                add(f, ev, {h}, True, 'read-only source of %s' % n)
                        continue
                    if all(P.by_name.get(x) for x in ns):
                        add(f, ev, m, True, 'argument %d of %s%s, which neither writes through nor keeps that parameter' % (i, n, '' if ns == [n] else ' (%d implementations)' % len(ns)))
                    elif n in READ_ONLY_EXTERNALS and (READ_ONLY_EXTERNALS[n] is None or i in READ_ONLY_EXTERNALS[n]):
                        add(f, ev, m, True, 'read-only argument of %s' % n)
                    else:
                        externals.add(n)
                        add(f, ev, m, False, 'argument %d of %s: external / indirect callee with unknown effect on the pointee' % (i, n or pstr(e[1])[:30]))
        return envs, sites, alias_writes, grew, externals

    for _round in range(5):
        envs, sites, alias_writes, grew, externals = analyse()
        if not grew:
            break
    nsite = 0
    for (fn, m), lst in sorted(sites.items()):
        bad = [x for x in lst if not x[0]]
        nsite += 1
        what = ('mutable global %s' % m[2:]) if m.startswith('G:') else ('carrier table %s (holds addresses of %s)' % (m[2:], ', '.join(sorted(carriers[m[2:]])[:3])))
        if bad:
            rep.ob('C17.ESCAPE', 'addr:%s@%s' % (m[2:], fn), False, bad[0][1], 'address of %s: %s' % (what, bad[0][2]))
        else:
            rep.ob('C17.ESCAPE', 'addr:%s@%s' % (m[2:], fn), True, lst[0][1], 'address of %s is only read through here (%d uses: %s)' % (what, len(lst), lst[0][2][:60]))
    rep.analysed['escape'] = {'mutable_globals': len(MG), 'carriers': sorted(carriers), 'address_sites': nsite, 'param_write_summaries': len(pw), 'param_escape_summaries': len(pe),
                              'functions_returning_global_addresses': sorted(RET)}
    rep.floor('C17.ESCAPE', 20)
    return alias_writes
