"""C17 - concurrent instances do not interfere: inventory of process-global mutable state.

Every variable with static storage in the three libraries is enumerated with all its writers (direct stores, ++/--,
element stores, memset/memcpy destinations, address handed to a callee that writes through the corresponding parameter).
There is no process-wide lock or once-flag in the code base, so

  C17.GLOBAL  a non-const global written by code reachable from the API (handle creation, init, run time, teardown) is
              shared unsynchronised state between instances: one finding per (global, writer function).  Findings that
              exist today are frozen in known_findings.json; a new mutable global, or a new writer of an existing one, is a
              violation.  Dispatch (RTCD) pointer tables are grouped per setup function.
  C17.NOLOCK  the premise is re-checked on every run: no mutex that is itself a process global exists (if one appears, the
              rule must be revisited: analysis broken rather than a silent pass)
"""
from engine.facts import pstr, strip, callee_name, subexprs, root_of, last_field, AnalysisBroken
from engine.classes import Classes

PID = 'C17'

META = {
    'technique': 'whole-program inventory of variables with static storage and of their writers (type-resolved stores, memset/memcpy destinations, one-level interprocedural write-through-pointer summaries) joined with call-graph reachability from the API',
    'text': 'Decides the clause "instances share no unsynchronised mutable state" structurally: every mutable process global and every function that writes it is enumerated from the whole program; each (global, writer) pair reachable from the API is a point where two instances interfere. The pairs that exist today are genuine multi-instance defects recorded as known findings; the check fails on any new global or new writer. Interference through the heap or the OS is not decided.',
    'note': 'logging configuration (g_log_file, g_log_level) is process-wide by design and exempt with that reason; writers that are dead code are ignored',
    'ref': 'DESIGN.md section 5 C17',
}

BY_DESIGN = {'g_log_file': 'process-wide logging configuration, set once from the environment by svt_log_init',
             'g_log_level': 'process-wide logging configuration, set once from the environment by svt_log_init'}
MEMW = {'memset': (0,), 'memcpy': (0,), 'svt_memcpy': (0,), 'memmove': (0,), 'rand_r': (0,), 'svt_memcpy_c': (0,), 'strcpy': (0,), 'strncpy': (0,),
        'EB_MEMSET': (0,), 'fread': (0,)}


def param_write_summary(P):
    """{(fn name, param index)} for functions that store through a pointer parameter (p[i] = .., *p = .., p->f = ..)."""
    out = set()
    for f in P.fns:
        if f.nocfg:
            continue
        pn = {n: i for i, (n, t) in enumerate(f.params) if t.rstrip().endswith('*') or '[' in t}
        if not pn:
            continue
        for ev in f.events(('st', 'call')):
            e = ev['e']
            if ev['k'] == 'st':
                t = strip(e[2]) if e[0] in ('a', 'u') else None
                if t is None or t[0] == 'v':
                    continue
                r = root_of(t)
                if r is not None and r[1] in pn and r[2].startswith('p'):
                    out.add((f.name, pn[r[1]]))
            else:
                n = callee_name(e)
                if n in MEMW:
                    for i in MEMW[n]:
                        if i < len(e[2]):
                            r = root_of(strip(e[2][i]))
                            if r is not None and r[1] in pn and r[2].startswith('p'):
                                out.add((f.name, pn[r[1]]))
    return out


def run(P, rep, tier):
    C = Classes(P)
    libs = ('Common', 'Encoder', 'Decoder')
    gl = {}
    for g in P.globals:
        if g.get('lib') in libs and g.get('def'):
            gl.setdefault(g['name'], g)
    mutable = {n: g for n, g in gl.items() if not g['const']}
    if len(gl) < 300 or len(mutable) < 100:
        raise AnalysisBroken('inventory too small: %d globals, %d mutable' % (len(gl), len(mutable)))
    pws = param_write_summary(P)
    writers = {}      # global -> {fn name: (Fn, ev, how)}
    for f in P.fns:
        if f.lib not in libs or f.nocfg or f in C.dead:
            continue
        for ev in f.events(('st', 'call')):
            e = ev['e']
            if ev['k'] == 'st':
                t = strip(e[2]) if e[0] in ('a', 'u') else None
                r = root_of(t) if t is not None else None
                if r is not None and r[2] in ('g', 's') and r[1] in mutable:
                    mx = ev.get('mx') or ()
                    if mx and mx[0].endswith('_DEC'):
                        # the decoder's allocation macros update the memory-map globals at every expansion site: one
                        # writer (the macro) instead of one per expanding function
                        writers.setdefault(r[1], {}).setdefault('macro:' + mx[0], (f, ev, 'store inside the expansion of %s (first site shown)' % mx[0]))
                    else:
                        writers.setdefault(r[1], {}).setdefault(f.name, (f, ev, 'store'))
            else:
                n = callee_name(e)
                for i, a in enumerate(e[2]):
                    a0 = strip(a)
                    r = root_of(a0)
                    if r is None or r[2] not in ('g', 's') or r[1] not in mutable:
                        continue
                    # by address / as array (decays): &g, g (array), &g[i], g[i] when g is pointer-to-array element
                    is_addr = (a0[0] == 'u' and a0[1] == '&') or (a0[0] == 'v' and 'n' in mutable[r[1]]) or \
                              (a0[0] == 'i' and mutable[r[1]].get('type', '').count('[') > 1)
                    if not is_addr:
                        continue
                    if (n in MEMW and i in MEMW[n]) or (n, i) in pws:
                        writers.setdefault(r[1], {}).setdefault(f.name, (f, ev, 'written through argument %d of %s' % (i, n)))
    rep.explanation = ('%d variables with static storage defined in the three libraries, %d of them mutable (%d function-pointer dispatch '
                       'slots); writers collected from %d live functions; every (global, writer) pair is one instance.' %
                       (len(gl), len(mutable), sum(1 for g in mutable.values() if g.get('fnptr')), sum(1 for f in P.fns if f.lib in libs and f not in C.dead)))
    rep.analysed = {'globals': len(gl), 'mutable': len(mutable), 'written': len(writers)}
    rep.assumptions = ['no process-wide lock exists (re-checked: C17.NOLOCK)', 'dead functions do not run']

    # ---------------- NOLOCK premise
    glock = [n for n, g in mutable.items() if 'pthread_mutex_t' in g.get('type', '') or (g.get('type', '') in ('EbHandle', 'void *') and 'mutex' in n.lower())]
    # ... or any global handed directly to the lock primitive
    for f in P.fns:
        for ev, n in f.calls(('svt_block_on_mutex', 'pthread_mutex_lock')):
            a = strip(ev['e'][2][0]) if ev['e'][2] else None
            if a is not None and (a[0] == 'v' or (a[0] == 'u' and a[1] == '&' and strip(a[2])[0] == 'v')):
                r = root_of(a)
                if r is not None and r[2] in ('g', 's'):
                    glock.append(r[1])
    once = [n for n, g in mutable.items() if 'pthread_once' in g.get('type', '')]
    if glock or once:
        raise AnalysisBroken('a process-global lock / once-flag now exists (%s): C17 must be re-derived' % (glock + once))
    rep.ob('C17.NOLOCK', 'no-process-wide-lock', True, 'Source/Lib', 'no mutex or once-flag with static storage exists; every write to a global is unsynchronised between instances')

    # ---------------- GLOBAL
    rtcd_groups = {}
    nrep = 0
    for name in sorted(writers):
        g = mutable[name]
        for wname, (f, ev, how) in sorted(writers[name].items()):
            if g.get('fnptr'):
                rtcd_groups.setdefault(wname, []).append((name, f, ev))
                continue
            if name in BY_DESIGN:
                rep.exempt('C17.GLOBAL', name, BY_DESIGN[name])
                rep.ob('C17.GLOBAL', 'global:%s/%s' % (name, wname), True, f.loc(ev), 'exempt: ' + BY_DESIGN[name], nontrivial=False)
                continue
            nrep += 1
            rep.ob('C17.GLOBAL', 'global:%s/%s' % (name, wname), False, f.loc(ev),
                   'process-global %s (%s, %s:%d)%s is written by %s [%s] (%s) with no process-wide synchronisation: concurrent instances interfere' %
                   (name, g.get('type', '?'), g['file'].replace('/repo/', ''), g['line'],
                    (' static local of ' + g['infn']) if g.get('infn') else '', wname, C.cls(f), how))
    for wname, lst in sorted(rtcd_groups.items()):
        name, f, ev = lst[0]
        rep.ob('C17.GLOBAL', 'dispatch-table/%s' % wname, False, f.loc(ev),
               '%d function-pointer dispatch slots (e.g. %s) are (re)written by %s [%s] for every instance with that instance\'s CPU flags / bit depth: '
               'concurrent with another instance\'s calls through them' % (len(lst), name, wname, C.cls(f)))
    rep.floor('C17.GLOBAL', 30)
    unwritten = [n for n in mutable if n not in writers and not mutable[n].get('fnptr')]
    rep.note('%d mutable globals have no writer in live code (could be const): %s' % (len(unwritten), sorted(unwritten)[:12]))
