"""C23 - System Resource Manager: hand-out and wake-up protocol (structure of EbSystemResourceManager.c).

  C23.PAIR     every mutex acquired in the SRM is released on every path to every exit
  C23.ORDER    lock order inside the SRM is queue lock -> fifo lock only (no reverse / no cycle)
  C23.GUARD    circular-buffer operations and queue assignation only under the queue lock; EbFifo.first_ptr/last_ptr/
               quit_signal only under the fifo lock; EbObjectWrapper.live_count/release_enable only under a queue lock
  C23.POST     every fifo push is post-dominated by a post of that fifo's counting semaphore; shutdown sets quit_signal
               under the lock and then posts
  C23.WAIT     every fifo pop is dominated by a wait on that fifo's counting semaphore; on the consumer (full) side it
               is control-dependent on !quit_signal
  C23.DIR      posted objects are appended (push_back), released objects go to the front of the empty queue; push_back
               writes at tail, pop_front reads at head, push_front at head; head/tail updates are wrap idioms over the
               buffer's own allocation count
  C23.RELEASE  a wrapper returns to the empty queue only from svt_release_object, control-dependent on release_enable
               and live_count == 0
"""
from engine.facts import pstr, strip, callee_name, subexprs, fields_in, last_field, AnalysisBroken
from engine.locks import LockAnalysis, lock_class, subst, single_assign_aliases
from engine.classes import Classes
from engine.wrap import wrap_shape

PID = 'C23'

META = {
    'technique': 'lockset dataflow (pairing, order, guarded-by with interprocedural entry locksets) + dominance/post-dominance (wait=>pop, push=>post) + control dependence + ring wrap-idiom recognition on EbSystemResourceManager.c',
    'text': 'Decides the structural protocol clauses of the System Resource Manager on every path of its 30-odd functions: lock pairing, queue->fifo lock order, guarded-by of ring buffers / fifo links / wrapper counters, push=>post, wait=>pop, quit-guarded pop, FIFO direction and ring index arithmetic shape, release condition. These are necessary conditions of safe hand-out and wake-up under every interleaving; liveness of the whole protocol and lost-wake-up freedom of the non-blocking get are not decided. Also decided: the release condition is falsified on the push path inside the same critical section, so a stale second release cannot put a pooled wrapper into the empty queue twice.',
    'note': 'pthread semantics; callers classified single-threaded (init/dctor) by call-graph reachability are excluded from the entry-lockset intersection',
    'ref': 'DESIGN.md section 5 C23',
}
SRM_FILE = 'EbSystemResourceManager.c'
QLOCK = 'EbMuxingQueue.lockout_mutex'
FLOCK = 'EbFifo.lockout_mutex'

FIFO_FIELDS = ['EbFifo.first_ptr', 'EbFifo.last_ptr', 'EbFifo.quit_signal']
WRAP_FIELDS = ['EbObjectWrapper.live_count', 'EbObjectWrapper.release_enable']
CB_OPS = ['svt_circular_buffer_push_back', 'svt_circular_buffer_push_front', 'svt_circular_buffer_pop_front',
          'svt_muxing_queue_assignation']


def store_target(ev):
    e = ev['e']
    if e[0] == 'a':
        return strip(e[2])
    if e[0] == 'u':
        return strip(e[2])
    return None


def ptext_l(ev):
    r = strip(ev['e'][3])
    return r[2] if len(r) > 2 and r[2] else str(r[1])


def run(P, rep, tier):
    srm = [f for f in P.fns if f.file.endswith('/' + SRM_FILE)]
    if len(srm) < 25:
        raise AnalysisBroken('only %d functions found in %s' % (len(srm), SRM_FILE))
    C = Classes(P)
    la = LockAnalysis(P)
    must_entry, may_entry = la.entry_classes(exclude=C.init_only | C.dctor_only)
    rep.explanation = (
        'Static decision of the SRM protocol structure over the %d functions of EbSystemResourceManager.c: lockset dataflow '
        '(intra-procedural on the clang CFG, inter-procedural entry locksets by intersection/union over all call sites) for '
        'pairing, ordering and guarded-by; dominance / post-dominance for wait=>pop and push=>post; control dependence for the '
        'quit-guard and the release condition; wrap-idiom recognition for the ring indices. Holds for every interleaving because '
        'it is a property of every path of every function, not of a sampled trace. Does not decide lost-wake-up freedom of the '
        'peek-then-get in the non-blocking get nor liveness of the protocol as a whole.' % len(srm))
    rep.analysed = {'functions': [f.name for f in srm], 'units': len(P.units)}
    rep.assumptions = ['pthread mutex/semaphore semantics', 'SRM entry points are called with valid objects',
                       'callers classified INIT_ONLY / DCTOR (single-threaded by construction) are excluded from entry-lockset intersection']

    # ---------------- PAIR
    for f in srm:
        a = la.analyse(f)
        acqs = [(ev, ident, cls) for ev, kind, ident, cls, _ in a['events'] if kind == 'acq']
        if not acqs:
            continue
        bad = {}
        for ident, cls, ret, bid, aev in la.unreleased(f):
            bad.setdefault(ident, []).append(ret)
        n = {}
        for ev, ident, cls in acqs:
            n[cls] = n.get(cls, 0) + 1
            key = '%s/%s#%d' % (f.name, cls, n[cls])
            if ident in bad:
                r = bad[ident][0]
                rep.ob('C23.PAIR', key, False, f.loc(r) if r is not None else f.loc(ev),
                       '%s acquired at %s may still be held at exit %s' % (ident, f.loc(ev), f.loc(r) if r is not None else 'end'))
            else:
                rep.ob('C23.PAIR', key, True, f.loc(ev), '%s released on every path' % ident)
        for ev, ident in a['doubles']:
            rep.ob('C23.PAIR', '%s/double:%s' % (f.name, ident), False, f.loc(ev), 'second acquire of %s while it may be held' % ident)
        for ev, ident, cls in la.unmatched_release(f):
            rep.ob('C23.PAIR', '%s/unmatched-release:%s' % (f.name, cls), False, f.loc(ev), 'release of %s which is not held on some path' % ident)
    rep.floor('C23.PAIR', 10)

    # ---------------- ORDER
    edges = la.order_edges(may_entry)
    # edges among the SRM's own lock classes (outer encoder locks held around SRM calls are C04's acyclicity rule)
    srm_edges = {k: v for k, v in edges.items() if k[0] in (QLOCK, FLOCK) and k[1] in (QLOCK, FLOCK)}
    for (a_, b_), (f, ev) in sorted(srm_edges.items(), key=lambda kv: kv[0]):
        ok = (a_, b_) == (QLOCK, FLOCK)
        rep.ob('C23.ORDER', '%s->%s' % (a_, b_), ok, f.loc(ev),
               'lock class %s is (may be) held while %s is acquired in %s%s' % (a_, b_, f.name, '' if ok else ' - only queue->fifo nesting is allowed in the SRM'))
    # the non-blocking get must not hold the fifo lock when it calls the blocking get
    nb = P.fn('svt_get_full_object_non_blocking')
    for ev, n in nb.calls(('svt_get_full_object', 'svt_release_process')):
        must, may = la.held_classes_at(nb, ev)
        rep.ob('C23.ORDER', 'svt_get_full_object_non_blocking/calls-%s-unlocked' % n, not may, nb.loc(ev),
               'locks possibly held at the call: %s' % (sorted(may) or 'none'))
    rep.floor('C23.ORDER', 2)

    # ---------------- GUARD
    for f in P.fns:
        if f.lib not in ('Common', 'Encoder') or C.single_threaded(f) or f in C.dead:
            continue
        for ev, n in f.calls(CB_OPS):
            # the queue whose buffer is manipulated
            must, may = la.held_classes_at(f, ev)
            held = must | must_entry.get(f, frozenset())
            ok = QLOCK in held
            rep.ob('C23.GUARD', '%s/call:%s' % (f.name, n), ok, f.loc(ev),
                   '%s called with %s held' % (n, sorted(held) or 'no lock') + ('' if ok else ' (queue lock required)'))
        for ev in f.events(('st',)):
            t = store_target(ev)
            lf = last_field(t) if t else None
            if lf in FIFO_FIELDS:
                must, may = la.held_classes_at(f, ev)
                held = must | must_entry.get(f, frozenset())
                ok = FLOCK in held
                rep.ob('C23.GUARD', '%s/write:%s' % (f.name, lf), ok, f.loc(ev),
                       'write of %s with %s held' % (lf, sorted(held) or 'no lock') + ('' if ok else ' (fifo lock required)'))
            elif lf in WRAP_FIELDS:
                must, may = la.held_classes_at(f, ev)
                held = must | must_entry.get(f, frozenset())
                ok = QLOCK in held
                why = ''
                if not ok and f.name == 'svt_get_empty_object' and FLOCK in held:
                    # exemption with reason: the wrapper was just popped from this producer's own fifo (under the fifo lock);
                    # no other thread can reference it until the caller posts it
                    ok = True
                    why = ' (exempt: exclusively owned just-popped wrapper, under the fifo lock)'
                    rep.exempt('C23.GUARD', 'svt_get_empty_object:' + lf, 'reset of a just-popped, exclusively owned wrapper under the fifo lock')
                rep.ob('C23.GUARD', '%s/write:%s' % (f.name, lf), ok, f.loc(ev),
                       'write of %s with %s held%s' % (lf, sorted(held) or 'no lock', why))
    rep.floor('C23.GUARD', 12)

    # ---------------- POST: push => post
    for f in srm:
        for ev, n in f.calls('svt_fifo_push_back'):
            al = single_assign_aliases(f)
            fifo = pstr(subst(strip(ev['e'][2][0]), al))
            posts = [pe for pe, pn in f.calls('svt_post_semaphore')
                     if pstr(subst(strip(pe['e'][2][0]), al)) == fifo + '->counting_semaphore']
            ok = any(f.ev_postdominates(pe, ev) for pe in posts)
            rep.ob('C23.POST', '%s/push:%s' % (f.name, fifo), ok, f.loc(ev),
                   'push onto %s is %spost-dominated by svt_post_semaphore(%s->counting_semaphore)' % (fifo, '' if ok else 'NOT ', fifo))
    sh = P.fn('svt_fifo_shutdown', SRM_FILE)
    qs = [ev for ev in sh.events(('st',)) if last_field(store_target(ev)) == 'EbFifo.quit_signal']
    posts = [pe for pe, pn in sh.calls('svt_post_semaphore')]
    ok = bool(qs) and bool(posts) and all(any(sh.ev_postdominates(pe, q) for pe in posts) for q in qs) and \
        all(FLOCK in la.held_classes_at(sh, q)[0] for q in qs)
    rep.ob('C23.POST', 'svt_fifo_shutdown/quit-then-post', ok, sh.loc(), 'quit_signal set under the fifo lock and followed by a semaphore post on every path')
    sp = P.fn('svt_shutdown_process', SRM_FILE)
    ok = any(True for _ in sp.calls('svt_fifo_shutdown'))
    loops = [c for ev, n in sp.calls('svt_fifo_shutdown') for c in sp.ctl_chain(ev) if c[0] in ('for', 'while')]
    rep.ob('C23.POST', 'svt_shutdown_process/all-consumers', ok and bool(loops) and 'process_total_count' in pstr(loops[0][1]), sp.loc(),
           'every consumer fifo (loop over full_queue->process_total_count) is shut down')
    rep.floor('C23.POST', 3)

    # ---------------- WAIT: wait => pop
    for f in srm:
        for ev, n in f.calls('svt_fifo_pop_front'):
            al = single_assign_aliases(f)
            fifo = pstr(subst(strip(ev['e'][2][0]), al))
            waits = [we for we, wn in f.calls('svt_block_on_semaphore')
                     if pstr(subst(strip(we['e'][2][0]), al)) == fifo + '->counting_semaphore']
            ok = any(f.ev_dominates(we, ev) for we in waits)
            rep.ob('C23.WAIT', '%s/pop:%s' % (f.name, fifo), ok, f.loc(ev),
                   'pop from %s is %sdominated by svt_block_on_semaphore(%s->counting_semaphore)' % (fifo, '' if ok else 'NOT ', fifo))
            must, _ = la.held_classes_at(f, ev)
            rep.ob('C23.WAIT', '%s/pop-locked:%s' % (f.name, fifo), FLOCK in must, f.loc(ev), 'pop under the fifo lock')
            if f.name == 'svt_get_full_object':
                dep = any(kind == 'if' and cond is not None and pstr(cond) == '!' + fifo + '->quit_signal' for kind, cond, line in f.ctl_chain(ev))
                rep.ob('C23.WAIT', 'svt_get_full_object/pop-guarded-by-quit', dep, f.loc(ev),
                       'consumer pop is %scontrol-dependent on !quit_signal (a shutdown token carries no object)' % ('' if dep else 'NOT '))
    # the blocking get reports shutdown
    gf = P.fn('svt_get_full_object', SRM_FILE)
    rets_shutdown = [ev for ev in gf.events(('st',)) if ev['e'][0] == 'a' and strip(ev['e'][3]) and strip(ev['e'][3])[0] == 'l' and
                     len(strip(ev['e'][3])) > 2 and strip(ev['e'][3])[2] == 'EB_NoErrorFifoShutdown']
    rep.ob('C23.WAIT', 'svt_get_full_object/reports-shutdown', bool(rets_shutdown), gf.loc(), 'EB_NoErrorFifoShutdown is produced on the quit branch')
    # non-blocking get: blocking get only when the peek saw an object
    for ev, n in nb.calls('svt_get_full_object'):
        conds = [pstr(c[1]) for c in nb.ctl_chain(ev) if c[0] in ('if', 'else') and c[1] is not None]
        dep = any('fifo_empty' in c for c in conds)
        rep.ob('C23.WAIT', 'svt_get_full_object_non_blocking/get-only-when-nonempty', dep, nb.loc(ev), 'conditions: %s' % conds)
    rep.floor('C23.WAIT', 6)

    # ---------------- DIR
    def callees(fname):
        return [n for ev, n in P.fn(fname, SRM_FILE).calls()]
    rep.ob('C23.DIR', 'svt_post_full_object/appends', 'svt_muxing_queue_object_push_back' in callees('svt_post_full_object') and
           'svt_muxing_queue_object_push_front' not in callees('svt_post_full_object'), P.fn('svt_post_full_object').loc(),
           'posted objects are appended to the full queue (delivery in posting order)')
    rep.ob('C23.DIR', 'svt_release_object/front', 'svt_muxing_queue_object_push_front' in callees('svt_release_object'),
           P.fn('svt_release_object').loc(), 'released objects go to the front of the empty queue')
    rep.ob('C23.DIR', 'svt_muxing_queue_object_push_back/ring-back', 'svt_circular_buffer_push_back' in callees('svt_muxing_queue_object_push_back') and
           'svt_circular_buffer_push_front' not in callees('svt_muxing_queue_object_push_back'),
           P.fn('svt_muxing_queue_object_push_back', SRM_FILE).loc(), 'queue push_back uses the ring push_back')
    rep.ob('C23.DIR', 'svt_muxing_queue_assignation/pops-front', callees('svt_muxing_queue_assignation').count('svt_circular_buffer_pop_front') == 2,
           P.fn('svt_muxing_queue_assignation', SRM_FILE).loc(), 'assignation pops the oldest process and the oldest object')
    ring = {'svt_circular_buffer_push_back': 'tail_index', 'svt_circular_buffer_pop_front': 'head_index', 'svt_circular_buffer_push_front': 'head_index'}
    wrapkind = {'svt_circular_buffer_push_back': 'inc', 'svt_circular_buffer_pop_front': 'inc', 'svt_circular_buffer_push_front': 'dec'}
    for fname, idxf in ring.items():
        f = P.fn(fname, SRM_FILE)
        ixs = [ev for ev in f.events(('ix',)) if last_field(ev['e']) == 'EbCircularBuffer.array_ptr']
        ok = bool(ixs) and all(last_field(ev['i']) == 'EbCircularBuffer.' + idxf for ev in ixs)
        rep.ob('C23.DIR', '%s/slot' % fname, ok, f.loc(), 'array_ptr is subscripted by %s only' % idxf)
        sts = [ev for ev in f.events(('st',)) if ev['e'][0] == 'a' and last_field(strip(ev['e'][2])) in ('EbCircularBuffer.head_index', 'EbCircularBuffer.tail_index')]
        good = True
        det = []
        for ev in sts:
            w = wrap_shape(ev['e'][3])
            lhs = pstr(strip(ev['e'][2]))
            det.append(str(w))
            if not w or w[0] != wrapkind[fname] or w[1] != lhs or w[2] != ('path', lhs.rsplit('->', 1)[0] + '->buffer_total_count') or \
                    last_field(strip(ev['e'][2])) != 'EbCircularBuffer.' + idxf:
                good = False
        rep.ob('C23.DIR', '%s/wrap' % fname, bool(sts) and good, f.loc(), 'index update is the %s-wrap idiom over buffer_total_count: %s' % (wrapkind[fname], det))
    # push_front order: decrement before store; push_back: store before increment; pop_front: read before increment
    for fname, first in (('svt_circular_buffer_push_front', 'st-index'), ('svt_circular_buffer_push_back', 'ix'), ('svt_circular_buffer_pop_front', 'ix')):
        f = P.fn(fname, SRM_FILE)
        idx_st = [ev for ev in f.events(('st',)) if ev['e'][0] == 'a' and last_field(strip(ev['e'][2])) in ('EbCircularBuffer.head_index', 'EbCircularBuffer.tail_index')]
        slot = [ev for ev in f.events(('ix',)) if last_field(ev['e']) == 'EbCircularBuffer.array_ptr']
        if idx_st and slot:
            if first == 'st-index':
                ok = all(f.ev_dominates(idx_st[0], s) for s in slot)
            else:
                ok = all(f.ev_dominates(s, idx_st[0]) for s in slot)
        else:
            ok = False
        rep.ob('C23.DIR', '%s/order' % fname, ok, f.loc(), 'slot access %s the index update' % ('after' if first == 'st-index' else 'before'))
    # ring capacity = allocation count
    cc = P.fn('svt_circular_buffer_ctor', SRM_FILE)
    alloc = [ev for ev in cc.events(('st',)) if ev['e'][0] == 'a' and last_field(strip(ev['e'][2])) == 'EbCircularBuffer.array_ptr' and
             any(x[0] == 'c' for x in subexprs(ev['e'][3]))]
    tot = [ev for ev in cc.events(('st',)) if ev['e'][0] == 'a' and last_field(strip(ev['e'][2])) == 'EbCircularBuffer.buffer_total_count']
    ok = False
    if alloc and tot:
        cnt = pstr(strip(tot[0]['e'][3]))
        ok = any(cnt in pstr(a_) for a_ in alloc[0]['e'][3][2]) if alloc[0]['e'][3][0] == 'c' else cnt in pstr(alloc[0]['e'][3])
    rep.ob('C23.DIR', 'svt_circular_buffer_ctor/capacity', ok, cc.loc(), 'array_ptr is allocated with the count stored in buffer_total_count')
    rep.floor('C23.DIR', 12)

    # ---------------- WAKE: returning from the semaphore wait means a token was taken.  Every caller (the SRM gets, the segment
    # hand-offs, the decoder workers) discards the wrapper's result and goes on to pop / consume, so the wrapper itself must not
    # return on a wake-up that took no token: each OS wait call in it is retried on interruption, or every caller tests the result
    bos = P.fn('svt_block_on_semaphore')
    waits = [(ev, n) for ev, n in bos.calls(('sem_wait', 'sem_timedwait', 'sem_trywait'))]
    if not waits:
        raise AnalysisBroken('svt_block_on_semaphore no longer calls sem_wait (POSIX branch not analysed?)')
    callers = [(g, ev) for g in P.fns if not g.nocfg for ev, n in g.calls('svt_block_on_semaphore')]
    unchecked = sorted({g.name for g, ev in callers if ev.get('use') in ('discard', 'void', 'expr')})
    for ev, n in waits:
        retry = False
        for kind, cond, line in bos.ctl_chain(ev):
            if kind in ('do', 'while', 'for') and cond is not None and not isinstance(cond[0], list):
                cs = pstr(strip(cond))
                if '__errno_location' in cs or 'errno' in cs:
                    retry = True
        ok = retry or not unchecked
        rep.ob('C23.WAKE', 'svt_block_on_semaphore/%s' % n, ok, bos.loc(ev),
               ('%s is retried while it reports an interrupted wait' % n) if retry else
               ('%s is called once: an interrupted wait (EINTR) returns without a token, and %d callers (%s ...) ignore the result and pop an empty FIFO'
                % (n, len(unchecked), ', '.join(unchecked[:3]))))
    rep.floor('C23.WAKE', 1)

    # ---------------- ROLE: a FIFO obtained from the producer side of a resource hands out *empty* objects, one obtained from the
    # consumer side hands out *full* ones.  Every svt_get_empty_object / svt_get_full_object(_non_blocking) call is made on a FIFO of
    # the matching role (role of a member = the getter whose result is stored into it; members with both roles would be reported too).
    role = {}
    for g in P.fns:
        if g.lib not in ('Encoder', 'Common') or g.nocfg:
            continue
        for ev in g.events(('st',)):
            e = ev['e']
            if e[0] == 'a' and e[1] == '=':
                r = strip(e[3])
                while r is not None and r[0] == 'k':
                    r = strip(r[-1])
                if r is not None and r[0] == 'c' and callee_name(r) in ('svt_system_resource_get_producer_fifo', 'svt_system_resource_get_consumer_fifo'):
                    lf = last_field(strip(e[2]))
                    if lf:
                        role.setdefault(lf, set()).add('producer' if 'producer' in callee_name(r) else 'consumer')
    nrole = 0
    for g in P.fns:
        if g.lib not in ('Encoder', 'Common') or g.nocfg:
            continue
        for ev, nm in g.calls(('svt_get_empty_object', 'svt_get_full_object', 'svt_get_full_object_non_blocking')):
            lf = last_field(strip(ev['e'][2][0])) if ev['e'][2] else None
            if lf not in role:
                continue                      # a FIFO passed in as a parameter: judged at the caller that selects it
            nrole += 1
            want = 'producer' if nm == 'svt_get_empty_object' else 'consumer'
            ok = role[lf] == {want}
            rep.ob('C23.ROLE', '%s/%s@%d' % (g.name, lf.split('.')[-1], ev['l']), ok, g.loc(ev),
                   ('%s on %s, a %s FIFO' % (nm, lf.split('.')[-1], want)) if ok else
                   ('%s asks %s for an %s object, but that member holds the %s side of its resource: the call takes a finished object for an empty one or parks the thread until the other side delivers' %
                    (g.name, lf.split('.')[-1], 'empty' if want == 'producer' else 'full', '/'.join(sorted(role[lf])))))
    rep.floor('C23.ROLE', 50)

    # ---------------- RELEASE
    who = []
    for f in P.fns:
        for ev, n in f.calls('svt_muxing_queue_object_push_front'):
            who.append((f, ev))
    for f, ev in who:
        if f.name != 'svt_release_object':
            rep.ob('C23.RELEASE', '%s/returns-wrapper' % f.name, False, f.loc(ev), 'a wrapper is returned to a queue front outside svt_release_object')
            continue
        conds = [c[1] for c in f.ctl_chain(ev) if c[0] == 'if' and c[1] is not None]
        flds = set()
        txt = ''
        for c in conds:
            flds |= fields_in(c)
            txt += pstr(c)
        ok = 'EbObjectWrapper.release_enable' in flds and 'EbObjectWrapper.live_count' in flds and 'live_count == 0' in txt
        rep.ob('C23.RELEASE', 'svt_release_object/condition', ok, f.loc(ev), 'return to the empty queue is control-dependent on: %s' % txt)
        arg0 = pstr(strip(ev['e'][2][0]))
        rep.ob('C23.RELEASE', 'svt_release_object/target-empty-queue', arg0.endswith('empty_queue'), f.loc(ev), 'pushed onto %s' % arg0)
    # live_count decrement saturates at 0 and happens before the test
    ro = P.fn('svt_release_object', SRM_FILE)
    dec = [ev for ev in ro.events(('st',)) if last_field(store_target(ev)) == 'EbObjectWrapper.live_count']
    ok = bool(dec) and any('live_count - 1' in pstr(ev['e']) for ev in dec)
    rep.ob('C23.RELEASE', 'svt_release_object/decrement', ok, ro.loc(), 'live_count is decremented (saturating) under the empty-queue lock')
    # the release condition is disarmed inside the same critical section: a store that makes `live_count == 0` false for this
    # wrapper sits on the push path, so a second (stale) svt_release_object on a wrapper that is already back in its pool cannot
    # push it again - otherwise the empty queue holds the same object twice and two producers are handed the same buffer
    for f, ev in who:
        if f.name != 'svt_release_object':
            continue
        dis = [e2 for e2 in ro.events(('st',)) if last_field(store_target(e2)) == 'EbObjectWrapper.live_count' and e2['e'][0] == 'a' and e2['e'][1] == '=' and
               strip(e2['e'][3])[0] == 'l' and strip(e2['e'][3])[1] != 0 and e2['b'] == ev['b']]
        rep.ob('C23.RELEASE', 'svt_release_object/disarm', bool(dis), f.loc(ev),
               ('the wrapper is marked released (live_count = %s) on the push path' % ptext_l(dis[0])) if dis else
               'nothing on the push path makes the release condition false again: a stale second release of a pooled wrapper pushes it into the empty queue twice')
    rep.floor('C23.RELEASE', 4)
