"""C21 - output depends only on the visible samples of each submitted picture: two structural clauses.

  C21.NORETAIN  no pointer obtained from the caller's picture (the EbBufferHeaderType handed to svt_av1_enc_send_picture, its
                p_buffer / EbSvtIOFormat planes / metadata) is stored into memory that outlives the call: such pointers are
                used only as copy sources or kept in locals (escape analysis over the copy-in path)
  C21.PADFIRST  in the picture-analysis thread, the regeneration of the picture borders (pad_input_pictures) dominates every
                other call that receives the copied picture or its picture control set, so bytes the stride copy brought into
                the padding area are overwritten before anything reads them
  C21.LAYOUT    the caller's picture layout is honoured plane by plane: every plane pointer and stride of EbSvtIOFormat is read
                by the library, and no statement on the copy-in path combines the pointer of one plane with the stride of
                another (plane-tag dataflow shared with C26): a Cr plane walked with the Cb stride mixes visible samples with
                the caller's row padding as soon as the two strides differ
"""
from engine.facts import pstr, strip, callee_name, subexprs, last_field, root_of, AnalysisBroken

PID = 'C21'

META = {
    'technique': 'interprocedural escape (taint) analysis of caller-owned pointers over the copy-in call tree + dominance of the border regeneration over every consumer call in the analysis thread + colour-plane tag dataflow over the functions that read the EbSvtIOFormat of the caller',
    'text': 'Decides that svt_av1_enc_send_picture retains nothing of the caller\'s memory (so the caller may overwrite or free it as soon as the call returns - for every picture and configuration, because it is a property of every store on the copy-in path) and that padding bytes copied along with the visible samples are regenerated before any analysis can read them. Also decided: every plane of the submitted layout is read with its own stride. It does not decide that the row copy length stays inside the row for every stride, nor the 10-bit unpack arithmetic.',
    'note': 'taint sources: pointer parameters of svt_av1_enc_send_picture and everything loaded through them; sinks: stores whose destination is not a local variable',
    'ref': 'DESIGN.md section 5 C21',
}


def run(P, rep, tier):
    api = P.fn('svt_av1_enc_send_picture')
    src_param = api.params[1][0]
    rep.explanation = 'Escape analysis from %s (parameter %s) through its callees; dominance check in picture_analysis_kernel.' % (api.loc(), src_param)
    rep.assumptions = ['callees are resolved by name (no function pointers on the copy-in path)']
    visited = {}
    work = [(api, frozenset([src_param]))]
    nst = 0
    escapes = []
    analysed = []
    while work:
        f, tainted = work.pop()
        key = (f.key, tainted)
        if key in visited or f.nocfg:
            continue
        visited[key] = True
        analysed.append(f.name)
        t = set(tainted)
        # local aliases (flow-insensitive closure): x = <tainted path>, x = (cast) tainted + k, x = tainted->field (pointer)
        changed = True
        while changed:
            changed = False
            for ev in f.events(('decl', 'st')):
                e = ev.get('e')
                if e is None:
                    continue
                if ev['k'] == 'decl':
                    name, rhs, isptr = ev['n'], e, ev['t'].rstrip().endswith('*')
                elif e[0] == 'a' and e[1] == '=' and strip(e[2]) and strip(e[2])[0] == 'v' and strip(e[2])[2] in ('l',):
                    name, rhs, isptr = strip(e[2])[1], e[3], bool(ev.get('pt'))
                else:
                    continue
                if not isptr or name in t:
                    continue
                r = root_of(strip(rhs))
                if r is not None and r[1] in t:
                    t.add(name)
                    changed = True
        # sinks
        for ev in f.events(('st',)):
            e = ev['e']
            if e[0] != 'a' or e[1] != '=' or not ev.get('pt'):
                continue
            lhs = strip(e[2])
            rhs = strip(e[3])
            r = root_of(rhs)
            if r is None or r[1] not in t or rhs[0] == 'l':
                continue
            lr = root_of(lhs)
            nst += 1
            if lhs[0] == 'v' and lhs[2] == 'l':
                continue                            # kept in a local
            if lr is not None and lr[1] in t:
                continue                            # written back into the caller's own structure
            escapes.append((f, ev, pstr(lhs), pstr(rhs)))
        # propagate into callees
        for ev, n in f.calls():
            if n is None:
                continue
            targs = set()
            for i, a in enumerate(ev['e'][2]):
                r = root_of(strip(a))
                a0 = strip(a)
                if r is not None and r[1] in t and a0[0] != 'l':
                    targs.add(i)
            if not targs:
                continue
            for g in P.resolve(n, f):
                if g.nocfg or g.lib not in ('Encoder', 'Common'):
                    continue
                tp = frozenset(g.params[i][0] for i in targs if i < len(g.params) and g.params[i][1].rstrip().endswith('*'))
                if tp:
                    work.append((g, tp))
    if len(set(analysed)) < 4:
        raise AnalysisBroken('copy-in path has only %d functions' % len(set(analysed)))
    rep.analysed = {'copy_in_functions': sorted(set(analysed)), 'pointer_stores_examined': nst}
    seen = set()
    for f, ev, l, r in escapes:
        k = '%s/escape:%s' % (f.name, l)
        if k in seen:
            continue
        seen.add(k)
        rep.ob('C21.NORETAIN', k, False, f.loc(ev), 'caller-owned pointer %s is stored into %s, which outlives svt_av1_enc_send_picture' % (r, l))
    for name in sorted(set(analysed)):
        if not any(e[0].name == name for e in escapes):
            g = P.fn(name)
            rep.ob('C21.NORETAIN', '%s/no-escape' % name, True, g.loc(), 'no caller-owned pointer is stored outside locals in %s' % name)
    rep.floor('C21.NORETAIN', 4)

    # ---------------- PADFIRST
    pa = P.fn('picture_analysis_kernel')
    pads = [ev for ev, n in pa.calls('pad_input_pictures')]
    pic_arg = 1
    if not pads:
        # the regeneration may sit behind a helper: a callee that hands one of its own parameters to pad_input_pictures
        for ev, n in pa.calls():
            for g in (P.resolve(n, pa) if n else []):
                if g.nocfg:
                    continue
                for cev, n2 in g.calls('pad_input_pictures'):
                    a = strip(cev['e'][2][1]) if len(cev['e'][2]) > 1 else None
                    if a is not None and a[0] == 'v' and a[2].startswith('p') and a[2][1:].isdigit() and int(a[2][1:]) < len(ev['e'][2]) and not g.ctl_chain(cev):
                        pads = [ev]
                        pic_arg = int(a[2][1:])
            if pads:
                break
    if not pads:
        # the mechanism itself is gone: that is the violation (the thread function still exists, so this is not a moved anchor)
        rep.ob('C21.PADFIRST', 'pad-call-present', False, pa.loc(),
               'picture_analysis_kernel no longer regenerates the picture borders (no call to pad_input_pictures): bytes from the caller\'s stride padding reach the analysis')
        rep.floor('C21.PADFIRST', 1)
        return
    pad = pads[0]
    pic = pstr(strip(pad['e'][2][pic_arg]))
    # the picture control set the picture was taken from
    pcs = None
    for ev in pa.events(('st', 'decl')):
        e = ev.get('e')
        if e is None:
            continue
        nm = ev['n'] if ev['k'] == 'decl' else (pstr(strip(e[2])) if e[0] == 'a' and e[1] == '=' else None)
        rhs = e if ev['k'] == 'decl' else (e[3] if e[0] == 'a' else None)
        if nm == pic and rhs is not None:
            r = root_of(strip(rhs))
            if r is not None:
                pcs = r[1]
    n = 0
    for ev, name in pa.calls():
        if ev is pad or name in ('svt_get_full_object', 'svt_release_object', 'svt_post_full_object', 'svt_get_empty_object'):
            continue
        args = [pstr(strip(a)) for a in ev['e'][2]]
        roots = {root_of(strip(a))[1] for a in ev['e'][2] if root_of(strip(a)) is not None}
        if pic in args or (pcs and pcs in args) or pic in roots:
            n += 1
            ok = pa.ev_dominates(pad, ev)
            rep.ob('C21.PADFIRST', 'consumer:%s#%d' % (name or 'indirect', n), ok, pa.loc(ev),
                   '%s(%s) is %sdominated by pad_input_pictures(.., %s)' % (name, ', '.join(args)[:60], '' if ok else 'NOT ', pic))
    # the padding really writes the borders from the visible area: it is called with the sequence settings and the picture
    rep.ob('C21.PADFIRST', 'pad-call-shape', len(pad['e'][2]) >= 2, pa.loc(pad), 'border regeneration is handed the sequence settings and the picture')
    # the overlay picture is a second copy of caller data (made in resource coordination from the alt-ref input, before either has
    # been through picture analysis); its borders are regenerated by perform_simple_picture_analysis_for_overlay
    ov = P.fn('perform_simple_picture_analysis_for_overlay')
    opads = [ev for ev, n in ov.calls('pad_picture_to_multiple_of_min_blk_size_dimensions')]
    if not opads:
        rep.ob('C21.PADFIRST', 'overlay/pad-call-present', False, ov.loc(),
               'the overlay path no longer regenerates the borders of the copied picture (no call to pad_picture_to_multiple_of_min_blk_size_dimensions): '
               'whatever the copy brought into the padding area is coded as source samples of the overlay frame')
    else:
        opad = opads[0]
        opic = pstr(strip(opad['e'][2][1]))
        opcs = ov.params[0][0] if ov.params else None
        m = 0
        for ev, name in ov.calls():
            if ev is opad:
                continue
            args = [pstr(strip(a)) for a in ev['e'][2]]
            roots = {root_of(strip(a))[1] for a in ev['e'][2] if root_of(strip(a)) is not None}
            if opic in args or (opcs and opcs in args) or opic in roots:
                m += 1
                ok = ov.ev_dominates(opad, ev)
                rep.ob('C21.PADFIRST', 'overlay/consumer:%s#%d' % (name or 'indirect', m), ok, ov.loc(ev),
                       '%s(%s) is %sdominated by the border regeneration of %s' % (name, ', '.join(args)[:60], '' if ok else 'NOT ', opic))
    rep.floor('C21.PADFIRST', 8)
    run_layout(P, rep)


def run_layout(P, rep):
    from rules.C26 import PlaneFlow
    from engine.classes import Classes
    C = Classes(P)
    R = 'EbSvtIOFormat.'
    voc = {R + 'luma': 'Y', R + 'cb': 'CB', R + 'cr': 'CR', R + 'luma_ext': 'Y', R + 'cb_ext': 'CB', R + 'cr_ext': 'CR',
           R + 'y_stride': 'Y', R + 'cb_stride': 'CB', R + 'cr_stride': 'CR'}
    have = {R + fd['n'] for fd in P.record('EbSvtIOFormat')['fields']}
    if not set(voc) <= have:
        raise AnalysisBroken('EbSvtIOFormat no longer has the members %s' % sorted(set(voc) - have))
    readers = {}
    for f in P.fns:
        if f.lib != 'Encoder' or f.nocfg or f in C.dead:
            continue
        for ev in f.events():
            e = ev.get('e')
            if e is None:
                continue
            # reads only: the member appears outside the target of a plain assignment
            srcs = [e[3]] if (ev['k'] == 'st' and e[0] == 'a' and e[1] == '=') else [e]
            for src in srcs:
                for x in subexprs(src):
                    if x[0] == 'm' and x[1] in voc:
                        readers.setdefault(x[1], set()).add(f)
    for m in sorted(voc):
        fs = readers.get(m, set())
        rep.ob('C21.LAYOUT', 'read:' + m.split('.')[1], bool(fs), sorted(fs, key=lambda g: g.name)[0].loc() if fs else 'Source/API/EbSvtAv1.h',
               ('read by %s' % sorted(g.name for g in fs)[:3]) if fs else
               ('the caller-provided %s is never read: the plane it describes is walked with some other stride / pointer' % m.split('.')[1]))
    fns = set().union(*readers.values()) if readers else set()
    for f in sorted(fns, key=lambda g: (g.file, g.name)):
        problems, nst, seen = PlaneFlow(f, voc).run()
        if problems:
            for ev, txt in problems[:4]:
                rep.ob('C21.LAYOUT', '%s/mix@%s' % (f.name, txt[:50]), False, f.loc(ev), txt + ': a plane of the submitted picture is read with the layout of another plane')
        else:
            rep.ob('C21.LAYOUT', '%s/planes' % f.name, True, f.loc(), '%d statements use the caller layout, each within one plane' % nst)
    rep.floor('C21.LAYOUT', 10)
