"""C09 - multi-threaded decoding: structural necessary conditions of race/hang freedom.

  C09.PAIR   every decoder mutex acquire is released on every path to every exit
  C09.GUARD  read-modify-write of the shared job / thread counters happens under their mutex
  C09.SPIN   every spin / semaphore-assisted wait on a volatile alias of a shared field has, for that field, a store of a
             value satisfying the exit condition somewhere else in decoder run-time code (no orphan wait)
  C09.PROGRESS  row-progress waits (`while (*prev < bound)` on an element of a per-row progress array): an *element* store of a
             non-constant value to the same array exists in run-time code (allocating the array or zeroing it is not progress);
             when waiter and publisher are the same function (wavefront inside one stage), both sit in the same loop, the value
             published and the bound waited for are computed from that loop's iterator, and the wait dominates the publication
             (a row announces column i only after it has itself waited for the row above)
  C09.SEM    every decoder semaphore that is waited on is posted by some other run-time function
"""
from engine.facts import pstr, strip, callee_name, subexprs, fields_in, last_field, root_of, AnalysisBroken
from engine.locks import LockAnalysis
from engine.classes import Classes

PID = 'C09'

META = {
    'technique': 'lockset dataflow over clang CFGs (pairing, guarded-by of job counters) + alias-resolved spin-wait/store matching by type-resolved field',
    'text': 'Decides, on all paths of the decoder, that no mutex is leaked, that every read-modify-write of the row/tile/thread counters used to distribute jobs is made under its mutex, and that every wait loop over a volatile alias of a shared flag or row map has a producer store elsewhere, and that every row-progress wait (wavefront between superblock rows in recon, loop filter, CDEF and restoration) is paired with a per-superblock publication in the same loop, after the wait, advancing with the loop iterator. These are necessary conditions of data-race- and hang-freedom under every interleaving; equality with the single-thread result, the single-writer volatile row maps and the inter-frame reallocation protocol are not decided.',
    'note': 'worker entry = dec_all_stage_kernel; the API thread participates as a worker; volatile single-writer row maps are accepted as the code base\'s synchronisation idiom (formally racy; value-level argument not attempted)',
    'ref': 'DESIGN.md section 5 C09',
}

GUARDS = {
    'DecMTFrameData.num_threads_cdefed': 'DecMTFrameData.temp_mutex',
    'DecMTFrameData.num_threads_exited': 'DecMTFrameData.temp_mutex',
    'DecMTFrameData.num_threads_header': 'DecMTFrameData.temp_mutex',
    'DecMTFrameData.num_threads_lred': 'DecMTFrameData.temp_mutex',
    'DecMtMotionProjInfo.motion_proj_row_to_process': 'DecMtMotionProjInfo.motion_proj_mutex',
    'DecMtParseReconTileInfo.sb_row_to_process': 'DecMtParseReconTileInfo.tile_sbrow_mutex',
    'DecMtRowInfo.sb_row_to_process': 'DecMtRowInfo.sbrow_mutex',
}


def accum(ev):
    e = ev['e']
    if e[0] == 'u':
        return strip(e[2])
    if e[0] == 'a' and e[1] != '=':
        return strip(e[2])
    return None


def addr_field(e):
    """Field designated by &X->f / &X->f[i] / (cast)&..."""
    e = strip(e)
    if e and e[0] == 'u' and e[1] == '&':
        return last_field(strip(e[2]))
    return None


def run(P, rep, tier):
    C = Classes(P)
    la = LockAnalysis(P)
    must_entry, may_entry = la.entry_classes(exclude=C.init_only | C.dctor_only)
    dec = [f for f in P.fns if f.lib == 'Decoder' and f not in C.dead]
    if len(dec) < 200:
        raise AnalysisBroken('only %d live decoder functions' % len(dec))
    rep.explanation = ('Lockset dataflow over every live decoder function (%d) for pairing and guarded-by of the %d confirmed job counters; '
                       'every wait loop whose condition dereferences a volatile-qualified local alias is resolved to the aliased struct field '
                       'and matched against producer stores in other run-time code.' % (len(dec), len(GUARDS)))
    rep.analysed = {'decoder_functions': len(dec), 'units': len(P.units)}
    rep.assumptions = ['volatile single-writer maps are the intended synchronisation idiom', 'pthread semantics']

    # ---------------- PAIR
    for f in dec:
        a = la.analyse(f)
        acqs = [(ev, ident, cls) for ev, kind, ident, cls, _ in a['events'] if kind == 'acq']
        if not acqs:
            continue
        bad = {}
        for ident, cls, ret, bid, aev in la.unreleased(f):
            bad.setdefault(ident, []).append(ret)
        n = {}
        for ev, ident, cls in acqs:
            n[cls] = n.get(cls, 0) + 1
            key = '%s/%s#%d' % (f.name, cls, n[cls])
            if ident in bad:
                r = bad[ident][0]
                rep.ob('C09.PAIR', key, False, f.loc(r) if r is not None else f.loc(ev),
                       '%s acquired at %s may still be held at exit %s' % (ident, f.loc(ev), f.loc(r) if r is not None else 'end'))
            else:
                rep.ob('C09.PAIR', key, True, f.loc(ev), '%s released on every path' % ident)
        for ev, ident in a['doubles']:
            rep.ob('C09.PAIR', '%s/double:%s' % (f.name, ident), False, f.loc(ev), 'second acquire of %s while it may be held' % ident)
        for ev, ident, cls in la.unmatched_release(f):
            rep.ob('C09.PAIR', '%s/unmatched-release:%s' % (f.name, cls), False, f.loc(ev), 'release of %s which is not held on some path' % ident)
    rep.floor('C09.PAIR', 12)

    # ---------------- GUARD
    for fld, lk in GUARDS.items():
        for x in (fld, lk):
            rec, fn_ = x.split('.', 1)
            r = P.records.get(rec)
            if r is None or not any(y['n'] == fn_ for y in r['fields']):
                raise AnalysisBroken('table field %s no longer exists' % x)
    cnt = {}
    for f in dec:
        if f not in C.runtime:
            continue
        for ev in f.events(('st',)):
            t = accum(ev)
            lf = last_field(t) if t is not None else None
            if lf in GUARDS:
                must, may = la.held_classes_at(f, ev)
                held = must | must_entry.get(f, frozenset())
                ok = GUARDS[lf] in held
                cnt[(f.name, lf)] = cnt.get((f.name, lf), 0) + 1
                rep.ob('C09.GUARD', '%s/rmw:%s#%d' % (f.name, lf, cnt[(f.name, lf)]), ok, f.loc(ev),
                       'read-modify-write of %s with %s held; requires %s' % (lf, sorted(held) or 'no lock', GUARDS[lf]))
    rep.floor('C09.GUARD', 7)

    # ---------------- SPIN
    # producer stores per field (direct '=' with literal, any store, accumulations)
    stores = {}
    for f in dec:
        if f not in C.runtime and f not in C.init:
            continue
        for ev in f.events(('st',)):
            e = ev['e']
            t = strip(e[2]) if e[0] in ('a', 'u') else None
            lf = last_field(t) if t is not None else None
            if lf:
                lit = None
                if e[0] == 'a' and e[1] == '=' and strip(e[3]) and strip(e[3])[0] == 'l':
                    lit = strip(e[3])[1]
                stores.setdefault(lf, []).append((f, ev, lit))
    nspin = 0
    for f in dec:
        vol = {}
        for ev in f.events(('decl',)):
            if 'volatile' in ev['t'] and ev['t'].rstrip().endswith('*'):
                vol[ev['n']] = set()
                if ev.get('e') is not None:
                    af = addr_field(ev['e'])
                    if af:
                        vol[ev['n']].add(af)
        if not vol:
            continue
        for ev in f.events(('st',)):
            e = ev['e']
            if e[0] == 'a' and e[1] == '=' and strip(e[2]) and strip(e[2])[0] == 'v' and strip(e[2])[1] in vol:
                af = addr_field(e[3])
                if af:
                    vol[strip(e[2])[1]].add(af)
        for bid in sorted(f.reach()):
            b = f.blocks[bid]
            c = b.get('fullcond')
            if c is None or b.get('tk') not in ('WhileStmt', 'DoStmt', 'ForStmt'):
                continue
            used = [x for x in subexprs(c) if x[0] == 'u' and x[1] == '*' and strip(x[2]) and strip(x[2])[0] == 'v' and strip(x[2])[1] in vol]
            for u in used:
                p = strip(u[2])[1]
                want = None
                cc = strip(c)
                if cc[0] == 'b' and cc[1] == '!=' and strip(cc[2]) == u and strip(cc[3]) and strip(cc[3])[0] == 'l':
                    want = strip(cc[3])[1]
                for fld in sorted(vol[p]):
                    nspin += 1
                    prod = [s for s in stores.get(fld, []) if not (s[0] is f and s[1]['b'] == bid)]
                    if want is not None:
                        good = [s for s in prod if s[2] == want or s[2] is None and s[1]['e'][0] == 'a' and s[1]['e'][1] == '=']
                        good = [s for s in prod if s[2] == want] or [s for s in prod if s[2] is None]
                    else:
                        good = prod
                    good = [s for s in good if s[0] in C.runtime]
                    where = '%s:%d' % (f.loc().rsplit(':', 1)[0], b.get('tl', f.line))
                    rep.ob('C09.SPIN', '%s/wait:%s(%s)' % (f.name, fld, p), bool(good), where,
                           'wait loop on *%s (alias of %s, exit when %s); producer stores in %s' %
                           (p, fld, ('== %s' % want) if want is not None else 'condition changes',
                            sorted({s[0].name for s in good})[:4] or 'NO run-time function'))
    rep.floor('C09.SPIN', 12)

    # ---------------- PROGRESS
    def alias_locals(f):
        al = {}
        for ev in f.events(('decl', 'st')):
            e = ev.get('e')
            if e is None:
                continue
            if ev['k'] == 'decl':
                n, rhs = ev['n'], e
            elif e[0] == 'a' and e[1] == '=' and strip(e[2]) and strip(e[2])[0] == 'v':
                n, rhs = strip(e[2])[1], e[3]
            else:
                continue
            af = addr_field(rhs)
            if af:
                al.setdefault(n, set()).add(af)
        return al

    def elem_stores(f, al):
        out = []
        for ev in f.events(('st',)):
            e = ev['e']
            if e[0] != 'a' or e[1] != '=':
                continue
            t = strip(e[2])
            flds = set()
            if t[0] == 'u' and t[1] == '*' and strip(t[2])[0] == 'v':
                flds = al.get(strip(t[2])[1], set())
            elif t[0] == 'i' and strip(t[1])[0] == 'v' and strip(t[1])[1] in al:
                flds = al.get(strip(t[1])[1], set())          # cur[0] = v  through the alias pointer
            elif t[0] == 'i' and last_field(t):
                flds = {last_field(t)}
            v = strip(e[3])
            if flds and not (v[0] == 'l'):
                out.append((ev, flds, e[3]))
        return out
    allstores = {}
    for f in dec:
        if f in C.runtime:
            for ev, flds, v in elem_stores(f, alias_locals(f)):
                for fl in flds:
                    allstores.setdefault(fl, []).append((f, ev, v))

    def loop_of(f, ev):
        for kind, cond, line in f.ctl_chain(ev):
            if kind in ('for', 'while', 'do') and cond is not None:
                return (kind, line, cond)
        return None

    def iter_vars(f, cond):
        return {x[1] for x in subexprs(cond) if x[0] == 'v' and x[2] == 'l'}

    def stepped_in(f, loop_line):
        out = set()
        for ev in f.events(('st',)):
            e = ev['e']
            if (e[0] == 'u' or (e[0] == 'a' and e[1] != '=')) and strip(e[2])[0] == 'v' and strip(e[2])[2] == 'l':
                if any(k in ('for', 'while', 'do') and ln == loop_line for k, c, ln in f.ctl_chain(ev)) or ev.get('l') == loop_line:
                    out.add(strip(e[2])[1])
        return out

    def depends_on(f, e, names, depth=0):
        """e is computed from one of the locals `names` (through single-definition locals)"""
        for x in subexprs(e):
            if x[0] == 'v' and x[1] in names:
                return True
        if depth > 3:
            return False
        for x in subexprs(e):
            if x[0] == 'v' and x[2] == 'l':
                defs = [ev for ev in f.events(('decl', 'st')) if (ev['k'] == 'decl' and ev['n'] == x[1] and ev.get('e') is not None) or
                        (ev['k'] == 'st' and ev['e'][0] == 'a' and ev['e'][1] == '=' and strip(ev['e'][2]) == x)]
                for d in defs:
                    rhs = d['e'] if d['k'] == 'decl' else d['e'][3]
                    if depends_on(f, rhs, names, depth + 1):
                        return True
        return False
    # start-position arrays: members indexed both as F[i] and F[i + 1] somewhere in the decoder (start of this / of the next tile)
    idx_forms = {}
    for g in dec:
        for ev in g.events():
            e = ev.get('e')
            if e is None:
                continue
            for x in subexprs(e):
                if x[0] == 'i' and strip(x[1])[0] == 'm':
                    ix = strip(x[2])
                    idx_forms.setdefault(strip(x[1])[1], set()).add('next' if (ix[0] == 'b' and ix[1] == '+' and strip(ix[3])[0] == 'l' and strip(ix[3])[1] == 1) else 'this')
    POSARR = {k for k, v in idx_forms.items() if v == {'this', 'next'}}

    def frame_of(f, e, depth):
        """{'ABS'} / {'REL'} / both / empty: does the expression carry an absolute position or a difference of two positions"""
        e = strip(e)
        out = set()
        if not e or depth > 14:
            return out
        if e[0] == 'b' and e[1] == '-':
            l, r = frame_of(f, e[2], depth + 1), frame_of(f, e[3], depth + 1)
            if 'ABS' in l and 'ABS' in r:
                return {'REL'}
            return l | r
        if e[0] == 'i' and strip(e[1])[0] == 'm' and strip(e[1])[1] in POSARR:
            return {'ABS'}
        if e[0] == 'v' and e[2] == 'l':
            for d in f.events(('decl', 'st')):
                x = d.get('e')
                rhs = x if (d['k'] == 'decl' and d['n'] == e[1]) else (x[3] if (d['k'] == 'st' and x is not None and x[0] == 'a' and x[1] == '=' and strip(x[2]) == e) else None)
                if rhs is not None:
                    out |= frame_of(f, rhs, depth + 1)
            return out
        for k in ('b', 'q', 'u', 'c'):
            pass
        if e[0] == 'b':
            return frame_of(f, e[2], depth + 1) | frame_of(f, e[3], depth + 1)
        if e[0] == 'q':
            return frame_of(f, e[1], depth + 1) | frame_of(f, e[2], depth + 1) | frame_of(f, e[3], depth + 1)
        if e[0] == 'u':
            return frame_of(f, e[2], depth + 1)
        return out
    nprog = 0
    for f in dec:
        if f not in C.runtime:
            continue
        al = alias_locals(f)
        mine = elem_stores(f, al)
        for bid in sorted(f.reach()):
            b = f.blocks[bid]
            c = b.get('fullcond')
            if c is None or b.get('tk') not in ('WhileStmt', 'DoStmt'):
                continue
            cc = strip(c)
            if cc[0] != 'b' or cc[1] not in ('<', '<='):
                continue
            l = strip(cc[2])
            if not (l[0] == 'u' and l[1] == '*' and strip(l[2])[0] == 'v' and strip(l[2])[1] in al):
                continue
            p = strip(l[2])[1]
            where = '%s:%d' % (f.loc().rsplit(':', 1)[0], b.get('tl', f.line))
            for fld in sorted(al[p]):
                nprog += 1
                prods = allstores.get(fld, [])
                key = '%s/progress:%s' % (f.name, fld.split('.')[1])
                if not prods:
                    rep.ob('C09.PROGRESS', key, False, where, 'wait on *%s (element of %s) but no run-time function stores a progress value into an element of that array: the wait never ends' % (p, fld))
                    continue
                same = [(ev, v) for ev, flds, v in mine if fld in flds]
                if not same:
                    rep.ob('C09.PROGRESS', key, True, where, 'wait on *%s (element of %s); progress published by %s' % (p, fld, sorted({g.name for g, _, _ in prods})))
                    continue
                # wavefront inside one function
                # enclosing loop of the wait: through the structured-control table (the wait's own entry is the while at this line)
                wl = None
                wctl = [i for i, (par, kind, cond, line) in enumerate(f.ctl) if kind in ('while', 'do') and line == b.get('tl') and cond is not None and pstr(strip(cond)) == pstr(cc)]
                cpar = f.ctl[wctl[0]][0] if wctl else None
                guards = []
                while cpar is not None and cpar >= 0:
                    par, kind, cond, line = f.ctl[cpar]
                    if kind in ('for', 'while', 'do') and cond is not None:
                        wl = (kind, line, cond)
                        break
                    guards.append(cpar)
                    cpar = par
                problems = []
                for ev, v in same:
                    pl = loop_of(f, ev)
                    if wl is None or pl is None or (pl[1] != wl[1]):
                        problems.append('publication at line %s is not in the loop of the wait' % ev.get('l'))
                        continue
                    its = iter_vars(f, pl[2]) | stepped_in(f, pl[1])
                    if not depends_on(f, v, its):
                        problems.append('published value %s does not advance with the loop (%s)' % (pstr(v)[:30], sorted(its)))
                    if not depends_on(f, cc[3], its):
                        problems.append('bound %s does not advance with the loop (%s)' % (pstr(cc[3])[:30], sorted(its)))
                    # order inside the body: the publication comes after the wait (source order within the same loop body; the
                    # wait may be conditional - the first row has no row above)
                    if not (ev.get('l', 0) > b.get('tl', 0)):
                        problems.append('publication (line %s) precedes the wait (line %s) in the loop body' % (ev.get('l'), b.get('tl')))
                # coordinate frame: the progress values are absolute superblock columns when the loop iterator starts at a
                # position taken from a start-position array (tile_col_start_mi[..]); then every arm of the bound must be absolute
                # as well - a tile-relative length (difference of two entries of that array) releases the wait too early for every
                # tile column but the first
                fr_v = set().union(*[frame_of(f, v, 0) for _, v in same]) if same else set()
                fr_b = frame_of(f, cc[3], 0)
                if 'ABS' in fr_v and 'REL' in fr_b:
                    problems.append('published values are absolute superblock columns but the bound %s contains a tile-relative length (a difference of two start positions): for tile columns > 0 the wait ends before the row above has reached the neighbour' % pstr(cc[3])[:60])
                rep.ob('C09.PROGRESS', key, not problems, where,
                       ('wavefront: wait on *%s < %s and publication %s sit in the loop at line %s and advance with its iterator' % (p, pstr(cc[3])[:40], ', '.join(pstr(v)[:20] for _, v in same), wl[1] if wl else '?'))
                       if not problems else '; '.join(problems))
    rep.floor('C09.PROGRESS', 5)

    # ---------------- RESET: a row-progress cell is either a *count* (published value = column index + 1, reset to 0) or an *index*
    # (published value = column index, reset to -1).  An index reset to 0 cannot tell "nothing done" from "column 0 done": the waiter of
    # the next row passes its first test before the row above has produced anything (it matters when the waited bound can be 0, i.e.
    # for pictures one superblock wide).  Decided for every progress array: publisher expression against the reset value.
    def _member_of(g, x, depth=0):
        x = strip(x)
        while x is not None and x[0] == 'k':
            x = strip(x[-1])
        if x is None or depth > 3:
            return None
        if x[0] == 'u' and x[1] in ('&', '*'):
            return _member_of(g, x[2], depth)
        if x[0] == 'i':
            return _member_of(g, x[1], depth)
        if x[0] == 'm':
            return x[1]
        if x[0] == 'v' and x[2] == 'l':
            ds = []
            for d in g.events(('decl', 'st')):
                e = d.get('e')
                if e is None:
                    continue
                if d['k'] == 'decl' and d['n'] == x[1]:
                    ds.append(e)
                elif d['k'] == 'st' and e[0] == 'a' and e[1] == '=' and strip(e[2]) is not None and strip(e[2])[0] == 'v' and strip(e[2])[1] == x[1]:
                    ds.append(e[3])
            ms = {_member_of(g, d, depth + 1) for d in ds}
            ms.discard(None)
            return ms.pop() if len(ms) == 1 else None
        return None
    pubs, resets = {}, {}
    for g in P.fns:
        if g.lib != 'Decoder' or g.nocfg:
            continue
        for ev in g.events(('st',)):
            e = ev['e']
            if e[0] != 'a' or e[1] != '=':
                continue
            t = strip(e[2])
            if t is None or t[0] != 'u' or t[1] != '*':
                continue
            m = _member_of(g, t[2])
            if not m or 'completed_in_row' not in m:
                continue
            r = strip(e[3])
            while r is not None and r[0] == 'k':
                r = strip(r[-1])
            kind = None
            if r is not None and r[0] == 'v':
                kind = 'index'
            elif r is not None and r[0] == 'b' and r[1] == '+' and pstr(strip(r[3])) == '1' and strip(r[2]) is not None and strip(strip(r[2]))[0] in ('v', 'k'):
                kind = 'count'
            if kind:
                pubs.setdefault(m, []).append((g, ev, kind, pstr(r)))
        for ev, n in g.calls('memset'):
            a = ev['e'][2]
            if len(a) < 2:
                continue
            m = _member_of(g, a[0])
            if not m or 'completed_in_row' not in m:
                continue
            v = strip(a[1])
            while v is not None and v[0] == 'k':
                v = strip(v[-1])
            val = None
            if v is not None and v[0] == 'l':
                val = v[1]
            elif v is not None and v[0] == 'u' and v[1] == '-' and strip(v[2]) is not None and strip(v[2])[0] == 'l':
                val = -strip(v[2])[1]
            if val is not None:
                resets.setdefault(m, []).append((g, ev, val))
    nres = 0
    for m, pl in sorted(pubs.items()):
        rl = [x for x in resets.get(m, []) if x[0] in C.runtime or True]
        if not rl:
            continue
        for g, ev, kind, txt in pl:
            nres += 1
            want = 0 if kind == 'count' else -1
            badr = [x for x in rl if x[2] != want and not (kind == 'count' and x[2] == 0)]
            # the allocation-time memset may use either value; the per-frame reset decides: every reset must be the wanted value
            ok = all(x[2] == want for x in rl)
            rep.ob('C09.RESET', '%s/%s' % (g.name, m), ok, g.loc(ev),
                   ('%s publishes %s (a column %s) and is reset to %d' % (m.split('.')[1], txt, kind, want)) if ok else
                   ('%s publishes the bare column index %s but is reset to %s (%s): after the reset the cell already reads as "column 0 done", so a waiter whose bound is 0 (a picture one superblock wide) starts before the row above has produced anything' %
                    (m.split('.')[1], txt, sorted({x[2] for x in rl}), ', '.join(sorted({x[0].name for x in rl if x[2] != want})))) if kind == 'index' else
                   ('%s publishes a count (%s) but is reset to %s' % (m.split('.')[1], txt, sorted({x[2] for x in rl}))))
    rep.floor('C09.RESET', 4)

    # ---------------- BARRIERRESET: the worker loop ends every frame in a sequence of all-threads rendezvous (each thread increments an
    # arrival counter, then polls it until it equals the thread count).  A thread may poll long after the count was reached, so a
    # counter may be set back to 0 only when every thread has demonstrably left its poll, i.e. has arrived at a *later* rendezvous.
    # For the counter of the last rendezvous of the loop body the only later one is the first rendezvous of the next frame: its reset
    # must be dominated, in the resetting function, by a call that takes part in a rendezvous on another counter.
    def _arrivals(g):
        """members incremented and polled (through a local alias) in g itself"""
        inc = set()
        for ev in g.events(('st',)):
            e = ev['e']
            if e[0] == 'u' and e[1] in ('x++', '++x', '++'):
                t = strip(e[2])
                if t is not None and t[0] == 'm':
                    inc.add(t[1])
            elif e[0] == 'a' and e[1] == '+=':
                t = strip(e[2])
                if t is not None and t[0] == 'm':
                    inc.add(t[1])
        polled = set()
        for par, kind, cond, line in g.ctl:
            if kind != 'while' or cond is None:
                continue
            for x in subexprs(cond):
                if x[0] == 'u' and x[1] == '*':
                    m = _member_of(g, x[2])
                    if m:
                        polled.add(m)
                elif x[0] == 'm':
                    polled.add(x[1])
        return inc & polled
    arr_of = {}
    for g in P.fns:
        if g.lib == 'Decoder' and not g.nocfg:
            a = _arrivals(g)
            if a:
                arr_of[g] = a
    if len(arr_of) < 3:
        raise AnalysisBroken('only %d decoder functions with an arrival-counter rendezvous found' % len(arr_of))

    def _trans_arrivals(g):
        out = set()
        for h in P.reachable_from([g]):
            out |= arr_of.get(h, set())
        return out
    # the worker loop: a thread entry whose loop body calls the stage functions in order
    stage_of = {}
    for g in P.fns:
        if g.lib != 'Decoder' or g.nocfg:
            continue
        seq = []
        for ev, n in g.calls():
            if n and any(k in ('while', 'for') for k, c, l in g.ctl_chain(ev)):
                h = P.fn(n, required=False)
                if h is not None:
                    ta = _trans_arrivals(h)
                    if ta:
                        seq.append((ev['l'], n, ta))
        if len({n for l, n, ta in seq}) >= 3:
            for i, (l, n, ta) in enumerate(sorted(seq)):
                for c in ta:
                    stage_of.setdefault(c, (i, n, g.name))
    if not stage_of:
        raise AnalysisBroken('decoder worker loop with at least three rendezvous stages not found')
    last = max(v[0] for v in stage_of.values())
    nbr = 0
    for g in P.fns:
        if g.lib != 'Decoder' or g.nocfg:
            continue
        for ev in g.events(('st',)):
            e = ev['e']
            if e[0] != 'a' or e[1] != '=':
                continue
            t = strip(e[2])
            r = strip(e[3])
            if t is None or t[0] != 'm' or t[1] not in stage_of or r is None or r[0] != 'l' or r[1] != 0:
                continue
            # allocation-time initialisation (no rendezvous is reachable from the function at all) is not a per-frame reset
            if not any(_trans_arrivals(h) for cv, n in g.calls() if n for h in [P.fn(n, required=False)] if h is not None):
                continue
            nbr += 1
            idx, stage_fn, loop_fn = stage_of[t[1]]
            if idx != last:
                rep.ob('C09.BARRIERRESET', '%s/%s@%d' % (g.name, t[1], ev['l']), True, g.loc(ev),
                       '%s belongs to stage %s, which is followed by another rendezvous in the same iteration of %s: every thread has left its poll before the next frame starts' % (t[1].split('.')[1], stage_fn, loop_fn))
                continue
            doms = [n for cv, n in g.calls() if n and g.ev_dominates(cv, ev) and
                    any(c != t[1] for h in [P.fn(n, required=False)] if h is not None for c in _trans_arrivals(h))]
            rep.ob('C09.BARRIERRESET', '%s/%s@%d' % (g.name, t[1], ev['l']), bool(doms), g.loc(ev),
                   ('%s (last rendezvous of %s) is set back after %s, a rendezvous of the new frame that no thread reaches before leaving its poll' % (t[1].split('.')[1], loop_fn, doms[0])) if doms else
                   ('%s is the arrival counter of the last rendezvous of the worker loop (%s in %s) and %s sets it back to 0 without having taken part in a rendezvous of the new frame first: a thread that has incremented it but not yet polled the final value reads 0, polls forever, and the frame (and the teardown) never completes' % (t[1].split('.')[1], stage_fn, loop_fn, g.name)))
    rep.floor('C09.BARRIERRESET', 3)

    # ---------------- STRIPES: the multi-threaded per-row variants of the restoration boundary save must visit the stripes the frame-level
    # (single-thread) variant visits.  Stripes start RESTORATION_UNIT_OFFSET lines above the 64-line grid, so the stripe holding the
    # last line of a picture of height H is (H + offset - 1) >> 6, and the last superblock row may have to save for one stripe more than
    # it has 64-line rows.  Decided by evaluating the extracted expressions (finite evaluation over sample heights, no execution):
    #  - a stripe index computed from the frame height equals (H + 7) >> 6 for H in a sample that covers every residue class that matters
    #  - a per-row stripe loop keeps going for the last superblock row beyond its per-row count (the exit is the end-of-picture test)
    from rules.C20 import _ev as _pev
    savers = ('save_deblock_boundary_lines', 'save_cdef_boundary_lines')
    nst = 0
    for g in P.fns:
        if g.lib != 'Decoder' or g.nocfg or g.file.endswith('EbDecRestoration.c'):
            continue
        if not any(True for _ in g.calls(savers)):
            continue
        for dv in g.events(('decl',)):
            e = dv.get('e')
            if dv['n'] != 'frame_stripe' or e is None:
                continue
            uses_h = any(x[0] == 'm' and x[1].endswith('.frame_height') for x in subexprs(e))
            if uses_h:
                bad = []
                nev = 0
                for H in (64, 120, 121, 122, 127, 128, 186, 192, 250, 256):
                    env = {x[1]: H for x in subexprs(e) if x[0] == 'm' and x[1].endswith('.frame_height')}
                    env.update({x[1]: 1 for x in subexprs(e) if x[0] == 'm' and x[1].endswith('.sb_rows')})
                    v = _pev(e, env, {'sb_row': 0})
                    nev += v is not None
                    if v is not None and v != (H + 7) >> 6:
                        bad.append('H=%d: %d, last stripe is %d' % (H, v, (H + 7) >> 6))
                if not nev:
                    continue        # not evaluable: no verdict (the instance floor below then reports analysis-broken, never a silent pass)
                nst += 1
                rep.ob('C09.STRIPES', '%s/last-stripe-index' % g.name, not bad, g.loc(dv),
                       'the index of the last stripe is (height + offset - 1) >> 6 for every sample height' if not bad else
                       ('%s takes %s as the index of the stripe holding the last line: wrong for %s - the boundary lines of the real last stripe are never saved and loop restoration reads what nobody wrote (multi-threaded output differs from single-threaded)' % (g.name, pstr(strip(e))[:70], '; '.join(bad[:3]))))
            else:
                # per-row enumeration: the enclosing loop must stay open for the last superblock row
                loops = [(k, c, l) for k, c, l in g.ctl_chain(dv) if k == 'for' and c is not None and 'row_cnt' in pstr(c) or k == 'for' and c is not None and any(x[0] == 'v' and x[1] in pstr(strip(e)) for x in subexprs(c))]
                if not loops:
                    continue
                nst += 1
                k, c, l = loops[0]
                loc0 = {x[1]: 9 for x in subexprs(c) if x[0] == 'v'}        # far beyond the per-row count
                loc0.update({'num64s': 1, 'last_sb_row': 1})
                for x in subexprs(c):
                    if x[0] == 'v' and 'last' in x[1]:
                        loc0[x[1]] = 1
                v = _pev(c, {}, loc0)
                ok = v is not None and v != 0
                rep.ob('C09.STRIPES', '%s/last-row-open' % g.name, ok, g.loc(dv),
                       'the stripe loop of the last superblock row continues until the end-of-picture test' if ok else
                       ('%s enumerates the stripes of a superblock row under %s, which ends after the per-row count also for the last row: the extra stripe of a picture whose height is a multiple of 64 (or 57..63 above one) is never saved' % (g.name, pstr(strip(c))[:60])))
    rep.floor('C09.STRIPES', 2)

    # ---------------- SEM
    waits, posts = {}, {}
    for f in dec:
        for ev, n in f.calls(('svt_block_on_semaphore', 'svt_post_semaphore')):
            for lf in {x[1] for x in subexprs(ev['e'][2][0]) if x[0] == 'm' and 'semaphore' in x[1]}:
                (waits if n == 'svt_block_on_semaphore' else posts).setdefault(lf, []).append((f, ev))
    for lf, ws in sorted(waits.items()):
        other = [p for p in posts.get(lf, [])]
        f, ev = ws[0]
        rep.ob('C09.SEM', 'wait:%s' % lf, bool(other), f.loc(ev), 'waited in %s; posted in %s' %
               (sorted({w[0].name for w in ws})[:5], sorted({p[0].name for p in other})[:5] or 'NO function'))
    rep.floor('C09.SEM', 2)

    # ---------------- ONCE: initialise-once-per-frame under a lock.  The first worker to arrive fills a shared table and raises a
    # done flag; every other worker tests the flag under the same lock and, finding it raised, goes straight on to *use* the
    # table.  So the flag may only become visible after the table is complete: the filling call is made with the lock held and
    # dominates the store that raises the flag.  (motion_proj_init_done uses claim-then-work followed by a hard barrier and is
    # a different protocol; it is covered by the SPIN rule.)
    ONCE = {'DecMtlfFrameInfo.lf_info_init_done': ('svt_av1_loop_filter_frame_init', 'DecMtRowInfo.sbrow_mutex')}
    for flag, (init_fn, lock_cls) in sorted(ONCE.items()):
        sites = []
        for f in P.fns:
            if f.lib != 'Decoder' or f.nocfg:
                continue
            for ev in f.events(('st',)):
                e = ev['e']
                if e[0] == 'a' and e[1] == '=' and last_field(strip(e[2])) == flag and not (strip(e[3])[0] == 'l' and strip(e[3])[1] == 0):
                    sites.append((f, ev))
        if not sites:
            raise AnalysisBroken('once-flag %s is never raised' % flag)
        for f, ev in sites:
            inits = [c for c, n in f.calls(init_fn)]
            must, may = la.held_classes_at(f, ev)
            flag_locked = lock_cls in must
            ok_calls = []
            for c in inits:
                m2, _ = la.held_classes_at(f, c)
                ok_calls.append(lock_cls in m2 and f.ev_dominates(c, ev))
            ok = flag_locked and bool(inits) and all(ok_calls)
            rep.ob('C09.ONCE', '%s/%s' % (f.name, flag), ok, f.loc(ev),
                   ('%s is raised under %s after %s completed under the same lock' % (flag.split('.')[1], lock_cls.split('.')[1], init_fn)) if ok else
                   ('%s becomes visible before the table it announces is complete (%s is %s): another worker that finds the flag raised filters rows with stale / half-written data'
                    % (flag.split('.')[1], init_fn, 'not called in this function' if not inits else 'called outside the lock or after the flag is raised')))
    rep.floor('C09.ONCE', 1)
