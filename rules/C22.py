"""C22 - long streams: wrap-around of the circular reorder queues and of the order-hint distance.

  C22.WRAP  every subscript of a circular queue of EncodeContext is wrap-normalised by *that queue's* allocation depth
            (the count passed to EB_ALLOC_PTR_ARRAY in encode_context_ctor): the index is  e % N,  or a variable / head-tail
            field all of whose definitions are wrap idioms over the same N ((x==N-1)?0:x+1, (x>N-1)?x-N:x, (x==0)?N-1:x-1,
            e % N, helpers returning those), the literal 0, a copy of such a field, or a loop counter bounded by N
  C22.REARM the depth added when a reorder-queue entry is re-armed (picture_number += DEPTH) is the allocation depth of the
            queue the entry lives in
  C22.DIST  the signed order-hint distance helpers (get_relative_dist in its encoder, common and decoder copies) have
            equal normalised bodies: if they differ one of them is wrong
"""
from engine.facts import pstr, ptext, strip, callee_name, subexprs, last_field, root_of, AnalysisBroken
from engine.classes import Classes
from engine.wrap import wrap_shape

PID = 'C22'

META = {
    'technique': 'per-subscript reaching-definition classification against wrap idioms parameterised by the allocation depth read from the constructor (type-resolved queue fields, whole-program stores to head/tail fields) + sibling agreement of the order-hint distance helpers',
    'text': 'Decides, for every one of the ~190 subscripts of the eight circular queues and for every store to their head/tail cursors anywhere in the encoder, that the index is reduced modulo the depth that queue was allocated with - the condition under which streams longer than the queue depth keep indexing inside the array - and that the duplicated signed-distance helpers agree. It does not decide that the distance formula is the right one nor decodability of long streams.',
    'note': 'functions that are dead code (print_pd_reord_queue, get_reord_q_size) are ignored and reported if they become reachable; pre_assignment_buffer is a linear buffer, not a ring',
    'ref': 'DESIGN.md section 5 C22',
}

RINGS = ['picture_decision_reorder_queue', 'initial_rate_control_reorder_queue', 'hl_rate_control_historgram_queue',
         'packetization_reorder_queue', 'input_picture_queue', 'reference_picture_queue', 'dep_cnt_picture_queue',
         'picture_decision_pa_reference_queue']
REC = 'EncodeContext.'


def run(P, rep, tier):
    C = Classes(P)
    ctor = P.fn('encode_context_ctor')
    depth = {}
    for ev in ctor.events(('st',)):
        mx = ev.get('mx') or []
        if 'EB_ALLOC_PTR_ARRAY' in mx and ev['e'][0] == 'a':
            lf = last_field(strip(ev['e'][2]))
            rhs = strip(ev['e'][3])
            if lf and rhs and rhs[0] == 'c' and callee_name(rhs) == 'calloc' and strip(rhs[2][0])[0] == 'l':
                depth[lf] = strip(rhs[2][0])[1]
    rings = {}
    for r in RINGS:
        if REC + r not in depth:
            raise AnalysisBroken('allocation depth of %s not found in encode_context_ctor' % r)
        rings[REC + r] = depth[REC + r]
    rep.explanation = 'Ring depths read from encode_context_ctor: %s' % {k.split('.')[1]: v for k, v in rings.items()}
    rep.analysed = {'rings': {k.split('.')[1]: v for k, v in rings.items()}}
    rep.assumptions = ['a value reduced modulo N stays reduced until redefined', 'loop counters bounded by a count <= N']

    # helpers that return a wrapped value: {fn name: N}
    helpers = {}
    for f in P.fns:
        if f.lib != 'Encoder' or f.nocfg:
            continue
        rets = [strip(ev['e']) for ev in f.events(('ret',)) if ev.get('e') is not None]
        if rets and all(wrap_shape(r) and wrap_shape(r)[0] == 'mod' and wrap_shape(r)[2][0] == 'lit' for r in rets):
            ns = {wrap_shape(r)[2][1] for r in rets}
            if len(ns) == 1:
                helpers[f.name] = ns.pop()

    # all stores per field (whole program) and per (function, local)
    fstores = {}
    for f in P.fns:
        if f.lib != 'Encoder' or f.nocfg or f in C.dead:
            continue
        for ev in f.events(('st',)):
            e = ev['e']
            t = strip(e[2]) if e[0] in ('a', 'u') else None
            if t is not None and t[0] == 'm':
                fstores.setdefault(t[1], []).append((f, ev))
    memo = {}

    def ok_expr(f, x, N, depthl=0, via=()):
        """(ok, reason)"""
        x = strip(x)
        if x is None or depthl > 6:
            return False, 'unresolved'
        if x[0] == 'l':
            return (0 <= x[1] < N), 'literal %d' % x[1]
        w = wrap_shape(x)
        if w:
            kind, base, n = w
            if kind == 'norm-mismatch':
                return False, 'wrap idiom with inconsistent depths %s' % (n,)
            nv = n[1] if n[0] == 'lit' else None
            if nv is None:
                return False, 'wrap over non-constant %s' % (n,)
            if nv != N:
                return False, 'wrapped by %d but the queue depth is %d' % (nv, N)
            return True, '%s-wrap over %d' % (kind, N)
        if x[0] == 'c':
            n = callee_name(x)
            if n in helpers:
                return (helpers[n] == N), 'helper %s wraps by %d' % (n, helpers[n])
            return False, 'call to %s' % n
        if x[0] == 'q':
            a, ra = ok_expr(f, x[2], N, depthl + 1, via)
            b, rb = ok_expr(f, x[3], N, depthl + 1, via)
            return a and b, 'conditional: %s / %s' % (ra, rb)
        if x[0] == 'v' and x[2] in ('l',) or (x[0] == 'v' and x[2].startswith('p')):
            return ok_local(f, x[1], N, depthl + 1, via)
        if x[0] == 'm':
            return ok_field(x[1], N, depthl + 1, via)
        if x[0] == 'u' and x[1] in ('++x', 'x++', '--x', 'x--'):
            return False, 'bare increment used as subscript'
        return False, 'expression %s' % pstr(x)[:50]

    def loop_bound(f, name, N):
        """name is a loop counter with condition name < K, K literal <= N"""
        for c in f.ctl:
            parent, kind, cond, line = c
            if kind in ('for', 'while') and cond is not None:
                cc = strip(cond)
                for y in subexprs(cc):
                    if y[0] == 'b' and y[1] in ('<', '<=') and pstr(strip(y[2])) == name:
                        r = strip(y[3])
                        if r[0] == 'l' and r[1] + (1 if y[1] == '<=' else 0) <= N:
                            return True
        return False

    def ok_local(f, name, N, depthl, via):
        key = (f.key, name, N)
        if key in memo:
            return memo[key]
        if key in via:
            return True, 'recursive'
        via = via + (key,)
        defs = []
        for ev in f.events(('decl', 'st')):
            e = ev.get('e')
            if ev['k'] == 'decl' and ev['n'] == name:
                if e is not None:
                    defs.append((ev, e))
            elif ev['k'] == 'st' and e is not None:
                t = strip(e[2]) if e[0] in ('a', 'u') else None
                if t is not None and t[0] == 'v' and t[1] == name:
                    defs.append((ev, e[3] if e[0] == 'a' and e[1] == '=' else e))
        if not defs:
            # a parameter: every call site must pass a wrapped value (not followed: conservative)
            res = (False, 'parameter/undefined %s' % name)
            memo[key] = res
            return res
        bounded = loop_bound(f, name, N)
        for ev, rhs in defs:
            r = strip(rhs)
            if r[0] == 'u' and r[1] in ('++x', 'x++', '--x', 'x--') or (r[0] == 'a' and r[1] in ('+=', '-=')):
                if bounded:
                    continue
                res = (False, '%s is stepped without a wrap at %s' % (name, f.loc(ev)))
                memo[key] = res
                return res
            if bounded and r[0] == 'l':
                continue
            ok, why = ok_expr(f, r, N, depthl, via)
            if not ok:
                res = (False, '%s = %s at %s: %s' % (name, pstr(r)[:60], f.loc(ev), why))
                memo[key] = res
                return res
        res = (True, 'every definition of %s is wrapped by %d%s' % (name, N, ' / loop-bounded' if bounded else ''))
        memo[key] = res
        return res

    def ok_field(fid, N, depthl, via):
        key = ('field', fid, N)
        if key in memo:
            return memo[key]
        if key in via:
            return True, 'recursive'
        via = via + (key,)
        ss = fstores.get(fid, [])
        if not ss:
            res = (False, 'field %s is never stored' % fid)
            memo[key] = res
            return res
        for f, ev in ss:
            e = ev['e']
            if C.single_threaded(f) and e[0] == 'a' and strip(e[3])[0] == 'l' and strip(e[3])[1] == 0:
                continue
            if e[0] != 'a' or e[1] != '=':
                res = (False, 'field %s is stepped without a wrap at %s' % (fid, f.loc(ev)))
                memo[key] = res
                return res
            ok, why = ok_expr(f, e[3], N, depthl, via)
            if not ok:
                res = (False, 'store to %s at %s: %s' % (fid, f.loc(ev), why))
                memo[key] = res
                return res
        res = (True, 'every store to %s is wrapped by %d (%d stores)' % (fid, N, len(ss)))
        memo[key] = res
        return res

    nsite = {}
    for f in P.fns:
        if f.lib != 'Encoder' or f.nocfg:
            continue
        for ev in f.events(('ix',)):
            lf = last_field(ev['e'])
            if lf not in rings or strip(ev['e'])[0] != 'm':
                continue
            if f in C.dead:
                rep.note('subscript of %s in dead function %s ignored (%s)' % (lf, f.name, pstr(strip(ev['i']))))
                continue
            N = rings[lf]
            ok, why = ok_expr(f, ev['i'], N)
            k = (f.name, lf, pstr(strip(ev['i'])))
            nsite[k] = nsite.get(k, 0) + 1
            if nsite[k] > 1:
                continue
            rep.ob('C22.WRAP', '%s/%s[%s]' % (f.name, lf.split('.')[1], pstr(strip(ev['i']))[:40]), ok, f.loc(ev),
                   '%s[%s] (depth %d): %s' % (lf.split('.')[1], pstr(strip(ev['i']))[:60], N, why))
    rep.floor('C22.WRAP', 60)

    # ---------------- REARM: picture_number += DEPTH on an entry of ring R uses depth(R)
    entry_rec = {}
    for r in P.record('EncodeContext')['fields']:
        if REC + r['n'] in rings and r.get('rec'):
            entry_rec[r['rec']] = REC + r['n']
    n = 0
    for f in P.fns:
        if f.lib != 'Encoder' or f.nocfg or f in C.dead:
            continue
        for ev in f.events(('st',)):
            e = ev['e']
            if e[0] == 'a' and e[1] == '+=' and strip(e[3])[0] == 'l':
                lf = last_field(strip(e[2]))
                if lf and lf.endswith('.picture_number') and lf.split('.')[0] in entry_rec:
                    ring = entry_rec[lf.split('.')[0]]
                    n += 1
                    rep.ob('C22.REARM', '%s/%s#%d' % (f.name, lf, n), strip(e[3])[1] == rings[ring], f.loc(ev),
                           'entry of %s re-armed by += %s (%d); allocation depth %d' % (ring.split('.')[1], ptext(strip(e[3])), strip(e[3])[1], rings[ring]))
    rep.floor('C22.REARM', 3)

    # ---------------- DIST
    sib = [g for g in P.by_name.get('get_relative_dist', []) + P.by_name.get('get_relative_dist_enc', []) if not g.nocfg]
    if len(sib) < 3:
        raise AnalysisBroken('only %d copies of the order-hint distance helper found' % len(sib))

    def norm(g):
        names = {}
        out = []
        for i, (pn, pt) in enumerate(g.params):
            names[pn] = 'a%d' % i

        def nm(e):
            e = strip(e)
            if e is None:
                return ''
            k = e[0]
            if k == 'v':
                if e[1] not in names:
                    names[e[1]] = 'l%d' % len(names)
                return names[e[1]]
            if k == 'l':
                return str(e[1])
            if k == 'm':
                return '.' + e[1].split('.', 1)[1]          # ohi->order_hint_bits / seq->order_hint_info.order_hint_bits: field tail
            if k == 'u':
                return e[1] + '(' + nm(e[2]) + ')'
            if k in ('b', 'a'):
                return '(' + nm(e[2]) + e[1] + nm(e[3]) + ')'
            if k == 'q':
                return '(' + nm(e[1]) + '?' + nm(e[2]) + ':' + nm(e[3]) + ')'
            return pstr(e)
        for ev in g.events(('st', 'decl', 'ret')):
            e = ev.get('e')
            if ev['k'] == 'decl':
                names.setdefault(ev['n'], 'l%d' % len(names))
                if e is not None:
                    out.append('%s=%s' % (names[ev['n']], nm(e)))
            elif e is not None:
                out.append(ev['k'] + ':' + nm(e))
        for bid in sorted(g.reach()):
            c = g.blocks[bid].get('fullcond')
            if c is not None:
                out.append('if:' + nm(c))
        return sorted(out)
    groups = {}
    for g in sib:
        groups.setdefault(tuple(norm(g)), []).append(g)
    ref = max(groups.values(), key=len)
    for g in sib:
        same = g in ref
        rep.ob('C22.DIST', 'get_relative_dist@%s' % g.file.rsplit('/', 1)[-1], same, g.loc(),
               'agrees with %d sibling(s)' % (len(ref) - 1) if same else
               'differs from the majority of its siblings (%s): %s vs %s' % ([x.loc() for x in ref][:2], norm(g)[:4], norm(ref[0])[:4]))
    rep.floor('C22.DIST', 3)
