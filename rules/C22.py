"""C22 - long streams: wrap-around of the circular reorder queues and of the order-hint distance.

  C22.WRAP  every subscript of a circular queue of EncodeContext is wrap-normalised by *that queue's* allocation depth
            (the count passed to EB_ALLOC_PTR_ARRAY in encode_context_ctor): the index is  e % N,  or a variable / head-tail
            field all of whose definitions are wrap idioms over the same N ((x==N-1)?0:x+1, (x>N-1)?x-N:x, (x==0)?N-1:x-1,
            e % N, helpers returning those), the literal 0, a copy of such a field, or a loop counter bounded by N
  C22.REARM the depth added when a reorder-queue entry is re-armed (picture_number += DEPTH) is the allocation depth of the
            queue the entry lives in
  C22.DIST  the signed order-hint distance helpers (get_relative_dist in its encoder, common and decoder copies) have
            equal normalised bodies: if they differ one of them is wrong
"""
from engine.facts import is_lit, pstr, ptext, strip, callee_name, subexprs, last_field, root_of, AnalysisBroken
from engine.classes import Classes
from engine.wrap import wrap_shape
from engine.reach import reaching
from engine.symsum import summary

PID = 'C22'

META = {
    'technique': 'per-subscript reaching-definition classification against wrap idioms parameterised by the allocation depth read from the constructor (type-resolved queue fields, whole-program stores to head/tail fields) + sibling agreement of the order-hint distance helpers; finite enumeration of configuration guards with conditional constant propagation (lookup of the rate-control interval ring versus the calls that re-key it)',
    'text': 'Decides, for every one of the ~190 subscripts of the eight circular queues and for every store to their head/tail cursors anywhere in the encoder, that the index is reduced modulo the depth that queue was allocated with - the condition under which streams longer than the queue depth keep indexing inside the array - and that the duplicated signed-distance helpers agree. It does not decide that the distance formula is the right one nor decodability of long streams. Also decided: in every rate-control configuration in which the kernel searches the GOP-interval ring by picture number, a call that moves used-up intervals one lap ahead is reachable (otherwise the stream stops after one lap of the ring).',
    'note': 'functions that are dead code (print_pd_reord_queue, get_reord_q_size) are ignored and reported if they become reachable; pre_assignment_buffer is a linear buffer, not a ring',
    'ref': 'DESIGN.md section 5 C22',
}

RINGS = ['picture_decision_reorder_queue', 'initial_rate_control_reorder_queue', 'hl_rate_control_historgram_queue',
         'packetization_reorder_queue', 'input_picture_queue', 'reference_picture_queue', 'dep_cnt_picture_queue',
         'picture_decision_pa_reference_queue']
REC = 'EncodeContext.'


def run(P, rep, tier):
    C = Classes(P)
    ctor = P.fn('encode_context_ctor')
    depth = {}
    for ev in ctor.events(('st',)):
        mx = ev.get('mx') or []
        if 'EB_ALLOC_PTR_ARRAY' in mx and ev['e'][0] == 'a':
            lf = last_field(strip(ev['e'][2]))
            rhs = strip(ev['e'][3])
            if lf and rhs and rhs[0] == 'c' and callee_name(rhs) == 'calloc' and strip(rhs[2][0])[0] == 'l':
                depth[lf] = strip(rhs[2][0])[1]
    rings = {}
    for r in RINGS:
        if REC + r not in depth:
            raise AnalysisBroken('allocation depth of %s not found in encode_context_ctor' % r)
        rings[REC + r] = depth[REC + r]
    rep.explanation = 'Ring depths read from encode_context_ctor: %s' % {k.split('.')[1]: v for k, v in rings.items()}
    rep.analysed = {'rings': {k.split('.')[1]: v for k, v in rings.items()}}
    rep.assumptions = ['a value reduced modulo N stays reduced until redefined', 'loop counters bounded by a count <= N']

    # helpers that return a wrapped value: {fn name: N}
    helpers = {}
    for f in P.fns:
        if f.lib != 'Encoder' or f.nocfg:
            continue
        rets = [strip(ev['e']) for ev in f.events(('ret',)) if ev.get('e') is not None]
        # every return is a reduction modulo a literal N: E % N, or the single conditional subtraction (X > N-1) ? X-N : X
        if rets and all(wrap_shape(r) and wrap_shape(r)[0] in ('mod', 'norm') and wrap_shape(r)[2][0] == 'lit' for r in rets):
            ns = {wrap_shape(r)[2][1] for r in rets}
            if len(ns) == 1:
                helpers[f.name] = ns.pop()

    # all stores per field (whole program) and per (function, local)
    fstores = {}
    for f in P.fns:
        if f.lib != 'Encoder' or f.nocfg or f in C.dead:
            continue
        for ev in f.events(('st',)):
            e = ev['e']
            t = strip(e[2]) if e[0] in ('a', 'u') else None
            if t is not None and t[0] == 'm':
                fstores.setdefault(t[1], []).append((f, ev))
    memo = {}

    def ok_expr(f, at, x, N, depthl=0, via=()):
        """(ok, reason) for expression x evaluated just before event `at` of function f"""
        x = strip(x)
        if x is None or depthl > 8:
            return False, 'unresolved'
        if x[0] == 'l':
            return (0 <= x[1] < N), 'literal %d' % x[1]
        w = wrap_shape(x)
        if w:
            kind, base, n = w
            if kind == 'norm-mismatch':
                return False, 'wrap idiom with inconsistent depths %s' % (n,)
            nv = n[1] if n[0] == 'lit' else None
            if nv is None:
                return False, 'wrap over non-constant %s' % (n,)
            if nv != N:
                return False, 'wrapped by %d but the queue depth is %d' % (nv, N)
            return True, '%s-wrap over %d' % (kind, N)
        if x[0] == 'c':
            n = callee_name(x)
            if n in helpers:
                return (helpers[n] == N), 'helper %s wraps by %d' % (n, helpers[n])
            return False, 'call to %s' % n
        if x[0] == 'q':
            a, ra = ok_expr(f, at, x[2], N, depthl + 1, via)
            b, rb = ok_expr(f, at, x[3], N, depthl + 1, via)
            return a and b, 'conditional: %s / %s' % (ra, rb)
        if x[0] == 'v' and (x[2] == 'l' or x[2].startswith('p')):
            return ok_local(f, at, x[1], N, depthl + 1, via)
        if x[0] == 'm':
            return ok_field(x[1], N, depthl + 1, via)
        if x[0] == 'u' and x[1] in ('++x', 'x++', '--x', 'x--'):
            return False, 'bare increment used as subscript'
        return False, 'expression %s' % pstr(x)[:50]

    def loop_bound(f, name, N):
        """name is a loop counter with condition name < K, K literal <= N"""
        for c in f.ctl:
            parent, kind, cond, line = c
            if kind in ('for', 'while') and cond is not None:
                cc = strip(cond)
                for y in subexprs(cc):
                    if y[0] == 'b' and y[1] in ('<', '<=') and pstr(strip(y[2])) == name:
                        r = strip(y[3])
                        if r[0] == 'l' and r[1] + (1 if y[1] == '<=' else 0) <= N:
                            return True
        return False

    def ok_local(f, at, name, N, depthl, via):
        """every definition of local/parameter `name` reaching event `at` is wrap-normalised by N"""
        key = (f.key, at['b'], at['x'], name, N)
        if key in memo:
            return memo[key]
        if key in via:
            return True, 'cyclic (judged by the other definitions)'
        via = via + (key,)
        defs = reaching(f).at(at, name)
        if not defs:
            res = (False, 'no definition of %s reaches this point' % name)
            memo[key] = res
            return res
        bounded = loop_bound(f, name, N)
        res = None
        # statement form of the norm idiom:  if (x > N-1) x -= N; [else if (x < 0) x += N;]
        guards = []
        for d in defs:
            if isinstance(d, dict) and d['k'] == 'st' and d['e'][0] == 'a' and d['e'][1] in ('-=', '+=') and is_lit(d['e'][3], N):
                ch = f.ctl_chain(d)
                gb = f.idom().get(d['b'])
                if not ch or gb is None:
                    continue
                kind, cond, line = ch[0]
                c = strip(cond)
                if d['e'][1] == '-=' and kind == 'if' and c and c[0] == 'b' and pstr(strip(c[2])) == name and \
                        ((c[1] == '>' and is_lit(c[3], N - 1)) or (c[1] == '>=' and is_lit(c[3], N))):
                    guards.append((d, gb))
                elif d['e'][1] == '+=' and kind == 'if' and c and c[0] == 'b' and c[1] == '<' and pstr(strip(c[2])) == name and is_lit(c[3], 0):
                    guards.append((d, gb))
        gdefs = [g[0] for g in guards]
        first_guard = None
        for d, gb in guards:
            if d['e'][1] == '-=':
                first_guard = gb
        for d in defs:
            if first_guard is not None and any(d is g for g in gdefs):
                continue
            if first_guard is not None and isinstance(d, dict) and d['k'] != 'call':
                # any other definition must flow *through* the guard: it lies before it (not dominated by the guard block)
                if f.block_dominates(first_guard, at['b']) and not (f.block_dominates(first_guard, d['b']) and d['b'] != first_guard):
                    continue
            if isinstance(d, tuple):        # parameter: every call site must pass a wrapped value
                pi = [i for i, (pn, pt) in enumerate(f.params) if pn == name]
                sites = P.call_sites(f.name)
                sites = [(g, cev) for g, cev in sites if g not in C.dead and f in P.resolve(f.name, g)]
                if not pi or not sites:
                    res = (False, 'parameter %s with no resolvable call site' % name)
                    break
                for g, cev in sites:
                    args = cev['e'][2]
                    if pi[0] >= len(args):
                        res = (False, 'call of %s in %s passes too few arguments' % (f.name, g.name))
                        break
                    ok, why = ok_expr(g, cev, args[pi[0]], N, depthl, via)
                    if not ok:
                        res = (False, 'argument %s of %s at %s: %s' % (name, f.name, g.loc(cev), why))
                        break
                if res:
                    break
                continue
            ev = d
            e = ev.get('e')
            if ev['k'] == 'call':
                res = (False, '&%s passed to a callee at %s' % (name, f.loc(ev)))
                break
            if ev['k'] == 'decl':
                if e is None:
                    res = (False, '%s may be used uninitialised (declared at %s)' % (name, f.loc(ev)))
                    break
                rhs = e
            elif e[0] == 'a' and e[1] == '=':
                rhs = e[3]
            else:
                if bounded:
                    continue
                res = (False, '%s is stepped without a wrap at %s' % (name, f.loc(ev)))
                break
            if bounded and strip(rhs)[0] == 'l':
                continue
            ok, why = ok_expr(f, ev, rhs, N, depthl, via)
            if not ok:
                res = (False, '%s = %s at %s: %s' % (name, pstr(strip(rhs))[:60], f.loc(ev), why))
                break
        if res is None:
            res = (True, 'every definition of %s reaching here is wrapped by %d%s (%d definitions)' % (name, N, ' / loop-bounded' if bounded else '', len(defs)))
        memo[key] = res
        return res

    def ok_field(fid, N, depthl, via):
        key = ('field', fid, N)
        if key in memo:
            return memo[key]
        if key in via:
            return True, 'cyclic (judged by the other stores)'
        via = via + (key,)
        ss = fstores.get(fid, [])
        if not ss:
            res = (False, 'field %s is never stored' % fid)
            memo[key] = res
            return res
        for f, ev in ss:
            e = ev['e']
            if e[0] != 'a' or e[1] != '=':
                res = (False, 'field %s is stepped without a wrap at %s' % (fid, f.loc(ev)))
                memo[key] = res
                return res
            ok, why = ok_expr(f, ev, e[3], N, depthl, via)
            if not ok:
                res = (False, 'store to %s at %s: %s' % (fid, f.loc(ev), why))
                memo[key] = res
                return res
        res = (True, 'every store to %s is wrapped by %d (%d stores)' % (fid, N, len(ss)))
        memo[key] = res
        return res

    nsite = {}
    for f in P.fns:
        if f.lib != 'Encoder' or f.nocfg:
            continue
        for ev in f.events(('ix',)):
            lf = last_field(ev['e'])
            if lf not in rings or strip(ev['e'])[0] != 'm':
                continue
            if f in C.dead:
                rep.note('subscript of %s in dead function %s ignored (%s)' % (lf, f.name, pstr(strip(ev['i']))))
                continue
            N = rings[lf]
            ok, why = ok_expr(f, ev, ev['i'], N)
            k = (f.name, lf, pstr(strip(ev['i'])))
            nsite[k] = nsite.get(k, 0) + 1
            if nsite[k] > 1:
                continue
            rep.ob('C22.WRAP', '%s/%s[%s]' % (f.name, lf.split('.')[1], pstr(strip(ev['i']))[:40]), ok, f.loc(ev),
                   '%s[%s] (depth %d): %s' % (lf.split('.')[1], pstr(strip(ev['i']))[:60], N, why))
    # cursors: every member that is used directly as a subscript of a ring is a cursor of that ring; all its stores, wherever they
    # are, must be wrap idioms over that ring's depth (a cursor stepped by more than one must be reduced, not reset)
    cursors = {}
    for f in P.fns:
        if f.lib != 'Encoder' or f.nocfg or f in C.dead:
            continue
        for ev in f.events(('ix',)):
            lf = last_field(ev['e'])
            if lf in rings and strip(ev['e'])[0] == 'm':
                i = strip(ev['i'])
                if i and i[0] == 'm':
                    cursors.setdefault(i[1], set()).add(lf)
        # cursors that only reach the ring through a wrap helper: members read by the helpers' return expressions
    for hn, N in helpers.items():
        for h in P.by_name.get(hn, []):
            if h.nocfg:
                continue
            for ev in h.events(('ret', 'decl')):
                e = ev.get('e')
                if e is None:
                    continue
                for x in subexprs(e):
                    if x[0] == 'm' and x[1].startswith(REC) and x[1].endswith('_index'):
                        for r, d in rings.items():
                            if d == N and x[1].startswith(r):
                                cursors.setdefault(x[1], set()).add(r)
    for cur, rs in sorted(cursors.items()):
        N = rings[sorted(rs)[0]]
        memo.pop(('field', cur, N), None)
        ok, why = ok_field(cur, N, 0, ())
        rep.ob('C22.WRAP', 'cursor:%s' % cur.split('.')[1], ok, 'Source/Lib/Encoder/Codec/EbEncodeContext.h', 'cursor of %s (depth %d): %s' % (sorted(r.split('.')[1] for r in rs), N, why))
    rep.floor('C22.WRAP', 60)

    # ---------------- REARM: picture_number += DEPTH on an entry of ring R uses depth(R)
    entry_rec = {}
    for r in P.record('EncodeContext')['fields']:
        if REC + r['n'] in rings and r.get('t', '').endswith('**'):
            entry_rec[r['t'].replace('*', '').replace('struct ', '').strip()] = REC + r['n']
    n = 0
    for f in P.fns:
        if f.lib != 'Encoder' or f.nocfg or f in C.dead:
            continue
        for ev in f.events(('st',)):
            e = ev['e']
            if e[0] == 'a' and e[1] == '+=' and strip(e[3])[0] == 'l':
                lf = last_field(strip(e[2]))
                if lf and lf.endswith('.picture_number') and lf.split('.')[0] in entry_rec:
                    ring = entry_rec[lf.split('.')[0]]
                    n += 1
                    rep.ob('C22.REARM', '%s/%s#%d' % (f.name, lf, n), strip(e[3])[1] == rings[ring], f.loc(ev),
                           'entry of %s re-armed by += %s (%d); allocation depth %d' % (ring.split('.')[1], ptext(strip(e[3])), strip(e[3])[1], rings[ring]))
    rep.floor('C22.REARM', 3)

    # ---------------- DIST
    sib = [g for g in P.by_name.get('get_relative_dist', []) + P.by_name.get('get_relative_dist_enc', []) if not g.nocfg]
    if len(sib) < 3:
        raise AnalysisBroken('only %d copies of the order-hint distance helper found' % len(sib))

    def norm(g):
        sm = summary(g)
        if sm is None:
            raise AnalysisBroken('order-hint distance helper %s at %s is outside the loop-free summary language' % (g.name, g.loc()))
        return sm
    groups = {}
    for g in sib:
        groups.setdefault(tuple(norm(g)), []).append(g)
    ref = max(groups.values(), key=len)
    for g in sib:
        same = g in ref
        rep.ob('C22.DIST', 'get_relative_dist@%s' % g.file.rsplit('/', 1)[-1], same, g.loc(),
               'agrees with %d sibling(s)' % (len(ref) - 1) if same else
               'differs from the majority of its siblings (%s): %s vs %s' % ([x.loc() for x in ref][:2], norm(g), norm(ref[0])))
    rep.floor('C22.DIST', 3)

    run_rekey(P, rep)


# ---------------- REKEY: a ring whose entries are found by a key range (first_poc .. last_poc of a GOP interval) serves a stream longer
# than the ring only if the entries are re-keyed one lap ahead once they are used up.  The lookup and the re-keying sit under different
# configuration guards in the rate-control kernel; on every configuration in which the lookup runs, a call that reaches a re-keying store
# must be able to run too.  Decided by enumerating the configuration predicates the guards read (finite: mode, finite / infinite
# period, two-pass statistics, look-ahead processing) and propagating constants through the kernel for each assignment.
def run_rekey(P, rep):
    from rules.C20 import sccp
    K = P.fn('rate_control_kernel')
    # re-keying stores: KEY += <something with the ring depth>, on a member named like the lookup keys
    keys = set()
    lookups = []
    for par, kind, cond, line in K.ctl:
        pass
    for ev in K.events(('st', 'decl', 'call')):
        pass
    # lookup: comparisons of the picture number with members of the ring entries, evaluated inside a search loop of the kernel
    for bid, blk in K.blocks.items():
        c = blk.get('cond')
        if c is None or not any(x[0] == 'm' and x[1].endswith('.picture_number') for x in subexprs(c)):
            continue
        ms = [x[1] for x in subexprs(c) if x[0] == 'm' and not x[1].endswith('.picture_number') and any(y[0] == 'i' for y in subexprs(x))]
        if ms and any(ev2.get('ctl') is not None and any(k == 'while' for k, c2, l2 in K.ctl_chain(ev2)) for ev2 in blk['ev'][:1] + blk['ev'][-1:]) or \
           ms and any(k == 'while' for par, k, c2, l2 in [K.ctl[i2] for i2 in range(len(K.ctl)) if K.ctl[i2][3] <= (blk['ev'][0]['l'] if blk['ev'] else 0) <= K.ctl[i2][3] + 12]):
            keys |= set(ms)
            lookups.append(bid)
    if not lookups:
        raise AnalysisBroken('the interval lookup of rate_control_kernel was not found')
    rekey_fns = {}
    for g in P.fns:
        if g.lib != 'Encoder' or g.nocfg:
            continue
        for ev in g.events(('st',)):
            e = ev['e']
            if e[0] == 'a' and e[1] == '+=' and strip(e[2]) is not None and strip(e[2])[0] == 'm' and strip(e[2])[1] in keys:
                rekey_fns.setdefault(g, []).append(strip(e[2])[1])
    if not rekey_fns:
        raise AnalysisBroken('no re-keying store of the rate-control interval ring found')
    calls = [(ev, n) for ev, n in K.calls() if n and any(h in rekey_fns for h in P.reachable_from([P.fn(n, required=False)] if P.fn(n, required=False) is not None else []))]
    if not calls:
        raise AnalysisBroken('rate_control_kernel calls no function that re-keys the ring')
    CFG = 'EbSvtAv1EncConfiguration.'
    n = 0
    bad = []
    # look-ahead processing: only the values the configuration code can give it (objects start zero-filled)
    lap_vals = {0}
    for g in P.fns:
        if g.lib != 'Encoder' or g.nocfg:
            continue
        for ev in g.events(('st',)):
            e = ev['e']
            if e[0] == 'a' and strip(e[2]) is not None and strip(e[2])[0] == 'm' and strip(e[2])[1] == 'SequenceControlSet.lap_enabled':
                r = strip(e[3])
                if e[1] == '=' and r is not None and r[0] == 'l':
                    lap_vals.add(r[1])
                elif e[1] == '=' and r is not None and r[0] == 'm' and r[1] == 'SequenceControlSet.lap_enabled':
                    pass
                else:
                    lap_vals |= {0, 1}
    for mode in (1, 2):
        for twopass in (0, 1):
            for lap in sorted(lap_vals):
                env = {CFG + 'rate_control_mode': mode, 'SequenceControlSet.intra_period_length': 31, CFG + 'intra_period_length': 31,
                       'SequenceControlSet.lap_enabled': lap, 'call:use_input_stat': twopass, 'call:use_output_stat': 0}
                ins, tr = sccp(K, env)
                look = [b for b in lookups if b in ins]
                if not look:
                    continue
                n += 1
                rk = [nm for ev, nm in calls if ev['b'] in ins]
                desc = 'rate_control_mode %d, finite period, %s, look-ahead processing %s' % (mode, 'two-pass statistics' if twopass else 'one pass', 'on' if lap else 'off')
                if not rk:
                    bad.append(desc)
                rep.ob('C22.REKEY', 'rate_control_kernel/mode%d-twopass%d-lap%d' % (mode, twopass, lap), bool(rk), K.loc(),
                       ('%s: the interval ring is searched by picture number and %s can re-key it' % (desc, rk[0])) if rk else
                       ('%s: rate_control_kernel searches the %d-entry interval ring by picture number, but no call that re-keys the ring (%s) is reachable in this configuration: after one lap of the ring no interval matches, the kernel reports "No RC interval found" and the stream stops' %
                        (desc, 256, ', '.join(sorted(g.name for g in rekey_fns)))))
    # span of an interval: wherever the upper key is rebuilt from the lower one (`last = first + X`) next to a re-keying store, X equals
    # the span the ring was initialised with (evaluated for two sample periods; undecidable forms are left alone)
    from rules.C20 import _ev as _pev
    lo = [k for k in keys if 'first' in k]
    hi = [k for k in keys if 'last' in k]
    spans_init = {}
    if lo and hi:
        for g in P.fns:
            if g.lib != 'Encoder' or g.nocfg or g in rekey_fns:
                continue
            st_lo = [ev for ev in g.events(('st',)) if ev['e'][0] == 'a' and ev['e'][1] == '=' and strip(ev['e'][2])[0] == 'm' and strip(ev['e'][2])[1] == lo[0]]
            st_hi = [ev for ev in g.events(('st',)) if ev['e'][0] == 'a' and ev['e'][1] == '=' and strip(ev['e'][2])[0] == 'm' and strip(ev['e'][2])[1] == hi[0]]
            if st_lo and st_hi and any(k == 'for' for k, c, l in g.ctl_chain(st_lo[0])):
                for per in (3, 31):
                    loc = {'interval_index': 2, 'intra_period': per}
                    env2 = {'SequenceControlSet.intra_period_length': per}
                    a = _pev(st_lo[0]['e'][3], env2, loc)
                    b = _pev(st_hi[0]['e'][3], env2, loc)
                    if a is not None and b is not None:
                        spans_init[per] = b - a
        for g in rekey_fns:
            for ev in g.events(('st',)):
                e = ev['e']
                if e[0] != 'a' or e[1] != '=' or strip(e[2])[0] != 'm' or strip(e[2])[1] != hi[0]:
                    continue
                r = strip(e[3])
                if r is None or r[0] != 'b' or r[1] != '+' or strip(r[2]) is None or strip(r[2])[0] != 'm' or strip(r[2])[1] != lo[0]:
                    continue
                # only next to a re-keying store (same control context)
                if not any(sv['e'][0] == 'a' and sv['e'][1] == '+=' and strip(sv['e'][2])[0] == 'm' and strip(sv['e'][2])[1] == lo[0] and g.ctl_chain(sv) == g.ctl_chain(ev) for sv in g.events(('st',))):
                    continue
                probs = []
                for per, L in sorted(spans_init.items()):
                    env2 = {'SequenceControlSet.intra_period_length': per}
                    ins2, tr2 = sccp(g, env2)
                    stt = dict(g.state_at(ins2, tr2, ev) or ())
                    x = _pev(r[3], env2, stt)
                    if x is not None and x != L:
                        probs.append('period %d: rebuilt span %d, initial span %d' % (per, x, L))
                rep.ob('C22.REKEY', '%s/span@%d' % (g.name, ev['l']), not probs, g.loc(ev),
                       'the rebuilt interval keeps the span the ring was initialised with' if not probs else
                       ('%s rebuilds %s from %s with another span than the ring was initialised with (%s): the moved interval overlaps its neighbour, a picture is attributed to two GOP intervals and the bookkeeping that moves intervals ahead stops working' %
                        (g.name, hi[0].split('.')[1], lo[0].split('.')[1], '; '.join(probs))))
    rep.analysed['rekey_configurations'] = n
    rep.floor('C22.REKEY', 4)
