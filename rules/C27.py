"""C27 - output and progress do not depend on how the application paces its calls: one structural clause.

Delays between API calls can reach the coded output in exactly two ways: through how full the pools and queues are when a kernel
looks at them (a property of call histories: not decided here), and through the wall clock.  This module decides the second:

  C27.CLOCK  every read of a clock in pipeline / API code of the encoder (svt_av1_get_time, gettimeofday, clock_gettime, clock,
             time) is enumerated, and every value derived from one (the lvalues the call fills in, members they are copied to,
             locals computed from them, the result of svt_av1_compute_overall_elapsed_time_ms on them) is used only
               (a) inside the speed-control path - code whose every entry is control-dependent on static_config.speed_control_flag
                   (the documented opt-in mode whose purpose is to adapt the preset to the wall clock), or
               (b) as time bookkeeping: copied into another time member, passed to the elapsed-time helper or to logging, or
                   stored into the packet's latency statistic (EbBufferHeaderType.n_tick_count).
             A clock-derived value in any other condition, member or call argument would make coding decisions depend on
             pacing and is reported.
  C27.RECONEOS the order in which reconstructed pictures are delivered (and so which one an application sees last) is fixed under
             the counter lock, not by which worker obtains a free recon buffer first - free buffers appear when the application
             retrieves, i.e. at its pace (shared with C03.EOS link 5)
"""
from engine.facts import is_lit, pstr, strip, callee_name, subexprs, fields_in, last_field, root_of, AnalysisBroken
from engine.classes import Classes
from rules.C20 import value_reads
from rules.C03 import recon_eos_atomic

PID = 'C27'

META = {
    'technique': 'enumeration of clock reads + field/local taint of clock-derived values with classification of every use site (speed-control gate by control dependence and call-site intersection; bookkeeping idioms), over the encoder\'s run-time and API code',
    'text': 'Decides one necessary condition of pacing independence: the wall clock cannot influence what is coded. Every clock read in encoder run-time code is enumerated and every value derived from it is shown to end in latency statistics or logging, or to be consumed only inside the speed-control path that runs when the user sets speed_control_flag. Also decided: the delivery order of reconstructed pictures is fixed under the counter lock rather than by the availability of recon buffers (which follows the pace of the application). It does not decide the other channel through which pacing could matter - pool and queue occupancy as seen by the kernels (a property of call histories, model-checking territory) - nor progress / completion; the non-blocking nature of the polling API is decided under C14 rule 4/5.',
    'note': 'speed-control mode (speed_control_flag = 1) consults the clock by design; it is an exemption with that reason, not a finding: two 60-frame runs with and without CPU starvation gave identical output, so no failing history could be produced',
    'ref': 'DESIGN.md section 9.8',
}

CLOCKS = ('svt_av1_get_time', 'gettimeofday', 'clock_gettime', 'clock', 'time')
ELAPSED = ('svt_av1_compute_overall_elapsed_time_ms', 'svt_av1_compute_overall_elapsed_time')
LOGGING = ('printf', 'fprintf', 'SVT_LOG', 'svt_log', 'svt_log_c')
STAT_FIELDS = ('EbBufferHeaderType.n_tick_count',)
GATE = 'EbSvtAv1EncConfiguration.speed_control_flag'


def run(P, rep, tier):
    C = Classes(P)
    live = [f for f in P.fns if f.lib in ('Encoder',) and not f.nocfg and f not in C.dead and (f in C.runtime)]
    csites = {}
    for f in P.fns:
        if f.nocfg:
            continue
        for ev, nm in f.calls():
            if nm:
                csites.setdefault(nm, []).append((f, ev))

    gmemo = {}

    def gated(f, ev=None, depth=0):
        """the event (or every call of f) is control-dependent on speed_control_flag"""
        if ev is not None:
            for kind, cond, line in f.ctl_chain(ev):
                if cond is not None and not isinstance(cond[0], list) and GATE in fields_in(cond) and kind in ('if',):
                    return True
        if f.key in gmemo:
            return gmemo[f.key]
        gmemo[f.key] = False
        sites = [(g, cev) for g, cev in csites.get(f.name, []) if f in P.resolve(f.name, g)]
        r = bool(sites) and depth < 3 and all(gated(g, cev, depth + 1) for g, cev in sites)
        gmemo[f.key] = r
        return r

    # sources
    T = set()           # clock-derived members
    srcs = []
    for f in live:
        for ev, n in f.calls(CLOCKS):
            srcs.append((f, ev, n))
            for a in ev['e'][2]:
                a = strip(a)
                if a and a[0] == 'u' and a[1] == '&':
                    lf = last_field(strip(a[2]))
                    if lf:
                        T.add(lf)
    if len(srcs) < 3:
        raise AnalysisBroken('only %d clock reads found in encoder run-time code' % len(srcs))
    # closure over pure member copies
    ch = True
    while ch:
        ch = False
        for f in live:
            for ev in f.events(('st',)):
                e = ev['e']
                if e[0] == 'a' and e[1] == '=' and strip(e[3])[0] == 'm' and strip(e[3])[1] in T:
                    lf = last_field(strip(e[2]))
                    if lf and lf not in T and strip(e[2])[0] == 'm':
                        T.add(lf); ch = True
    rep.explanation = '%d clock reads in encoder run-time code; clock-derived members: %s' % (len(srcs), sorted(T))
    rep.analysed = {'clock_reads': ['%s in %s' % (n, f.name) for f, ev, n in srcs], 'clock_members': sorted(T)}
    rep.assumptions = ['the clock is read only through the enumerated primitives', 'pool / queue occupancy effects of pacing are not decided']

    for f, ev, n in srcs:
        g = gated(f, ev)
        rep.ob('C27.CLOCK', 'read:%s@%s' % (n, f.name), True, f.loc(ev), 'clock read %s' % ('inside the speed-control path' if g else 'for time bookkeeping (uses classified below)'), nontrivial=True)
        if g:
            rep.exempt('C27.CLOCK', f.name, 'speed-control path: every entry is control-dependent on static_config.speed_control_flag (documented opt-in mode that adapts the preset to the wall clock)')

    nuse = 0
    for f in live:
        if gated(f):
            continue
        # locals that receive clock-derived values
        loc = set()
        for ev, n in f.calls(CLOCKS):
            if gated(f, ev):
                continue
            for a in ev['e'][2]:
                a = strip(a)
                if a and a[0] == 'u' and a[1] == '&' and strip(a[2])[0] == 'v':
                    loc.add(strip(a[2])[1])

        def tainted(e):
            return any((x[0] == 'm' and x[1] in T) or (x[0] == 'v' and x[1] in loc) for x in value_reads(e)) or \
                any(x[0] == 'c' and callee_name(x) in CLOCKS for x in subexprs(e))
        ch = True
        while ch:
            ch = False
            for ev in f.events(('decl', 'st')):
                e = ev.get('e')
                if e is None:
                    continue
                name, rhs = (ev['n'], e) if ev['k'] == 'decl' else ((strip(e[2])[1], e[3]) if e[0] == 'a' and strip(e[2])[0] == 'v' and strip(e[2])[2] == 'l' else (None, None))
                if name and name not in loc and tainted(rhs) and not gated(f, ev):
                    loc.add(name); ch = True
        if not loc and not any(True for ev in f.events() if ev.get('e') is not None and tainted(ev['e'])):
            continue
        for bid in f.reach():
            b = f.blocks[bid]
            c = b.get('fullcond')
            if c is None or b.get('tk') not in ('IfStmt', 'SwitchStmt', 'ConditionalOperator', 'WhileStmt', 'ForStmt', 'DoStmt') or not tainted(c):
                continue
            evs = b['ev']
            if evs and gated(f, evs[-1]):
                continue
            nuse += 1
            rep.ob('C27.CLOCK', '%s/cond@%s' % (f.name, pstr(strip(c))[:50]), False, '%s:%d' % (f.loc().rsplit(':', 1)[0], b.get('tl', f.line)),
                   'a clock-derived value decides a branch outside the speed-control path: %s' % pstr(strip(c))[:80])
        for ev in f.events(('st', 'call', 'ret')):
            e = ev.get('e')
            if e is None or gated(f, ev):
                continue
            if ev['k'] == 'st' and e[0] in ('a',):
                t = strip(e[2])
                if t[0] == 'v' and t[2] == 'l':
                    continue
                if tainted(e[3]):
                    nuse += 1
                    lf = last_field(t)
                    ok = lf in T or lf in STAT_FIELDS
                    rep.ob('C27.CLOCK', '%s/store:%s' % (f.name, lf), ok, f.loc(ev),
                           'clock-derived value stored into %s (%s)' % (lf, 'time bookkeeping / latency statistic' if ok else 'NOT a time or statistics member: pacing can reach the encoder state'))
            elif ev['k'] == 'call':
                n = callee_name(e) or ''
                if n in CLOCKS:
                    continue
                targs = [a for a in e[2] if tainted(a)]
                if not targs:
                    continue
                nuse += 1
                ok = n in ELAPSED or n in LOGGING
                rep.ob('C27.CLOCK', '%s/arg:%s' % (f.name, n), ok, f.loc(ev),
                       'clock-derived value passed to %s (%s)' % (n, 'elapsed-time helper / logging' if ok else 'NOT the elapsed-time helper or logging'))
            elif ev['k'] == 'ret' and tainted(e):
                nuse += 1
                rep.ob('C27.CLOCK', '%s/return' % f.name, f.name in ELAPSED, f.loc(ev), 'clock-derived value returned by %s' % f.name)
    rep.floor('C27.CLOCK', 6)
    # delivery order of reconstructed pictures must not depend on when the application frees recon buffers
    recon_eos_atomic(P, rep, 'C27.RECONEOS', 'recon_output')
    rep.floor('C27.RECONEOS', 1)

    run_perpic(P, rep, C)


# ---------------- PERPIC: which pool object a picture receives depends on when earlier pictures were released, i.e. on how fast the
# application submits and retrieves.  The output is independent of that only if an object taken from an empty-object FIFO carries nothing
# from its previous use into the decisions of the new picture.  Decided here for the constant-valued members (flags, modes) a kernel
# stores into the object it has just acquired: if a member is assigned constants in that function, it must be assigned on *every* path
# from the acquisition to the point where the object is handed on (must-assign dataflow, meet = intersection); a member that is only
# ever set under conditions keeps the value of the previous picture on the other paths.
def _is_const(x):
    x = strip(x)
    while x is not None and x[0] == 'k':
        x = strip(x[-1])
    return x is not None and x[0] == 'l'


def run_perpic(P, rep, C):
    ninst = 0
    for f in P.fns:
        if f.lib != 'Encoder' or f.nocfg or f not in C.runtime:
            continue
        wr = set()
        for ev, n in f.calls('svt_get_empty_object'):
            a = strip(ev['e'][2][1]) if len(ev['e'][2]) > 1 else None
            if a is not None and a[0] == 'u' and a[1] == '&':
                t = strip(a[2])
                if t is not None and t[0] == 'v':
                    wr.add(t[1])
        if not wr:
            continue
        objs = {}
        for d in f.events(('decl', 'st')):
            e = d.get('e')
            if e is None:
                continue
            if d['k'] == 'decl':
                n, rhs = d['n'], strip(e)
            elif e[0] == 'a' and e[1] == '=' and strip(e[2])[0] == 'v':
                n, rhs = strip(e[2])[1], strip(e[3])
            else:
                continue
            while rhs is not None and rhs[0] == 'k':
                rhs = strip(rhs[-1])
            if rhs is not None and rhs[0] == 'm' and rhs[1].endswith('.object_ptr'):
                r = root_of(rhs)
                if r is not None and r[1] in wr:
                    objs[n] = r[1]
        if not objs:
            continue
        stores = {}
        carried = {}                         # wrapper -> wrappers of the objects it is stored into
        for ev in f.events(('st',)):
            e = ev['e']
            if e[0] != 'a' or e[1] != '=':
                continue
            t = strip(e[2])
            if t is None or t[0] != 'm' or len(t) < 4:
                continue
            base = strip(t[3])
            if base is None or base[0] != 'v' or base[1] not in objs:
                continue
            stores.setdefault((base[1], t[1]), []).append(ev)
            rv = strip(e[3])
            while rv is not None and rv[0] == 'k':
                rv = strip(rv[-1])
            if rv is not None and rv[0] == 'v' and rv[1] in wr:
                carried.setdefault(rv[1], set()).add(objs[base[1]])
        keys = frozenset(stores)

        def transfer(ev, st):
            e = ev.get('e')
            if ev['k'] == 'st' and e is not None and e[0] == 'a' and e[1] == '=':
                t = strip(e[2])
                if t is not None and t[0] == 'm' and len(t) > 3:
                    base = strip(t[3])
                    if base is not None and base[0] == 'v' and (base[1], t[1]) in keys:
                        return st | {(base[1], t[1])}
            if ev['k'] in ('decl', 'st') and e is not None:
                n = ev['n'] if ev['k'] == 'decl' else (strip(e[2])[1] if e[0] == 'a' and strip(e[2])[0] == 'v' else None)
                if n in objs:
                    return frozenset(k for k in st if k[0] != n)      # (re)acquisition: nothing assigned yet
            return st
        ins, outs = f.forward(keys, transfer, meet=lambda a, b: a & b, top=keys)
        posts = [ev for ev, n in f.calls('svt_post_full_object')]

        def handovers(w):
            # the object leaves this function's hands where its wrapper is posted, where the object that carries the wrapper is
            # posted, or where the wrapper is copied into another variable / member (handed over in a later iteration)
            ws = {w} | carried.get(w, set())
            out = [p for p in posts if any(strip(a) is not None and strip(a)[0] == 'v' and strip(a)[1] in ws for a in p['e'][2])]
            for sv in f.events(('st',)):
                e2 = sv['e']
                if e2[0] == 'a' and e2[1] == '=':
                    rv = strip(e2[3])
                    while rv is not None and rv[0] == 'k':
                        rv = strip(rv[-1])
                    if rv is not None and rv[0] == 'v' and rv[1] == w:
                        tg = strip(e2[2])
                        tb = strip(tg[3]) if tg is not None and tg[0] == 'm' and len(tg) > 3 else None
                        if tg is None or tg[0] != 'v':
                            continue                 # kept in a member (back-pointer, "previous picture" link): not a hand-over
                        # a local that is posted, or stored into an object that is posted, in a later iteration
                        x = tg[1]
                        posted = any(strip(a) is not None and strip(a)[0] == 'v' and strip(a)[1] == x for p in posts for a in p['e'][2])
                        stored = any(s2['e'][0] == 'a' and s2['e'][1] == '=' and strip(s2['e'][3]) is not None and strip(s2['e'][3])[0] == 'v' and strip(s2['e'][3])[1] == x and
                                     strip(s2['e'][2])[0] == 'm' for s2 in f.events(('st',)))
                        if posted or stored:
                            out.append(sv)
            return out
        for (o, fld), evs in sorted(stores.items()):
            if not all(_is_const(ev['e'][3]) for ev in evs):
                continue
            hp = handovers(objs[o])
            if not hp:
                continue
            ninst += 1
            bad = [p for p in hp if (o, fld) not in (f.state_at(ins, transfer, p) or keys)]
            rep.ob('C27.PERPIC', '%s/%s' % (f.name, fld), not bad, f.loc(evs[0]),
                   ('%s is assigned on every path between the acquisition of the pool object and its hand-over' % fld.split('.')[1]) if not bad else
                   ('%s takes %s from an empty-object FIFO and only sets %s (to %s) under conditions: on the other paths to the hand-over at line %d the member keeps the value of the picture that used the object before, and which object a picture gets depends on how the application paces its calls' %
                    (f.name, o, fld.split('.')[1], ', '.join(sorted({pstr(ev['e'][3]) for ev in evs})), bad[0].get('l', 0))))
    rep.analysed['perpic_members'] = ninst
    rep.floor('C27.PERPIC', 20)
