"""C26 - reported per-frame SSE statistics: structural clauses of the statistics path.

The property is an equality of numbers (reported SSE = SSD between the submitted picture and the picture decoded from the
packet); the arithmetic and the recon = decode premise (C01) are not decided here.  What *is* in the shape of the code:

  C26.PLANE   plane consistency of psnr_calculations (and of the routine that saves the unfiltered source for it): a forward
              dataflow tags every local with the colour plane (Y / Cb / Cr) of the plane-bearing members it was computed from
              (buffer_*, stride_*, buffer_bit_inc_*, save_enhanced_picture_ptr[k], *_sse); no statement may combine two
              planes, an accumulator is reset before it is reused for another plane, and the three results land in the
              member of the same plane (luma_sse / cb_sse / cr_sse)
  C26.AXIS    the area summed is the visible picture: wherever a picture dimension is reduced by padding or scaled by chroma
              subsampling, all three belong to the same axis (width - max_input_pad_right >> ss_x ; height - max_input_pad_bottom
              >> ss_y), through locals
  C26.BUFSEL  the reconstructed picture compared is the one the decoder will show: the reference object's picture when the
              frame is kept as a reference, the picture control set's own recon buffer otherwise, in the bit-depth variant of
              the branch; the same selection idiom is cross-checked at every sibling site of the encoder (polarity and variant)
  C26.SOURCE  the source compared is the submitted picture: the saved unfiltered planes when temporal filtering replaced the
              picture in place, the (unscaled) input picture otherwise
  C26.NEED    the statistics are one of the consumers of the frame's final reconstruction, next to the reference list and the recon
              output: wherever the application of an in-loop filter to the recon is made conditional on the recon being needed
              (a guard that names recon_enabled or is_used_as_reference_flag around a frame-level filter call), the guard also
              names stat_report - otherwise the statistic of a non-reference frame is taken on a picture the decoder filters further
  C26.FLOW    packetization copies each statistic from the member of the same plane, under stat_report, and
              psnr_calculations runs under stat_report after the last in-loop filter of the frame (no recon-modifying filter call is
              reachable after it in the same kernel iteration)
"""
from engine.facts import pstr, strip, callee_name, subexprs, last_field, AnalysisBroken
from engine.classes import Classes

PID = 'C26'

META = {
    'technique': 'forward dataflow of colour-plane tags over the event-CFG (copy-paste / plane-consistency analysis), sibling cross-check of the recon-buffer selection idiom over the whole encoder, control-dependence and CFG reachability for the placement of the statistics call; reader/writer agreement of the predicate selecting the bit-depth variant of the reconstruction; lifetime classification (per picture versus per pool object) of the buffer a source-selection predicate tests',
    'text': 'Decides structural necessary conditions of exact per-frame SSE reporting: inside psnr_calculations no statement mixes colour planes (source buffer, recon buffer, strides, accumulator and result member all of one plane; accumulators reset between planes), the summed area uses width with the right padding and horizontal subsampling and height with the bottom padding and vertical subsampling, the recon buffer is selected by is_used_as_reference_flag exactly as at every sibling site and in the bit depth of the branch, the source is the saved unfiltered picture when temporal filtering is on, the three values reach the packet members of the same plane under stat_report, the computation is placed after the last in-loop filter, and every guard that skips a frame-level filter when the recon is not needed counts the statistics as a consumer. It does not decide the arithmetic itself (squares, 32-bit truncation, loop extents versus padding) nor that the encoder recon equals what a decoder reconstructs (C01). Also decided: every configuration member the in-loop filter kernels consult when choosing the reconstruction variant they write is consulted by the statistics routines (C26.VARIANT), and a source selection that tests the presence of the saved copy is accepted only when that copy cannot outlive the picture.',
    'note': 'ssim_calculations shares the structure and is analysed as a sibling (its values are not part of the property statement)',
    'ref': 'DESIGN.md section 9.9',
}

PLANES = ('Y', 'CB', 'CR')
IDX_ARRAYS = ('PictureParentControlSet.save_enhanced_picture_ptr', 'PictureParentControlSet.save_enhanced_picture_bit_inc_ptr')
STAT_FIELDS = {'luma_sse': 'Y', 'cb_sse': 'CB', 'cr_sse': 'CR', 'luma_ssim': 'Y', 'cb_ssim': 'CB', 'cr_ssim': 'CR'}
APPLY = ('svt_av1_cdef_frame', 'av1_cdef_frame16bit', 'svt_av1_loop_restoration_filter_frame', 'svt_av1_loop_filter_frame', 'svt_av1_superres_upscale_frame')
FILTERS = ('svt_av1_loop_restoration_filter_frame', 'svt_av1_cdef_frame', 'svt_av1_loop_filter_frame', 'svt_av1_superres_upscale_frame')


def plane_vocabulary(P):
    """plane-bearing members, enumerated from the picture-buffer descriptor: <stem>_y / _cb / _cr triples (coordinates such as
    origin_y have no _cb sibling and are not planes)"""
    voc = {}
    for rn in ('EbPictureBufferDesc',):
        r = P.record(rn)
        names = {fd['n'] for fd in r['fields']}
        for n in names:
            if n.endswith('_y'):
                stem = n[:-2]
                if stem + '_cb' in names and stem + '_cr' in names:
                    voc[rn + '.' + n] = 'Y'
                    voc[rn + '.' + stem + '_cb'] = 'CB'
                    voc[rn + '.' + stem + '_cr'] = 'CR'
    for rn in ('PictureParentControlSet', 'EbBufferHeaderType'):
        r = P.record(rn)
        for fd in r['fields']:
            if fd['n'] in STAT_FIELDS:
                voc[rn + '.' + fd['n']] = STAT_FIELDS[fd['n']]
    if len(voc) < 12:
        raise AnalysisBroken('plane vocabulary too small: %s' % sorted(voc))
    return voc


class PlaneFlow:
    def __init__(self, f, voc):
        self.f = f
        self.voc = voc

    def cell(self, t):
        """state key of an lvalue: local variable or local array element with literal index"""
        t = strip(t)
        if t and t[0] == 'v' and t[2] not in ('g', 's'):
            return t[1]
        if t and t[0] == 'i' and strip(t[1])[0] == 'v' and strip(t[2])[0] == 'l':
            return '%s[%d]' % (strip(t[1])[1], strip(t[2])[1])
        return None

    def tags(self, e, st):
        d = dict(st)
        out = set()
        stack = [e]
        while stack:
            x = stack.pop()
            x = strip(x)
            if not isinstance(x, list) or not x or not isinstance(x[0], str):
                continue
            k = x[0]
            if k == 'a':
                # nested assignment inside an expression: its value is its right-hand side
                stack.append(x[3])
                continue
            if k == 'i':
                c = self.cell(x)
                if c is not None and c in d:
                    out.add(d[c])
                    continue
                b = strip(x[1])
                if b and b[0] == 'm' and b[1] in IDX_ARRAYS and strip(x[2])[0] == 'l' and strip(x[2])[1] in (0, 1, 2):
                    out.add(PLANES[strip(x[2])[1]])
                    continue
                stack.append(x[1]); stack.append(x[2])
                continue
            if k == 'v':
                if x[1] in d:
                    out.add(d[x[1]])
                continue
            if k == 'm':
                if x[1] in self.voc:
                    out.add(self.voc[x[1]])
                stack.append(x[3])
                continue
            if k == 'u':
                stack.append(x[2])
            elif k == 'b':
                stack.append(x[2]); stack.append(x[3])
            elif k == 'q':
                stack.append(x[1]); stack.append(x[2]); stack.append(x[3])
            elif k == 'c':
                stack.extend(x[2])
            elif k == 'il':
                stack.extend(x[1])
        out.discard(None)
        return out

    def assigns(self, ev):
        """[(lhs, op, rhs)] of an event, inner assignments first"""
        e = ev.get('e')
        out = []
        if ev['k'] == 'decl':
            if e is not None:
                out.append((['v', ev['n'], 'l'], '=', e))
            else:
                out.append((['v', ev['n'], 'l'], 'undef', None))
        elif ev['k'] == 'st' and e is not None and e[0] == 'a':
            inner = strip(e[3])
            chain = [(e[2], e[1], e[3])]
            while inner and inner[0] == 'a':
                chain.append((inner[2], inner[1], inner[3]))
                inner = strip(inner[3])
            out.extend(reversed(chain))
        return out

    def transfer(self, ev, st):
        d = None
        for lhs, op, rhs in self.assigns(ev):
            c = self.cell(lhs)
            if c is None:
                continue
            if d is None:
                d = dict(st)
            cur = frozenset(d.items())
            if op == 'undef':
                d.pop(c, None)
                if ev['k'] == 'decl':
                    for k2 in [k2 for k2 in d if k2.startswith(c + '[')]:
                        d.pop(k2)
                continue
            t = self.tags(rhs, cur)
            if op != '=' and c in d:
                t = t | {d[c]}
            if not t:
                d.pop(c, None)
            elif len(t) == 1:
                d[c] = next(iter(t))
            else:
                d[c] = 'MIX'
        return st if d is None else frozenset(d.items())

    @staticmethod
    def meet(a, b):
        da, db = dict(a), dict(b)
        out = {}
        for k in set(da) | set(db):
            if k in da and k in db:
                out[k] = da[k] if da[k] == db[k] else 'MIX'
            else:
                out[k] = da.get(k, db.get(k))
        return frozenset(out.items())

    def run(self):
        ins, outs = self.f.forward(frozenset(), self.transfer, meet=self.meet)
        problems, nst, planes_seen = [], 0, set()
        for bid in sorted(self.f.reach()):
            st = ins.get(bid)
            if st is None:
                continue
            for ev in self.f.blocks[bid]['ev']:
                for lhs, op, rhs in self.assigns(ev):
                    if rhs is None:
                        continue
                    t = self.tags(rhs, st)
                    l = strip(lhs)
                    lt = set()
                    if l[0] == 'm' and l[1] in self.voc:
                        lt.add(self.voc[l[1]])
                    elif l[0] == 'i' and strip(l[1])[0] == 'm' and strip(l[1])[1] in IDX_ARRAYS and strip(l[2])[0] == 'l' and strip(l[2])[1] in (0, 1, 2):
                        lt.add(PLANES[strip(l[2])[1]])
                    c = self.cell(lhs)
                    if op != '=' and c is not None and c in dict(st):
                        t = t | {dict(st)[c]}
                    allt = t | lt
                    if allt:
                        nst += 1
                        planes_seen |= allt
                    if len(allt) > 1 or 'MIX' in allt:
                        problems.append((ev, '%s %s %s combines planes %s' % (pstr(l)[:40], op, pstr(strip(rhs))[:60], sorted(allt))))
                if ev['k'] == 'call' and ev.get('e') is not None and callee_name(ev['e']) in ('memcpy', 'svt_memcpy', 'svt_memcpy_c', 'pack2d_src', 'un_pack2d', 'svt_aom_copy'):
                    pass
                st = self.transfer(ev, st)
        return problems, nst, planes_seen


def cond_members(f, cond, depth=0):
    """members a condition depends on, looking through locals that have a single definition (`const EbBool on = cfg.flag; if (on)`)"""
    out = set()
    for x in subexprs(cond):
        if x[0] == 'm':
            out.add(x[1])
        elif x[0] == 'v' and x[2] == 'l' and depth < 3:
            defs = [d for d in f.events(('decl', 'st')) if (d['k'] == 'decl' and d['n'] == x[1] and d.get('e') is not None) or
                    (d['k'] == 'st' and d['e'][0] == 'a' and d['e'][1] == '=' and strip(d['e'][2]) == x)]
            if len(defs) == 1:
                rhs = defs[0]['e'] if defs[0]['k'] == 'decl' else defs[0]['e'][3]
                out |= cond_members(f, rhs, depth + 1)
    return out


def call_plane_args(P, f, voc, names):
    """copy / save calls: all plane-bearing arguments of one call belong to one plane"""
    pf = PlaneFlow(f, voc)
    ins, outs = f.forward(frozenset(), pf.transfer, meet=pf.meet)
    out = []
    for ev, n in f.calls():
        e = ev['e']
        st = f.state_at(ins, pf.transfer, ev)
        if st is None:
            continue
        per = [pf.tags(a, st) for a in e[2]]
        allt = set().union(*per) if per else set()
        if allt:
            out.append((ev, n or pstr(e[1])[:20], allt))
    return out


def run(P, rep, tier):
    C = Classes(P)
    voc = plane_vocabulary(P)
    psnr = P.fn('psnr_calculations')
    rep.explanation = ('statistics path: psnr_calculations (%s), its call site, the routine saving the unfiltered source, and the packet copy in packetization_kernel; '
                       'plane vocabulary of %d members enumerated from EbPictureBufferDesc and the statistic members' % (psnr.loc(), len(voc)))
    rep.analysed = {'plane_members': sorted(voc)}
    rep.assumptions = ['encoder recon equals the decoded picture (C01, not decided)', 'arithmetic of the sums is not decided']

    # ---------------- PLANE
    targets = [psnr]
    for f in targets:
        pf = PlaneFlow(f, voc)
        problems, nst, seen = pf.run()
        if nst < 20 or not set(PLANES) <= seen:
            raise AnalysisBroken('%s: only %d plane-bearing statements / planes %s' % (f.name, nst, sorted(seen)))
        rep.analysed['plane_statements:' + f.name] = nst
        if problems:
            for ev, txt in problems[:6]:
                rep.ob('C26.PLANE', '%s/mix@%s' % (f.name, txt[:50]), False, f.loc(ev), txt + ': the statistic of one plane would contain samples, strides or sums of another')
        else:
            rep.ob('C26.PLANE', '%s/planes' % f.name, True, f.loc(), '%d plane-bearing statements, none combines two planes; accumulators are reset between planes' % nst)
        # result members: each statistic member is stored exactly from a value of its plane (checked above) and all three are stored
        stored = set()
        for ev in f.events(('st',)):
            e = ev['e']
            if e[0] == 'a' and strip(e[2])[0] == 'm' and strip(e[2])[1].split('.')[1] in ('luma_sse', 'cb_sse', 'cr_sse'):
                stored.add((strip(e[2])[1].split('.')[1], ev['b']))
        for m in ('luma_sse', 'cb_sse', 'cr_sse'):
            n = len([1 for mm, b in stored if mm == m])
            rep.ob('C26.PLANE', '%s/result:%s' % (f.name, m), n >= 2, f.loc(), '%s is stored in %d branches (8-bit and 16-bit pipelines)' % (m, n))
    # the saver of the unfiltered source
    savers = [g for g in P.fns if g.lib == 'Encoder' and not g.nocfg and g not in C.dead and
              any(ev['k'] == 'call' and any(last_field(strip(a)) in IDX_ARRAYS or any(x[0] == 'm' and x[1] in IDX_ARRAYS for x in subexprs(a)) for a in ev['e'][2]) for ev in g.events(('call',))) and g is not psnr]
    nsave = 0
    for g in savers:
        for ev, n, allt in call_plane_args(P, g, voc, None):
            e = ev['e']
            if not any(any(x[0] == 'm' and x[1] in IDX_ARRAYS for x in subexprs(a)) for a in e[2]):
                continue
            nsave += 1
            ok = len(allt) == 1
            rep.ob('C26.PLANE', '%s/save@%s#%d' % (g.name, n, nsave), ok, g.loc(ev),
                   ('%s copies plane %s into the saved-source slot of the same plane' % (n, sorted(allt)[0])) if ok else
                   '%s is handed members of planes %s: the saved source of one plane would hold another plane' % (n, sorted(allt)))
    rep.floor('C26.PLANE', 5)

    # ---------------- AXIS
    AXIS_M = {'EbPictureBufferDesc.width': 'X', 'EbPictureBufferDesc.height': 'Y', 'SequenceControlSet.max_input_pad_right': 'X', 'SequenceControlSet.max_input_pad_bottom': 'Y',
              'SequenceControlSet.subsampling_x': 'X', 'SequenceControlSet.subsampling_y': 'Y', 'EbPictureBufferDesc.max_width': 'X', 'EbPictureBufferDesc.max_height': 'Y'}
    from engine.reach import ReachingDefs
    rd = ReachingDefs(psnr)
    amemo = {}

    def axis(e, ev, depth=0):
        """axes of a dimension expression: members by vocabulary, locals through their reaching definitions; only through - >> / and casts"""
        e = strip(e)
        if not e or depth > 6:
            return set()
        if e[0] == 'm':
            return {AXIS_M[e[1]]} if e[1] in AXIS_M else set()
        if e[0] == 'v' and e[2] not in ('g', 's'):
            out = set()
            for d in rd.at(ev, e[1]):
                if isinstance(d, tuple):
                    continue
                x = d.get('e')
                rhs = x if d['k'] == 'decl' else (x[3] if x is not None and d['k'] == 'st' and x[0] == 'a' and x[1] == '=' else None)
                if rhs is not None:
                    k = (d['b'], d['x'])
                    if k not in amemo:
                        amemo[k] = set()
                        amemo[k] = axis(rhs, d, depth + 1)
                    out |= amemo[k]
            return out
        if e[0] == 'b' and e[1] in ('-', '>>', '/', '+'):
            if e[1] == '+' and not (strip(e[3])[0] == 'l' or strip(e[2])[0] == 'l'):
                return set()
            return axis(e[2], ev, depth + 1) | axis(e[3], ev, depth + 1)
        return set()
    nax = 0
    seen_ax = set()
    for ev in psnr.events(('st', 'decl')):
        e = ev.get('e')
        if e is None:
            continue
        for x in subexprs(e):
            if x[0] == 'b' and x[1] in ('-', '>>', '/') and id(x) not in seen_ax:
                a = axis(x, ev)
                for y in subexprs(x):
                    seen_ax.add(id(y))
                if a:
                    nax += 1
                    if len(a) > 1:
                        rep.ob('C26.AXIS', 'psnr_calculations/axis@%s:%s' % (ev.get('l'), pstr(x)[:40]), False, psnr.loc(ev),
                               '%s combines a horizontal and a vertical quantity (width / right padding / ss_x with height / bottom padding / ss_y): the summed area is not the visible picture' % pstr(x)[:90])
    for bid in psnr.reach():
        c = psnr.blocks[bid].get('fullcond')
        evs = psnr.blocks[bid]['ev']
        if c is None or not evs:
            continue
        for x in subexprs(c):
            if x[0] == 'b' and x[1] in ('-', '>>', '/') and id(x) not in seen_ax:
                a = axis(x, evs[-1])
                for y in subexprs(x):
                    seen_ax.add(id(y))
                if a:
                    nax += 1
                    if len(a) > 1:
                        rep.ob('C26.AXIS', 'psnr_calculations/axis@%s:%s' % (psnr.blocks[bid].get('tl'), pstr(x)[:40]), False, '%s:%s' % (psnr.loc().rsplit(':', 1)[0], psnr.blocks[bid].get('tl')),
                               'loop bound %s combines a horizontal and a vertical quantity: the summed area is not the visible picture' % pstr(x)[:90])
    if nax < 10:
        raise AnalysisBroken('psnr_calculations: only %d dimension expressions found' % nax)
    if not any(o['rule'] == 'C26.AXIS' for o in rep.obs):
        rep.ob('C26.AXIS', 'psnr_calculations/axes', True, psnr.loc(), '%d dimension expressions (visible width / height, chroma scaling), each within one axis' % nax)
    rep.floor('C26.AXIS', 1)

    # ---------------- BUFSEL
    REF = {'EbReferenceObject.reference_picture': 8, 'EbReferenceObject.reference_picture16bit': 16}
    REC = {'PictureControlSet.recon_picture_ptr': 8, 'PictureControlSet.recon_picture16bit_ptr': 16}
    FLAG = 'PictureParentControlSet.is_used_as_reference_flag'
    nsel, nbad = 0, 0
    for g in P.fns:
        if g.lib != 'Encoder' or g.nocfg or g in C.dead:
            continue
        pairs = {}
        for ev in g.events(('st', 'decl')):
            e = ev.get('e')
            if e is None:
                continue
            if ev['k'] == 'decl':
                name, rhs = ev['n'], e
            elif e[0] == 'a' and e[1] == '=' and strip(e[2])[0] == 'v':
                name, rhs = strip(e[2])[1], e[3]
            else:
                continue
            def leaves_q(x):
                x = strip(x)
                if x and x[0] == 'q':
                    return leaves_q(x[2]) + leaves_q(x[3])
                return [x]
            lv = [x for x in leaves_q(rhs) if x and x[0] == 'm' and (x[1] in REF or x[1] in REC)]
            if not lv or len(lv) != len(leaves_q(rhs)):
                continue
            r0 = strip(rhs)
            if r0[0] == 'q' and any(x[0] == 'm' and x[1] == FLAG for x in subexprs(r0[1])):
                # selection written as a conditional expression on the flag: its two arms are the two cases
                c = strip(r0[1])
                neg = (c[0] == 'u' and c[1] == '!') or (c[0] == 'b' and c[1] == '!=' and pstr(strip(c[3])) in ('1', 'EB_TRUE')) or \
                      (c[0] == 'b' and c[1] == '==' and pstr(strip(c[3])) in ('0', 'EB_FALSE'))
                for armv, sub in ((not neg, r0[2]), (neg, r0[3])):
                    for x in leaves_q(sub):
                        if x and x[0] == 'm' and (x[1] in REF or x[1] in REC):
                            pairs.setdefault((name, ev.get('l', 0)), []).append((armv, x[1], ev, len(leaves_q(sub)) > 1))
                continue
            chain = g.ctl_chain(ev)
            arm = None
            inner = []
            for kind, cond, line in chain:
                if kind in ('if', 'else') and cond is not None and any(x[0] == 'm' and x[1] == FLAG for x in subexprs(cond)):
                    c = strip(cond)
                    neg = (c[0] == 'u' and c[1] == '!') or (c[0] == 'b' and c[1] == '!=' and pstr(strip(c[3])) in ('1', 'EB_TRUE')) or \
                          (c[0] == 'b' and c[1] == '==' and pstr(strip(c[3])) in ('0', 'EB_FALSE'))
                    arm = (line, (kind == 'if') != neg)
                    break
                if kind in ('if', 'else'):
                    inner.append((kind, line))
            if arm is None:
                if g is psnr:
                    nsel += 1
                    rep.ob('C26.BUFSEL', '%s/%s@%s' % (g.name, name, ev.get('l')), False, g.loc(ev),
                           '%s is taken from %s without consulting is_used_as_reference_flag: for the other kind of frame the statistic is computed on a buffer the decoder never shows' % (name, lv[0][1].split('.')[1]))
                continue
            for x in lv:
                pairs.setdefault((name, arm[0]), []).append((arm[1], x[1], ev, bool(inner) or len(lv) > 1))
        for (name, line), lst in sorted(pairs.items()):
            nsel += 1
            probs = []
            bits = set()
            nested = any(x[3] for x in lst)
            for flag_true, fld, ev, _n in lst:
                if flag_true and fld not in REF:
                    probs.append('%s taken from %s although the frame is kept as a reference (the decoder shows the reference object\'s picture)' % (name, fld.split('.')[1]))
                if not flag_true and fld not in REC:
                    probs.append('%s taken from %s although the frame is not a reference (no reference object is written for it)' % (name, fld.split('.')[1]))
                bits.add(REF.get(fld) or REC.get(fld))
            if len(bits) > 1 and not nested:
                probs.append('%s mixes the 8-bit and the 16-bit buffers in one selection' % name)
            is_stat = g is psnr
            key = '%s/%s@%d' % (g.name, name, line)
            if probs:
                nbad += 1
            rep.ob('C26.BUFSEL', key, not probs, g.loc(lst[0][2]),
                   ('%s%s: reference object when is_used_as_reference_flag, own recon buffer otherwise (%s-bit)' % ('[statistics] ' if is_stat else '[sibling] ', name, '/'.join(str(b_) for b_ in sorted(bits)))) if not probs else '; '.join(probs))
    stat_sel = [o for o in rep.obs if o['rule'] == 'C26.BUFSEL' and o['key'].startswith('psnr_calculations/')]
    if len(stat_sel) < 2 and all(o['ok'] for o in stat_sel):
        raise AnalysisBroken('psnr_calculations: recon selection not found in both bit-depth branches (%d)' % len(stat_sel))
    # bit depth of each branch of the statistics routine
    for ev in psnr.events(('st', 'decl')):
        e = ev.get('e')
        rhs = e if ev['k'] == 'decl' else (e[3] if e is not None and e[0] == 'a' and e[1] == '=' else None)
        r = strip(rhs) if rhs is not None else None
        if r and r[0] == 'm' and (r[1] in REF or r[1] in REC):
            want = None
            for kind, cond, line in psnr.ctl_chain(ev):
                if kind in ('if', 'else') and cond is not None and 'is_16bit' in pstr(strip(cond)):
                    c = strip(cond)
                    neg = c[0] == 'u' and c[1] == '!'
                    want = 16 if ((kind == 'if') != neg) else 8
            have = REF.get(r[1]) or REC.get(r[1])
            rep.ob('C26.BUFSEL', 'psnr_calculations/depth:%s@%s' % (r[1].split('.')[1], ev.get('l')), want == have, psnr.loc(ev),
                   '%s used in the %s-bit branch' % (r[1].split('.')[1], want))
    rep.floor('C26.BUFSEL', 12)

    # ---------------- VARIANT: the statistics routine picks the 8-bit or the 16-bit reconstruction by a predicate; the in-loop
    # filter kernels, which write the final reconstruction, pick the variant they write by a predicate too.  Every configuration
    # member the writers consult must be consulted by the reader: otherwise there is a configuration in which the filters write one
    # variant and the statistic is taken on the other (never written) one.
    CFG = 'EbSvtAv1EncConfiguration.'
    V16 = [k for k, v in list(REF.items()) + list(REC.items()) if v == 16]

    def _variant_members(g):
        out = set()
        n = 0
        for ev in g.events(('st', 'decl', 'call')):
            e = ev.get('e')
            if e is None or not any(x[0] == 'm' and x[1] in V16 for x in subexprs(e)):
                continue
            for kind, cond, line in g.ctl_chain(ev):
                if kind in ('if', 'else') and cond is not None:
                    ms = {m for m in cond_members(g, cond) if m.startswith(CFG)}
                    if ms:
                        n += 1
                        out |= ms
            if e is not None:
                for x in subexprs(e):
                    if x[0] == 'q' and any(y[0] == 'm' and y[1] in V16 for y in subexprs(x)):
                        ms = {m for m in cond_members(g, x[1]) if m.startswith(CFG)}
                        if ms:
                            n += 1
                            out |= ms
        return out, n
    writers = [g for g in P.fns if g.lib == 'Encoder' and not g.nocfg and g in C.runtime and any(True for _ in g.calls(APPLY))]
    mw, nw = set(), 0
    for g in writers:
        ms, n = _variant_members(g)
        mw |= ms
        nw += n
    if nw < 3:
        raise AnalysisBroken('only %d variant selections found in the in-loop filter kernels' % nw)
    for g in [psnr] + [h for h in [P.fn('ssim_calculations')] if h is not None and not h.nocfg]:
        mr, nr = _variant_members(g)
        if not nr:
            raise AnalysisBroken('%s: no selection of the 16-bit reconstruction found' % g.name)
        miss = sorted(mw - mr)
        rep.ob('C26.VARIANT', '%s/variant-predicate' % g.name, not miss, g.loc(),
               ('%s selects the reconstruction variant by %s, as the filter kernels do' % (g.name, sorted(x[len(CFG):] for x in mr))) if not miss else
               ('the in-loop filter kernels write the 16-bit reconstruction under %s, %s reads it under %s only: with %s set and 8-bit input the filters write the 16-bit buffers and the statistic is computed on the 8-bit ones, which nothing wrote' %
                (sorted(x[len(CFG):] for x in mw), g.name, sorted(x[len(CFG):] for x in mr), ', '.join(x[len(CFG):] for x in miss))))
    rep.floor('C26.VARIANT', 2)

    # ---------------- SOURCE
    TF = 'PictureParentControlSet.temporal_filtering_on'
    from engine.own import alloc_sites as _allocs, release_sites as _rels

    def _lit0(x):
        x = strip(x)
        while x is not None and x[0] == 'k':
            x = strip(x[-1])
        return x is not None and x[0] == 'l' and x[1] == 0

    def _live_release(g, rv):
        """a release statement that can execute: not under a test of a parameter to which every call site passes 0"""
        pn = [n for n, t in g.params]
        for kind, cond, line in g.ctl_chain(rv):
            if kind != 'if' or cond is None:
                continue
            for x in subexprs(cond):
                if x[0] == 'v' and x[1] in pn:
                    idx = pn.index(x[1])
                    sites = P.call_sites(g.name)
                    if sites and all(len(cv['e'][2]) > idx and _lit0(cv['e'][2][idx]) for cf, cv in sites):
                        return False
        return True

    def _per_picture(member):
        """a run-time allocated member whose life ends with the picture: pipeline code releases it (a release that can
        execute) and does not keep an earlier allocation (no allocation under a test of the member itself)"""
        keeps, rel = [], []
        for g in P.fns:
            if g.lib != 'Encoder' or g.nocfg or g not in C.runtime:
                continue
            for av, lf, kind, lvl, mac, t in _allocs(g):
                if lf == member and any(c is not None and any(x[0] == 'm' and x[1] == member for x in subexprs(c)) for k, c, l in g.ctl_chain(av)):
                    keeps.append((g, av))
            for rv, lf, kind, lvl, mac, t in _rels(g):
                if lf == member and g not in C.deinit and _live_release(g, rv):
                    rel.append((g, rv))
        return bool(rel) and not keeps, keeps, rel
    nsrc = 0
    for ev in psnr.events(('st', 'decl')):
        e = ev.get('e')
        rhs = e if ev['k'] == 'decl' else (e[3] if e is not None and e[0] == 'a' and e[1] == '=' else None)
        if rhs is None:
            continue
        r = strip(rhs)
        saved = r[0] == 'i' and strip(r[1])[0] == 'm' and strip(r[1])[1] in IDX_ARRAYS
        direct = r[0] == 'm' and r[1] in voc and r[1].startswith('EbPictureBufferDesc.buffer') and pstr(r).startswith('input_picture_ptr')
        if not (saved or direct):
            continue
        arm = None
        via = None
        for kind, cond, line in psnr.ctl_chain(ev):
            if kind not in ('if', 'else') or cond is None:
                continue
            mem = [x[1] for x in subexprs(cond) if x[0] == 'm' and (x[1] == TF or x[1] in IDX_ARRAYS)]
            if not mem:
                continue
            c = strip(cond)
            neg = (c[0] == 'u' and c[1] == '!') or (c[0] == 'b' and c[1] == '==' and pstr(strip(c[3])) in ('0', 'EB_FALSE', 'NULL', '((void *)0)'))
            arm = (kind == 'if') != neg
            via = mem[0]
            break
        if arm is None:
            continue
        nsrc += 1
        ok = (saved and arm) or (direct and not arm)
        why = None
        if ok and via != TF:
            # selected by the presence of the saved copy: only a predicate of *this* picture if the copy does not outlive it
            pp, keeps, rel = _per_picture(via)
            if not pp:
                ok = False
                why = ('the source is selected by the presence of %s, but that buffer outlives the picture (%s): a recycled picture object that once carried a filtered picture keeps the old copy, and the statistic of a later unfiltered picture is taken against it' %
                       (via.split('.')[1], 'allocated only when absent in %s' % keeps[0][0].name if keeps else 'no pipeline code releases it any more'))
        rep.ob('C26.SOURCE', 'psnr_calculations/src@%s' % ev.get('l'), ok, psnr.loc(ev),
               ('%s when temporal filtering %s' % ('saved unfiltered plane' if saved else 'input picture plane', 'replaced the source' if arm else 'is off')) if ok else
               (why or 'the %s is compared although temporal filtering is %s: the statistic is taken against %s' %
                ('saved copy' if saved else 'in-place (filtered) input picture', 'on' if arm else 'off', 'a stale buffer' if saved else 'the filtered picture, not the submitted one')))
    # the input picture is the unscaled enhanced picture
    inp = [ev for ev in psnr.events(('decl',)) if ev['n'] == 'input_picture_ptr' and ev.get('e') is not None]
    for ev in inp:
        lf = last_field(strip(ev['e']))
        rep.ob('C26.SOURCE', 'psnr_calculations/input@%s' % ev.get('l'), lf == 'PictureParentControlSet.enhanced_unscaled_picture_ptr', psnr.loc(ev),
               'input picture is %s' % (lf or pstr(ev['e'])[:40]))
    rep.floor('C26.SOURCE', 8)

    # ---------------- NEED
    RECON_EN = 'EbSvtAv1EncConfiguration.recon_enabled'
    nneed = 0
    for g in P.fns:
        if g.lib != 'Encoder' or g.nocfg or g in C.dead:
            continue
        for ev, nm in g.calls(APPLY):
            for kind, cond, line in g.ctl_chain(ev):
                if kind != 'if' or cond is None:
                    continue
                flds = cond_members(g, cond)
                if RECON_EN in flds or (FLAG in flds and len(flds) > 1 and any('restoration' in x or 'recon' in x for x in flds)):
                    nneed += 1
                    ok = 'EbSvtAv1EncConfiguration.stat_report' in flds
                    rep.ob('C26.NEED', '%s/%s@%d' % (g.name, nm, line), ok, g.loc(ev),
                           ('%s is applied whenever the final recon is consumed, statistics included' % nm) if ok else
                           ('%s is skipped unless %s: with stat_report on, the SSE of a frame that is neither a reference nor output as recon is computed on a '
                            'picture the decoder filters further' % (nm, ' || '.join(sorted(x.split('.')[1] for x in flds if x.split('.')[1] not in ('parent_pcs_ptr', 'seq_header', 'static_config', 'scs_ptr'))))))
    rep.analysed['need_guards'] = nneed
    rep.floor('C26.NEED', 1)

    # ---------------- FLOW
    pk = P.fn('packetization_kernel')
    STAT = 'EbSvtAv1EncConfiguration.stat_report'
    n = 0
    for ev in pk.events(('st',)):
        e = ev['e']
        if e[0] != 'a' or e[1] != '=':
            continue
        l = strip(e[2])
        if l[0] != 'm' or l[1] not in ('EbBufferHeaderType.luma_sse', 'EbBufferHeaderType.cb_sse', 'EbBufferHeaderType.cr_sse'):
            continue
        r = strip(e[3])
        if r[0] == 'l':
            continue
        n += 1
        src_ok = r[0] == 'm' and r[1] == 'PictureParentControlSet.' + l[1].split('.')[1]
        gated = any(kind == 'if' and cond is not None and STAT in cond_members(pk, cond) for kind, cond, line in pk.ctl_chain(ev))
        rep.ob('C26.FLOW', 'packet:%s' % l[1].split('.')[1], src_ok and gated, pk.loc(ev),
               ('%s copied from the picture\'s %s under stat_report' % (l[1].split('.')[1], r[1].split('.')[1])) if (src_ok and gated) else
               ('%s is filled from %s%s' % (l[1].split('.')[1], pstr(r)[:50], '' if gated else ' outside the stat_report branch')))
    if n < 3:
        raise AnalysisBroken('packetization_kernel: %d of 3 statistic copies found' % n)
    # placement of the call
    sites = P.call_sites('psnr_calculations')
    if not sites:
        raise AnalysisBroken('psnr_calculations is never called')
    for g, ev in sites:
        gated = any(kind == 'if' and cond is not None and STAT in cond_members(g, cond) for kind, cond, line in g.ctl_chain(ev))
        rep.ob('C26.FLOW', 'call@%s/gated' % g.name, gated, g.loc(ev), 'psnr_calculations is called under static_config.stat_report' if gated else 'psnr_calculations is not gated by stat_report')
        # no recon-modifying filter after it in the same kernel iteration
        starts = {c['b'] for c, nm in g.calls(('svt_get_full_object',))}
        seen, stack = set(), [ev['b']]
        later = []
        first = True
        while stack:
            b = stack.pop()
            if b in seen:
                continue
            seen.add(b)
            evs = g.blocks[b]['ev']
            if first:
                evs = evs[evs.index(ev) + 1:] if ev in evs else evs
                first = False
            elif b in starts:
                continue
            for x in evs:
                if x['k'] == 'call' and callee_name(x['e']) in FILTERS:
                    later.append(x)
            for s_ in g.blocks[b]['succ']:
                if s_ is not None:
                    stack.append(s_)
        before = [x for x, nm in g.calls(FILTERS)]
        rep.ob('C26.FLOW', 'call@%s/after-filters' % g.name, not later and bool(before), g.loc(ev),
               ('the statistics are computed after %s in the iteration and no in-loop filter runs afterwards' % sorted({callee_name(x['e']) for x in before})) if (not later and before) else
               ('an in-loop filter (%s) still runs after the statistics were taken: they describe a picture the decoder never shows' % sorted({callee_name(x['e']) for x in later}) if later else 'no in-loop filter call found in the calling kernel'))
    # ... and before the picture is handed on: the values are read by packetization, which only the posts of this kernel stand
    # between; a post that precedes the statistics call on its path lets the consumers run while the values are still being written
    for g, ev in sites:
        early = [pv for pv, n in g.calls('svt_post_full_object') if g.ev_dominates(pv, ev) and pv['l'] < ev['l'] and
                 [x for x in g.ctl_chain(pv) if x[0] in ('for', 'while')][-1:] == [x for x in g.ctl_chain(ev) if x[0] in ('for', 'while')][-1:]]
        # a post inside an inner loop that finishes before the call (per-tile results) counts as well
        if not early:
            outer = [x for x in g.ctl_chain(ev) if x[0] in ('for', 'while')][-1:]
            early = [pv for pv, n in g.calls('svt_post_full_object') if pv['l'] < ev['l'] and outer and outer[0] in g.ctl_chain(pv) and
                     not any(k == 'if' and c is not None and not any(k2 == 'if' and c2 is c for k2, c2, l2 in g.ctl_chain(ev)) for k, c, l in g.ctl_chain(pv)[:1])]
        rep.ob('C26.FLOW', 'call@%s/before-handover' % g.name, not early, g.loc(ev),
               'no result object is posted before the statistics of the picture are computed in the same iteration' if not early else
               ('%s posts a result object (line %d) before it calls psnr_calculations: entropy coding and packetization of the same picture may run, and copy the values into the packet, while they are still being written' % (g.name, early[0]['l'])))
    rep.floor('C26.FLOW', 5)
