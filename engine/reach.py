"""Flow-sensitive reaching definitions of local variables / parameters over the event-CFG.

A *definition* of local `n` is
  - its declaration event (with or without initialiser),
  - a store event whose target is exactly the variable (`n = e`, `n += e`, `n++` ...),
  - a call event that receives `&n` (the callee may write it: an opaque definition),
  - the function entry for a parameter (pseudo definition ('entry', n)).
Definitions are identified by (block id, event index).  Names are not scope-resolved: a nested declaration of the
same name kills the outer one, which is what C does for the rest of that scope and is conservative after it
(the outer variable's later uses see the inner declaration as one more reaching definition).
"""
from .facts import strip, subexprs


def _target_var(ev):
    e = ev.get('e')
    if ev['k'] == 'decl':
        return ev['n']
    if ev['k'] == 'st' and e is not None and e[0] in ('a', 'u'):
        t = strip(e[2])
        if t is not None and t[0] == 'v' and t[2] not in ('g', 's'):
            return t[1]
    return None


def _addr_taken(ev):
    """locals whose address is passed to a call in this event"""
    out = []
    e = ev.get('e')
    if ev['k'] == 'call' and e is not None:
        for a in e[2]:
            a = strip(a)
            if a and a[0] == 'u' and a[1] == '&':
                t = strip(a[2])
                if t and t[0] == 'v' and t[2] not in ('g', 's'):
                    out.append(t[1])
    return out


class ReachingDefs:
    def __init__(self, f):
        self.f = f
        self.defs = {}      # (b, x) -> [names defined by that event]
        self.byname = {}
        for ev in f.events(('decl', 'st', 'call')):
            names = []
            n = _target_var(ev)
            if n is not None:
                names.append(n)
            names.extend(_addr_taken(ev))
            if names:
                self.defs[(ev['b'], ev['x'])] = (names, ev)
                for n in names:
                    self.byname.setdefault(n, []).append(ev)
        self.params = {pn for pn, pt in f.params}
        self._flow = {}

    def _solve(self, name):
        r = self._flow.get(name)
        if r is not None:
            return r
        init = frozenset([('entry', name)]) if name in self.params else frozenset()
        defs = self.defs

        def transfer(ev, st):
            d = defs.get((ev['b'], ev['x']))
            if d is None or name not in d[0]:
                return st
            return frozenset([(ev['b'], ev['x'])])
        ins, outs = self.f.forward(init, transfer, meet=lambda a, b: a | b)
        r = (ins, transfer)
        self._flow[name] = r
        return r

    def at(self, ev, name):
        """Definitions of `name` reaching the point just before `ev`: list of ('entry', name) or event dicts."""
        if name not in self.byname and name not in self.params:
            return []
        ins, transfer = self._solve(name)
        st = self.f.state_at(ins, transfer, ev)
        if st is None:
            return []
        return [d if d[0] == 'entry' else self.defs[d][1] for d in st]


_cache = {}


def reaching(f):
    r = _cache.get(f.key)
    if r is None or r.f is not f:
        r = ReachingDefs(f)
        _cache[f.key] = r
    return r
