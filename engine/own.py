"""A6: ownership facts - allocation and release sites per Struct.field, derived from the macro-expansion stacks of
store / call events (so they do not depend on how the allocation macros are written)."""
from .facts import pstr, strip, callee_name, last_field, root_of, subexprs
from .locks import single_assign_aliases, subst

ALLOC_KIND = {
    'EB_MALLOC': 'MALLOC', 'EB_CALLOC': 'MALLOC', 'EB_MALLOC_ARRAY': 'MALLOC', 'EB_CALLOC_ARRAY': 'MALLOC', 'EB_ALLOC_PTR_ARRAY': 'MALLOC',
    'EB_REALLOC_ARRAY': 'MALLOC', 'EB_MALLOC_2D': 'MALLOC', 'EB_CALLOC_2D': 'MALLOC', 'EB_NO_THROW_MALLOC': 'MALLOC',
    'EB_NO_THROW_CALLOC': 'MALLOC', 'EB_NO_THROW_CALLOC_ARRAY': 'MALLOC', 'EB_NO_THROW_MALLOC_ARRAY': 'MALLOC',
    'EB_MALLOC_ALIGNED': 'ALIGNED', 'EB_MALLOC_ALIGNED_ARRAY': 'ALIGNED', 'EB_CALLOC_ALIGNED_ARRAY': 'ALIGNED',
    'EB_NEW': 'OBJECT', 'EB_NO_THROW_NEW': 'OBJECT',
    'EB_CREATE_MUTEX': 'MUTEX', 'EB_CREATE_SEMAPHORE': 'SEMAPHORE', 'EB_CREATE_THREAD': 'THREAD', 'EB_CREATE_THREAD_ARRAY': 'THREAD',
    'EB_MALLOC_DEC': 'DECMAP', 'EB_ALLIGN_MALLOC_DEC': 'DECMAP', 'EB_CALLOC_DEC': 'DECMAP',
}
RELEASE_KIND = {
    'EB_FREE': 'MALLOC', 'EB_FREE_ARRAY': 'MALLOC', 'EB_FREE_PTR_ARRAY': 'MALLOC', 'EB_FREE_2D': 'MALLOC',
    'EB_FREE_ALIGNED': 'ALIGNED', 'EB_FREE_ALIGNED_ARRAY': 'ALIGNED',
    'EB_DELETE': 'OBJECT', 'EB_DELETE_PTR_ARRAY': 'OBJECT', 'EB_DELETE_UNCHECKED': 'OBJECT', 'EB_RELEASE': 'OBJECT',
    'EB_DESTROY_MUTEX': 'MUTEX', 'EB_DESTROY_SEMAPHORE': 'SEMAPHORE', 'EB_DESTROY_THREAD': 'THREAD', 'EB_DESTROY_THREAD_ARRAY': 'THREAD',
}
RAW_ALLOC = {'malloc': 'MALLOC', 'calloc': 'MALLOC', 'realloc': 'MALLOC', 'svt_create_mutex': 'MUTEX', 'svt_create_semaphore': 'SEMAPHORE',
             'svt_create_thread': 'THREAD', 'svt_aom_memalign': 'ALIGNED', 'svt_aom_malloc': 'ALIGNED', 'svt_aom_calloc': 'ALIGNED'}
RAW_RELEASE = {'free': 'MALLOC', 'svt_destroy_mutex': 'MUTEX', 'svt_destroy_semaphore': 'SEMAPHORE', 'svt_destroy_thread': 'THREAD',
               'svt_aom_free': 'ALIGNED'}
MACRO_LOCALS = {'malloced_p', 'p', 'size', 'err'}


def _level(t):
    """'elem' if the designated object is an element of the field (obj->f[i]), else 'top'."""
    t = strip(t)
    return 'elem' if t and t[0] == 'i' else 'top'


def outer_macro(ev, table):
    for m in ev.get('mx', ()):
        if m in table:
            return m
    return None


def alloc_sites(fn):
    """[(ev, field, kind, level, macro, target path)]"""
    out = []
    seen = set()
    for ev in fn.events(('st', 'call')):
        mac = outer_macro(ev, ALLOC_KIND)
        e = ev['e']
        tgt = None
        kind = None
        if ev['k'] == 'st' and e[0] == 'a' and e[1] == '=':
            lhs = strip(e[2])
            rhs = strip(e[3])
            r = root_of(lhs)
            if lhs[0] == 'v' and lhs[1] in MACRO_LOCALS:
                continue
            if mac:
                # the pointer argument of the macro is the store whose RHS is the allocation result / the macro-local
                if rhs and ((rhs[0] == 'c') or (rhs[0] == 'v' and rhs[1] in MACRO_LOCALS)):
                    n = callee_name(rhs) if rhs[0] == 'c' else None
                    if rhs[0] == 'v' or n in RAW_ALLOC or n in ('svt_create_thread', 'svt_create_mutex', 'svt_create_semaphore'):
                        tgt, kind = lhs, ALLOC_KIND[mac]
            elif rhs and rhs[0] == 'c' and callee_name(rhs) in RAW_ALLOC:
                tgt, kind = lhs, RAW_ALLOC[callee_name(rhs)]
                mac = 'raw:' + callee_name(rhs)
        elif ev['k'] == 'call':
            n = callee_name(e)
            if n == 'posix_memalign' and e[2]:
                a0 = strip(e[2][0])
                if a0 and a0[0] == 'u' and a0[1] == '&':
                    tgt, kind = strip(a0[2]), 'ALIGNED'
                    mac = mac or 'raw:posix_memalign'
        if tgt is None:
            continue
        lf = last_field(tgt)
        if strip(tgt)[0] == 'u' and strip(tgt)[1] == '*':
            lf = None       # stored through a pointer member (*obj->pp = alloc): the owner is whatever pp designates
        key = (pstr(tgt), ev['l'], kind)
        if key in seen:
            continue
        seen.add(key)
        out.append((ev, lf, kind, _level(tgt), mac, tgt))
    return out


def release_sites(fn):
    """[(ev, field, kind, level, macro, target path)] (aliases through single-assignment locals resolved)."""
    out = []
    al = single_assign_aliases(fn)
    # locals assigned more than once (per-branch aliases such as buffer_y = pcs->save_...[0]): every non-NULL definition
    multi = {}
    for ev in fn.events(('decl', 'st')):
        e = ev.get('e')
        if e is None:
            continue
        if ev['k'] == 'decl':
            name, rhs = ev['n'], strip(e)
        elif e[0] == 'a' and e[1] == '=' and strip(e[2]) and strip(e[2])[0] == 'v' and strip(e[2])[2] == 'l':
            name, rhs = strip(e[2])[1], strip(e[3])
        else:
            continue
        if rhs and rhs[0] in ('m', 'i') and last_field(rhs):
            multi.setdefault(name, []).append(rhs)
    seen = set()
    for ev in fn.events(('call',)):
        e = ev['e']
        n = callee_name(e)
        mac = outer_macro(ev, RELEASE_KIND)
        kind = None
        tgt = None
        if n in RAW_RELEASE and e[2]:
            tgt = subst(strip(e[2][0]), al)
            if tgt and tgt[0] == 'v' and tgt[2] == 'l' and tgt[1] in multi:
                k2 = RELEASE_KIND[mac] if mac else RAW_RELEASE[n]
                for rhs in multi[tgt[1]]:
                    key = (pstr(rhs), ev['l'], k2)
                    if key not in seen:
                        seen.add(key)
                        out.append((ev, last_field(rhs), k2, _level(rhs), mac or ('raw:' + n), rhs))
                continue
            kind = RELEASE_KIND[mac] if mac else RAW_RELEASE[n]
            if not mac:
                mac = 'raw:' + n
        elif n is None and mac in ('EB_DELETE', 'EB_DELETE_PTR_ARRAY', 'EB_DELETE_UNCHECKED', 'EB_RELEASE'):
            # (pobj)->dctor(pobj)
            if e[2]:
                tgt = subst(strip(e[2][0]), al)
                kind = 'OBJECT'
        if tgt is None:
            continue
        lf = last_field(tgt)
        key = (pstr(tgt), ev['l'], kind)
        if key in seen:
            continue
        seen.add(key)
        out.append((ev, lf, kind, _level(tgt), mac, tgt))
    return out


def compatible(akind, rkind):
    if akind == rkind:
        return True
    # EB_DELETE frees the object memory with EB_FREE after running the dctor: an OBJECT release also releases MALLOC
    if akind == 'MALLOC' and rkind == 'OBJECT':
        return True
    if akind == 'OBJECT' and rkind == 'MALLOC':
        return False
    # thread arrays: the array itself is MALLOC, elements THREAD; EB_DESTROY_THREAD_ARRAY handles both
    if akind in ('MALLOC', 'THREAD') and rkind == 'THREAD':
        return True
    return False
