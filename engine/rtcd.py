"""Run-time CPU dispatch tables: which function is installed in which pointer under which CPU-flag guard,
and which instruction set each installed function is compiled for (from the real compile flags of its unit)."""
import os, re

from .facts import pstr, ptext, strip, callee_name, subexprs, root_of, REPO, AnalysisBroken

ISA_ORDER = ['C', 'MMX', 'SSE', 'SSE2', 'SSE3', 'SSSE3', 'SSE4_1', 'SSE4_2', 'AVX', 'AVX2', 'AVX512']
RANK = {n: i for i, n in enumerate(ISA_ORDER)}
FLAG_ISA = {'HAS_MMX': 'MMX', 'HAS_SSE': 'SSE', 'HAS_SSE2': 'SSE2', 'HAS_SSE3': 'SSE3', 'HAS_SSSE3': 'SSSE3', 'HAS_SSE4_1': 'SSE4_1',
            'HAS_SSE4_2': 'SSE4_2', 'HAS_AVX': 'AVX', 'HAS_AVX2': 'AVX2', 'HAS_AVX512F': 'AVX512', 'HAS_AVX512CD': 'AVX512',
            'HAS_AVX512DQ': 'AVX512', 'HAS_AVX512ER': 'AVX512', 'HAS_AVX512PF': 'AVX512', 'HAS_AVX512BW': 'AVX512', 'HAS_AVX512VL': 'AVX512'}
MFLAG_ISA = [('-mavx512', 'AVX512'), ('-mavx2', 'AVX2'), ('-mavx', 'AVX'), ('-msse4.2', 'SSE4_2'), ('-msse4.1', 'SSE4_1'), ('-mssse3', 'SSSE3'),
             ('-msse3', 'SSE3'), ('-msse2', 'SSE2'), ('-msse', 'SSE'), ('-mmmx', 'MMX')]
DIR_ISA = {'ASM_SSE2': 'SSE2', 'ASM_SSSE3': 'SSSE3', 'ASM_SSE4_1': 'SSE4_1', 'ASM_AVX2': 'AVX2', 'ASM_AVX512': 'AVX512'}


def unit_isa(P):
    """{unit file: ISA the unit is compiled for}, from its real compile flags (x86-64 baseline counts as C)."""
    out = {}
    for u in P.units:
        isa = 'C'
        for a in u['flags']:
            for pre, name in MFLAG_ISA:
                if a.startswith(pre) and not a.startswith('-mno-'):
                    if RANK[name] > RANK[isa]:
                        isa = name
                    break
        out[u['file']] = isa
    return out


_asm_cache = None


def asm_symbols():
    """{symbol: (isa, file)} for NASM/YASM sources: `global sym(x)` names and x86inc `cglobal` names
    (private prefix + name + _cpuflag) - ISA by the sub-library directory that assembles the file."""
    global _asm_cache
    if _asm_cache is not None:
        return _asm_cache
    out = {}
    for root, dirs, files in os.walk(os.path.join(REPO, 'Source', 'Lib')):
        for fn in files:
            if not fn.endswith('.asm'):
                continue
            d = os.path.basename(root)
            isa = DIR_ISA.get(d)
            if isa is None:
                continue
            p = os.path.join(root, fn)
            txt = open(p, errors='replace').read()
            cpu = None
            for line in txt.splitlines():
                m = re.match(r'\s*INIT_(?:XMM|YMM|MMX|ZMM)\s+(\w+)', line)
                if m:
                    cpu = m.group(1)
                m = re.match(r'\s*global\s+sym\((\w+)\)', line)
                if m:
                    out[m.group(1)] = (isa, p)
                m = re.match(r'\s*cglobal\s+(\w+)', line)
                if m:
                    out['*' + m.group(1) + ('_' + cpu if cpu else '')] = (isa, p)
    _asm_cache = out
    return out


def fn_isa(P, name, uisa):
    """(isa, where) of the definition(s) of function `name`; None if undefined anywhere."""
    defs = [f for f in P.by_name.get(name, []) if not f.hdr or True]
    if defs:
        best = None
        for f in defs:
            i = uisa.get(f.unit)
            if i is None:
                # header-defined (static inline): compiled into the using unit; take the header's directory
                d = os.path.basename(os.path.dirname(f.file))
                i = DIR_ISA.get(d, 'C')
            if best is None or RANK[i] > RANK[best[0]]:
                best = (i, f.loc())
        return best
    asm = asm_symbols()
    if name in asm:
        return (asm[name][0], os.path.relpath(asm[name][1], REPO))
    for k, v in asm.items():
        if k.startswith('*') and name.endswith(k[1:]):
            return (v[0], os.path.relpath(v[1], REPO))
    return None


_flagvals = None


def flag_values():
    """{bit value: HAS_x name} read from the repository's own headers (CPU_FLAGS_* in the API header, HAS_* aliases)."""
    global _flagvals
    if _flagvals is not None:
        return _flagvals
    cpu = {}
    for line in open(os.path.join(REPO, 'Source/API/EbSvtAv1.h'), errors='replace'):
        m = re.match(r'\s*#define\s+(CPU_FLAGS_\w+)\s+\(\s*1\s*<<\s*(\d+)\s*\)', line)
        if m:
            cpu[m.group(1)] = 1 << int(m.group(2))
    out = {}
    for line in open(os.path.join(REPO, 'Source/Lib/Common/Codec/common_dsp_rtcd.h'), errors='replace'):
        m = re.match(r'\s*#define\s+(HAS_\w+)\s+(CPU_FLAGS_\w+)', line)
        if m and m.group(2) in cpu and m.group(1) in FLAG_ISA:
            out[cpu[m.group(2)]] = m.group(1)
    if len(out) < 9:
        raise AnalysisBroken('CPU flag definitions not found in the headers')
    _flagvals = out
    return out


def guard_of(fn, ev):
    """ISA required by the CPU-flag guards controlling a store (max over `flags & HAS_x` conjuncts), 'C' if none;
    also the list of flag names."""
    isa = 'C'
    names = []
    fv = flag_values()
    for kind, cond, line in fn.ctl_chain(ev):
        if cond is None or kind not in ('if', 'and'):
            continue
        for x in subexprs(cond):
            if x[0] == 'b' and x[1] == '&':
                for side in (x[2], x[3]):
                    s = strip(side)
                    if s and s[0] == 'l' and s[1] in fv:
                        nm = fv[s[1]]
                        names.append(nm)
                        if RANK[FLAG_ISA[nm]] > RANK[isa]:
                            isa = FLAG_ISA[nm]
    return isa, names


def dispatch_entries(P):
    """[(setup Fn, ev, pointer name, installed function name, guard isa, guard flags)] for every store of a function
    into a function-pointer global."""
    fp = {g['name'] for g in P.globals if g.get('fnptr')}
    out = []
    for f in P.fns:
        if f.lib not in ('Common', 'Encoder', 'Decoder') or f.nocfg:
            continue
        for ev in f.events(('st',)):
            e = ev['e']
            if e[0] != 'a' or e[1] != '=':
                continue
            l = strip(e[2])
            r = root_of(l)
            if r is None or r[2] != 'g' or r[1] not in fp:
                continue
            rhs = strip(e[3])
            if not rhs:
                continue
            if rhs[0] == 'f':
                g, names = guard_of(f, ev)
                out.append((f, ev, pstr(l), rhs[1], g, names))
            elif rhs[0] in ('v', 'i') and root_of(rhs) is not None and root_of(rhs)[1] in fp:
                # a table slot filled from another dispatch pointer (convolve[..] = svt_av1_convolve_2d_sr): forwarding
                g, names = guard_of(f, ev)
                out.append((f, ev, pstr(l), '->' + root_of(rhs)[1], g, names))
    if len(out) < 1500:
        raise AnalysisBroken('only %d dispatch-table stores found' % len(out))
    return out
