"""NULLDOM: every dereference of a caller-supplied pointer is dominated by a NULL test whose failing
branch does not reach the dereference.

May-analysis over the event-CFG.  State = frozenset of *unchecked* canonical paths ('p' for parameter p,
'*p' for the pointee of a T** parameter, plus local aliases).  A path leaves the state
  * on the edge of a branch whose condition proves it non-NULL (p, !p, p == NULL, p != NULL; && / || are
    already split into separate CFG blocks by clang),
  * when the function stores to it (it no longer holds the caller's value).
A 'dr'/'ix' event on a path still in the state is an unguarded dereference.  Passing an unchecked path to a
callee whose summary says "dereferences parameter i without a test" is one too (interprocedural, memoised).
assert() is not a test in the production configuration (it expands to nothing).
"""
from .facts import pstr, strip, callee_name, subexprs
from .locks import single_assign_aliases, subst

# libc functions that dereference (some of) their pointer arguments unconditionally
LIBC_DEREF = {'memcpy': (0, 1), 'memset': (0,), 'memmove': (0, 1), 'strlen': (0,), 'strcpy': (0, 1), 'strncpy': (0, 1),
              'strcmp': (0, 1), 'fwrite': (0, 3), 'fread': (0, 3), 'fprintf': (0,), 'svt_memcpy_c': (0, 1)}


def canon(e, aliases):
    e = subst(strip(e), aliases) if aliases else strip(e)
    return e


def null_fact(cond):
    """(path tree, branch_index_where_nonnull) or None.  branch 0 = true successor, 1 = false."""
    c = strip(cond)
    neg = False
    while c and c[0] == 'u' and c[1] == '!':
        neg = not neg
        c = strip(c[2])
    if not c:
        return None
    if c[0] == 'b' and c[1] in ('==', '!='):
        l, r = strip(c[2]), strip(c[3])
        if r and r[0] == 'l' and r[1] == 0:
            p = l
        elif l and l[0] == 'l' and l[1] == 0:
            p = r
        else:
            return None
        eq = c[1] == '=='
        nonnull_on_true = (not eq) != neg
        return (p, 0 if nonnull_on_true else 1)
    if c[0] in ('v', 'm', 'i') or (c[0] == 'u' and c[1] == '*'):
        return (c, 1 if neg else 0)
    return None


class NullDom:
    def __init__(self, P):
        self.P = P
        self._sum = {}

    def analyse(self, fn, tainted_paths, depth=0, chain=(), gen=None, implies=None, follow_members=False):
        """tainted_paths: iterable of path strings (canonical).  Returns list of violations
        [(ev, path, kind, detail)].  gen: {id(event): path} - events after which `path` holds an unchecked
        possibly-NULL value (e.g. the store of a raw malloc result)."""
        al = single_assign_aliases(fn)
        # do not alias-substitute locals that alias a tainted param: we track them as separate tainted paths
        init = frozenset(tainted_paths)
        viol = []

        def pcanon(e):
            return pstr(canon(e, None))

        def transfer(ev, st):
            if gen and id(ev) in gen:
                return st0(ev, st) | {gen[id(ev)]}
            return st0(ev, st)

        def st0(ev, st):
            if not st:
                return st
            k = ev['k']
            e = ev.get('e')
            if k == 'decl':
                if e is not None:
                    r = pcanon(e)
                    if r in st:
                        return st | {ev['n']}
                if ev['n'] in st:
                    return st - {ev['n']}
                return st
            if k == 'st' and e and e[0] == 'a':
                l = pcanon(e[2])
                if e[1] == '=':
                    r = pcanon(e[3])
                    if r in st:
                        return st | {l}
                if l in st:
                    # the path no longer holds the caller's value; paths below it neither
                    return frozenset(x for x in st if x != l and x != '*' + l)
                return st
            return st

        def edge(blk, i, st):
            if not st:
                return st
            c = blk.get('cond')
            if c is None or len(blk['succ']) != 2:
                return st
            f = null_fact(c)
            if f is None:
                return st
            p, good = f
            if i == good:
                ps = pcanon(p)
                rm = {ps}
                if implies and ps in implies:
                    rm |= implies[ps]       # members allocated before this one are non-NULL whenever it is
                if rm & st:
                    return st - rm
            return st

        def meet(a, b):
            return a | b

        ins, outs = fn.forward(init, transfer, edge, meet)
        for bid in fn.reach():
            st = ins.get(bid)
            if st is None:
                continue
            for ev in fn.blocks[bid]['ev']:
                if st:
                    k = ev['k']
                    if k in ('dr', 'ix') and (k == 'dr' or ev.get('ptr')):
                        p = pcanon(ev['e'])
                        if p in st:
                            viol.append((ev, p, 'deref', 'dereference of %s not dominated by a NULL test' % p))
                    elif k == 'call':
                        n = callee_name(ev['e'])
                        args = ev['e'][2]
                        for i, a in enumerate(args):
                            ap = pcanon(a)
                            if ap in st:
                                why = self.callee_derefs(n, fn, i, depth, chain)
                                if why:
                                    viol.append((ev, ap, 'call', 'unchecked %s passed to %s (parameter %d), which %s' % (ap, n, i, why)))
                            elif follow_members and n and depth < 3:
                                # the object whose members are tracked is handed to a callee: continue there
                                sub = [p for p in st if p.startswith(ap + '->')]
                                if sub:
                                    for g in self.P.resolve(n, fn)[:1]:
                                        if g.nocfg or i >= len(g.params) or (g.key, i, 'm') in chain:
                                            continue
                                        pn = g.params[i][0]
                                        t2 = [pn + p[len(ap):] for p in sub]
                                        back = {pn + p[len(ap):]: p for p in sub}
                                        imp2 = None
                                        if implies:
                                            imp2 = {pn + k[len(ap):]: {pn + x[len(ap):] for x in v if x.startswith(ap + '->')}
                                                    for k, v in implies.items() if k.startswith(ap + '->')}
                                        for e2, p2, k2, d2 in self.analyse(g, t2, depth + 1, chain + ((g.key, i, 'm'),), implies=imp2, follow_members=True):
                                            if p2 in back:
                                                viol.append((ev, back[p2], 'call', 'object passed to %s, where %s at %s' % (n, d2, g.loc(e2))))
                st = transfer(ev, st)
        return viol

    def callee_derefs(self, name, frm, i, depth, chain):
        """Non-empty reason string if callee `name` dereferences its i-th parameter without a NULL test."""
        if name is None:
            return ''
        if name in LIBC_DEREF:
            return 'dereferences it (libc)' if i in LIBC_DEREF[name] else ''
        cands = self.P.resolve(name, frm)
        if not cands:
            return ''
        g = cands[0]
        key = (g.key, i)
        if key in self._sum:
            return self._sum[key]
        if depth > 6 or key in chain:
            return ''
        if i >= len(g.params) or g.nocfg:
            self._sum[key] = ''
            return ''
        pname = g.params[i][0]
        v = self.analyse(g, [pname], depth + 1, chain + (key,))
        if v:
            ev, p, kind, detail = v[0]
            why = 'dereferences it unguarded at %s' % g.loc(ev) if kind == 'deref' else detail + ' at ' + g.loc(ev)
        else:
            why = ''
        self._sum[key] = why
        return why
