// svtfacts: libTooling fact extractor for the SVT-AV1 static checks.
//
// usage: svtfacts --out <unit.json> --hdrdir <dir> [--decl-only] <file.c> -- <compile flags>
//
// Emits, for one translation unit:
//   * functions defined in the main file: signature + event-CFG (+ structured control contexts)
//   * records (struct/union) and enums defined in the main file
//   * globals (variables with static storage) defined in this TU
//   * top-level macro invocations of the main file (name, line, argument spellings)
// Facts of entities defined in repository *headers* go to <hdrdir>/<mangled header>.json, written
// once (first unit to get there wins; content is a function of the header text).
//
// Expression encoding (compact JSON arrays):
//   ["l", value, "text"]            integer constant (clang constant evaluator), text = spelling
//   ["v", name, kind]               variable; kind = "p<i>" param, "l" local, "g" global, "s" static local
//   ["f", name]                     function reference
//   ["m", "Rec.field", arrow, base] member access
//   ["i", base, index]              subscript
//   ["u", op, e]                    unary   (op: * & ! - ~ ++x x++ --x x--)
//   ["b", op, l, r]                 binary
//   ["a", op, l, r]                 assignment (= += ...)
//   ["q", c, t, f]                  conditional operator
//   ["c", callee, [args]]           call
//   ["k", "type", e]                explicit cast
//   ["s", "text"]                   string literal
//   ["il", [..]]                    init list
//   ["?", "kind"]                   anything else

#include "clang/AST/ASTConsumer.h"
#include "clang/AST/ASTContext.h"
#include "clang/AST/Decl.h"
#include "clang/AST/Expr.h"
#include "clang/AST/ParentMap.h"
#include "clang/AST/RecursiveASTVisitor.h"
#include "clang/AST/Stmt.h"
#include "clang/Analysis/CFG.h"
#include "clang/Basic/SourceManager.h"
#include "clang/Frontend/CompilerInstance.h"
#include "clang/Frontend/FrontendAction.h"
#include "clang/Lex/Lexer.h"
#include "clang/Lex/MacroArgs.h"
#include "clang/Lex/PPCallbacks.h"
#include "clang/Lex/Preprocessor.h"
#include "clang/Tooling/CommonOptionsParser.h"
#include "clang/Tooling/Tooling.h"
#include "llvm/Support/CommandLine.h"
#include "llvm/Support/FileSystem.h"
#include "llvm/Support/JSON.h"
#include "llvm/Support/raw_ostream.h"

#include <unistd.h>
#include <map>
#include <set>
#include <string>
#include <vector>

using namespace clang;
using namespace llvm;
namespace J = llvm::json;

static cl::OptionCategory Cat("svtfacts");
static cl::opt<std::string> OutFile("out", cl::desc("unit output json"), cl::cat(Cat), cl::Required);
static cl::opt<std::string> HdrDir("hdrdir", cl::desc("header facts dir"), cl::cat(Cat), cl::init(""));
static cl::opt<std::string> RepoRoot("root", cl::desc("repository root"), cl::cat(Cat), cl::init("/repo/"));
static cl::opt<bool> Light("light", cl::desc("only store/call/return events"), cl::cat(Cat), cl::init(false));
static cl::opt<bool> DeclOnly("decl-only", cl::desc("no function bodies"), cl::cat(Cat), cl::init(false));

namespace {

struct MacroInv {
    std::string file;
    unsigned    line, col;
    std::string name;
    std::vector<std::string> args;
};

struct FileFacts {
    J::Array functions, records, enums, macros;
};

class Extractor;

class PPRec : public PPCallbacks {
  public:
    PPRec(Preprocessor &pp, std::vector<MacroInv> &out) : PP(pp), Out(out) {}
    void MacroExpands(const Token &Tok, const MacroDefinition &MD, SourceRange Range, const MacroArgs *Args) override {
        SourceManager &SM = PP.getSourceManager();
        SourceLocation L  = Tok.getLocation();
        if (L.isMacroID()) return; // only top-level invocations
        const MacroInfo *MI = MD.getMacroInfo();
        if (!MI || !MI->isFunctionLike()) return;
        PresumedLoc P = SM.getPresumedLoc(L);
        if (P.isInvalid()) return;
        StringRef fn = P.getFilename();
        if (!fn.startswith(RepoRoot)) return;
        MacroInv inv;
        inv.file = fn.str();
        inv.line = P.getLine();
        inv.col  = P.getColumn();
        inv.name = Tok.getIdentifierInfo()->getName().str();
        if (Args) {
            unsigned n = MI->getNumParams();
            for (unsigned i = 0; i < n && i < Args->getNumMacroArguments(); i++) {
                const Token *t = Args->getUnexpArgument(i);
                std::string  s;
                unsigned     cnt = 0;
                for (; t && t->isNot(tok::eof) && cnt < 64; ++t, ++cnt) {
                    if (!s.empty() && t->hasLeadingSpace()) s += ' ';
                    s += PP.getSpelling(*t);
                }
                inv.args.push_back(s);
            }
        }
        Out.push_back(std::move(inv));
    }

  private:
    Preprocessor          &PP;
    std::vector<MacroInv> &Out;
};

class Extractor : public ASTConsumer {
  public:
    Extractor(CompilerInstance &ci, std::vector<MacroInv> &mi) : CI(ci), Macros(mi) {}

    ASTContext    *Ctx = nullptr;
    SourceManager *SM  = nullptr;

    // ---------------------------------------------------------------- helpers
    std::string fileOf(SourceLocation L) {
        L              = SM->getExpansionLoc(L);
        PresumedLoc P  = SM->getPresumedLoc(L);
        if (P.isInvalid()) return "";
        return P.getFilename();
    }
    unsigned lineOf(SourceLocation L) {
        L = SM->getExpansionLoc(L);
        return SM->getPresumedLineNumber(L);
    }
    bool inRepo(const std::string &f) { return StringRef(f).startswith(RepoRoot); }
    bool inMain(SourceLocation L) { return SM->isInMainFile(SM->getExpansionLoc(L)); }

    std::string typeStr(QualType T) { return T.getAsString(Ctx->getPrintingPolicy()); }

    std::string recName(const RecordDecl *RD) {
        if (!RD) return "?";
        if (RD->getIdentifier()) return RD->getName().str();
        if (const TypedefNameDecl *TD = RD->getTypedefNameForAnonDecl()) return TD->getName().str();
        // anonymous member struct: qualify by parent
        if (const RecordDecl *P = dyn_cast_or_null<RecordDecl>(RD->getParent())) {
            return recName(P) + "::<anon@" + std::to_string(lineOf(RD->getLocation())) + ">";
        }
        return "<anon@" + std::to_string(lineOf(RD->getLocation())) + ">";
    }

    std::string srcText(const Stmt *S, unsigned maxlen = 80) {
        CharSourceRange R = Lexer::makeFileCharRange(CharSourceRange::getTokenRange(S->getSourceRange()), *SM, Ctx->getLangOpts());
        std::string     s;
        if (R.isValid()) {
            s = Lexer::getSourceText(R, *SM, Ctx->getLangOpts()).str();
        } else {
            SourceLocation B = S->getBeginLoc();
            if (B.isMacroID()) s = Lexer::getImmediateMacroName(B, *SM, Ctx->getLangOpts()).str();
        }
        // collapse whitespace
        std::string o;
        bool        sp = false;
        for (char c : s) {
            if (c == ' ' || c == '\n' || c == '\t' || c == '\\' || c == '\r') {
                sp = true;
                continue;
            }
            if (sp && !o.empty()) o += ' ';
            sp = false;
            o += c;
            if (o.size() >= maxlen) break;
        }
        return o;
    }

    std::vector<std::string> macroStack(SourceLocation L) {
        std::vector<std::string> v;
        while (L.isMacroID()) {
            if (SM->isMacroArgExpansion(L)) {
                L = SM->getImmediateExpansionRange(L).getBegin();
                continue;
            }
            StringRef n = Lexer::getImmediateMacroName(L, *SM, Ctx->getLangOpts());
            v.push_back(n.str());
            L = SM->getImmediateExpansionRange(L).getBegin();
        }
        std::reverse(v.begin(), v.end());
        return v;
    }

    // --------------------------------------------------------- expression trees
    unsigned InitCap = 64; // initialiser-list elements kept (raised for the application's option table)
    const ParmVarDecl *curParams = nullptr;
    const FunctionDecl *curFn    = nullptr;

    J::Value expr(const Expr *E) {
        if (!E) return nullptr;
        E = E->IgnoreParenImpCasts();
        // strip more (implicit casts under parens etc.)
        while (true) {
            const Expr *N = E->IgnoreParenImpCasts();
            if (N == E) break;
            E = N;
        }
        // constant folding
        if (!isa<InitListExpr>(E) && !E->isValueDependent()) {
            if (E->getType()->isIntegralOrEnumerationType() && E->isPRValue() && !isa<CallExpr>(E)) {
                Expr::EvalResult R;
                if (E->EvaluateAsInt(R, *Ctx, Expr::SE_NoSideEffects) && !R.HasSideEffects) {
                    llvm::APSInt V = R.Val.getInt();
                    int64_t      v = V.isSigned() ? V.getSExtValue() : (int64_t)V.getZExtValue();
                    // C type of the constant: bits (negative = signed); omitted for plain int
                    QualType QT = E->getType();
                    if (const auto *ET = QT->getAs<EnumType>()) QT = ET->getDecl()->getIntegerType();
                    int bits = QT.isNull() ? 32 : (int)Ctx->getTypeSize(QT);
                    bool sg  = QT.isNull() ? true : QT->isSignedIntegerOrEnumerationType();
                    if (bits == 32 && sg) return J::Array{"l", v, srcText(E, 60)};
                    return J::Array{"l", v, srcText(E, 60), sg ? -bits : bits};
                }
            } else if (E->getType()->isPointerType() && E->isPRValue() &&
                       E->isNullPointerConstant(*Ctx, Expr::NPC_ValueDependentIsNotNull)) {
                return J::Array{"l", 0, "NULL"};
            }
        }
        if (auto *D = dyn_cast<DeclRefExpr>(E)) {
            const ValueDecl *VD = D->getDecl();
            if (isa<FunctionDecl>(VD)) return J::Array{"f", VD->getName().str()};
            if (auto *PV = dyn_cast<ParmVarDecl>(VD)) {
                return J::Array{"v", VD->getName().str(), "p" + std::to_string(PV->getFunctionScopeIndex())};
            }
            if (auto *V = dyn_cast<VarDecl>(VD)) {
                const char *k = V->isStaticLocal() ? "s" : (V->hasGlobalStorage() ? "g" : "l");
                return J::Array{"v", VD->getName().str(), k};
            }
            return J::Array{"v", VD->getName().str(), "e"};
        }
        if (auto *M = dyn_cast<MemberExpr>(E)) {
            std::string fid = "?." + M->getMemberDecl()->getName().str();
            if (auto *FD = dyn_cast<FieldDecl>(M->getMemberDecl())) fid = recName(FD->getParent()) + "." + FD->getName().str();
            J::Array r{"m", fid, M->isArrow() ? 1 : 0, expr(M->getBase())};
            if (M->getType()->isArrayType()) r.push_back("a");
            else if (M->getType()->isPointerType()) r.push_back("p");
            return r;
        }
        if (auto *A = dyn_cast<ArraySubscriptExpr>(E)) {
            J::Array r{"i", expr(A->getBase()), expr(A->getIdx())};
            if (A->getType()->isArrayType()) r.push_back("a");
            else if (A->getType()->isPointerType()) r.push_back("p");
            return r;
        }
        if (auto *U = dyn_cast<UnaryOperator>(E)) {
            std::string op;
            switch (U->getOpcode()) {
            case UO_PostInc: op = "x++"; break;
            case UO_PostDec: op = "x--"; break;
            case UO_PreInc: op = "++x"; break;
            case UO_PreDec: op = "--x"; break;
            default: op = UnaryOperator::getOpcodeStr(U->getOpcode()).str();
            }
            J::Array r{"u", op, expr(U->getSubExpr())};
            if (U->getOpcode() == UO_Deref) {
                if (U->getType()->isArrayType()) r.push_back("a");
                else if (U->getType()->isPointerType()) r.push_back("p");
            }
            return r;
        }
        if (auto *B = dyn_cast<BinaryOperator>(E)) {
            std::string op = B->getOpcodeStr().str();
            if (B->isAssignmentOp()) return J::Array{"a", op, expr(B->getLHS()), expr(B->getRHS())};
            return J::Array{"b", op, expr(B->getLHS()), expr(B->getRHS())};
        }
        if (auto *C = dyn_cast<ConditionalOperator>(E)) {
            return J::Array{"q", expr(C->getCond()), expr(C->getTrueExpr()), expr(C->getFalseExpr())};
        }
        if (auto *C = dyn_cast<CallExpr>(E)) {
            J::Array args;
            for (const Expr *a : C->arguments()) args.push_back(expr(a));
            return J::Array{"c", expr(C->getCallee()), std::move(args)};
        }
        if (auto *C = dyn_cast<ExplicitCastExpr>(E)) { return J::Array{"k", typeStr(C->getType()), expr(C->getSubExpr())}; }
        if (auto *S = dyn_cast<clang::StringLiteral>(E)) {
            std::string s = S->getBytes().str();
            if (s.size() > 60) s.resize(60);
            // keep it valid UTF-8
            for (char &c : s)
                if ((unsigned char)c >= 0x80 || (unsigned char)c < 0x20) c = '?';
            return J::Array{"s", s};
        }
        if (auto *I = dyn_cast<InitListExpr>(E)) {
            J::Array a;
            unsigned n = 0;
            for (const Expr *x : I->inits()) {
                if (n++ > InitCap) break;
                a.push_back(expr(x));
            }
            return J::Array{"il", std::move(a)};
        }
        if (auto *FL = dyn_cast<FloatingLiteral>(E)) {
            SmallString<32> s;
            FL->getValue().toString(s);
            return J::Array{"fl", std::string(s.str())};
        }
        if (auto *U = dyn_cast<UnaryExprOrTypeTraitExpr>(E)) { return J::Array{"?", "sizeof:" + srcText(U, 60)}; }
        if (auto *CL = dyn_cast<CompoundLiteralExpr>(E)) { return J::Array{"k", typeStr(CL->getType()), expr(CL->getInitializer())}; }
        if (auto *SE = dyn_cast<StmtExpr>(E)) { return J::Array{"?", "stmtexpr"}; }
        return J::Array{"?", E->getStmtClassName()};
    }

    // ------------------------------------------------- structured control contexts
    struct Ctl {
        int         parent;
        std::string kind;
        J::Value    cond;
        unsigned    line;
    };
    std::vector<Ctl>              ctls;
    std::map<const Stmt *, int>   stmtCtl;

    int newCtl(int parent, const char *kind, J::Value cond, unsigned line) {
        ctls.push_back(Ctl{parent, kind, std::move(cond), line});
        return (int)ctls.size() - 1;
    }

    void walk(const Stmt *S, int ctx) {
        if (!S) return;
        stmtCtl[S] = ctx;
        if (auto *I = dyn_cast<IfStmt>(S)) {
            walk(I->getCond(), ctx);
            unsigned ln = lineOf(I->getIfLoc());
            int      t  = newCtl(ctx, "if", expr(I->getCond()), ln);
            walk(I->getThen(), t);
            if (I->getElse()) {
                int e = newCtl(ctx, "else", expr(I->getCond()), ln);
                walk(I->getElse(), e);
            }
            return;
        }
        if (auto *W = dyn_cast<WhileStmt>(S)) {
            walk(W->getCond(), ctx);
            int b = newCtl(ctx, "while", expr(W->getCond()), lineOf(W->getWhileLoc()));
            walk(W->getBody(), b);
            return;
        }
        if (auto *D = dyn_cast<DoStmt>(S)) {
            // do { } while (0) is the macro idiom: no control dependence
            bool trivial = false;
            if (D->getCond()) {
                Expr::EvalResult R;
                if (D->getCond()->EvaluateAsInt(R, *Ctx) && R.Val.getInt() == 0) trivial = true;
            }
            int b = ctx;
            if (!trivial) b = newCtl(ctx, "do", expr(D->getCond()), lineOf(D->getDoLoc()));
            walk(D->getBody(), b);
            walk(D->getCond(), b);
            return;
        }
        if (auto *F = dyn_cast<ForStmt>(S)) {
            walk(F->getInit(), ctx);
            int b = newCtl(ctx, "for", F->getCond() ? expr(F->getCond()) : J::Value(nullptr), lineOf(F->getForLoc()));
            walk(F->getCond(), b);
            walk(F->getInc(), b);
            walk(F->getBody(), b);
            return;
        }
        if (auto *SW = dyn_cast<SwitchStmt>(S)) {
            walk(SW->getCond(), ctx);
            int sw = newCtl(ctx, "sw", expr(SW->getCond()), lineOf(SW->getSwitchLoc()));
            // body: compound with case labels
            if (auto *CS = dyn_cast_or_null<CompoundStmt>(SW->getBody())) {
                stmtCtl[CS] = sw;
                int cur = sw;
                for (const Stmt *c : CS->body()) {
                    const Stmt *x = c;
                    J::Array    vals;
                    bool        isCase = false;
                    unsigned    ln     = 0;
                    while (auto *SC = dyn_cast<SwitchCase>(x)) {
                        isCase = true;
                        ln     = lineOf(SC->getKeywordLoc());
                        if (auto *C = dyn_cast<CaseStmt>(SC))
                            vals.push_back(expr(C->getLHS()));
                        else
                            vals.push_back("default");
                        stmtCtl[SC] = sw;
                        x           = SC->getSubStmt();
                    }
                    if (isCase) cur = newCtl(sw, "case", std::move(vals), ln);
                    walk(x, cur);
                }
            } else {
                walk(SW->getBody(), sw);
            }
            return;
        }
        if (auto *B = dyn_cast<BinaryOperator>(S)) {
            if (B->getOpcode() == BO_LAnd || B->getOpcode() == BO_LOr) {
                walk(B->getLHS(), ctx);
                int r = newCtl(ctx, B->getOpcode() == BO_LAnd ? "and" : "or", expr(B->getLHS()), lineOf(B->getOperatorLoc()));
                walk(B->getRHS(), r);
                return;
            }
        }
        if (auto *C = dyn_cast<ConditionalOperator>(S)) {
            walk(C->getCond(), ctx);
            unsigned ln = lineOf(C->getQuestionLoc());
            int      t  = newCtl(ctx, "if", expr(C->getCond()), ln);
            walk(C->getTrueExpr(), t);
            int e = newCtl(ctx, "else", expr(C->getCond()), ln);
            walk(C->getFalseExpr(), e);
            return;
        }
        if (auto *DS = dyn_cast<DeclStmt>(S)) {
            for (const Decl *d : DS->decls())
                if (auto *V = dyn_cast<VarDecl>(d))
                    if (V->getInit()) walk(V->getInit(), ctx);
            return;
        }
        for (const Stmt *c : S->children()) walk(c, ctx);
    }

    // ------------------------------------------------------------- events
    void addLoc(J::Object &o, SourceLocation L, const std::string &fnFile) {
        o["l"]         = (int64_t)lineOf(L);
        std::string f  = fileOf(L);
        if (f != fnFile) o["f"] = f;
        if (L.isMacroID()) {
            auto     st = macroStack(L);
            J::Array a;
            for (auto &s : st) a.push_back(s);
            if (!a.empty()) o["mx"] = std::move(a);
        }
    }

    std::string useOf(const Stmt *S, ParentMap &PM) {
        const Stmt *P = PM.getParentIgnoreParenImpCasts(const_cast<Stmt *>(S));
        const Stmt *child = S;
        // climb through implicit stuff manually
        while (P && (isa<ImplicitCastExpr>(P) || isa<ParenExpr>(P) || isa<ConstantExpr>(P) || isa<ExprWithCleanups>(P))) {
            child = P;
            P     = PM.getParent(P);
        }
        if (!P) return "discard";
        if (isa<CompoundStmt>(P) || isa<LabelStmt>(P) || isa<SwitchCase>(P)) return "discard";
        if (auto *I = dyn_cast<IfStmt>(P)) return (I->getCond() && I->getCond()->IgnoreParenImpCasts() == dyn_cast<Expr>(S)) ? "test" : "discard";
        if (auto *W = dyn_cast<WhileStmt>(P)) return (W->getCond() && W->getCond()->IgnoreParenImpCasts() == dyn_cast<Expr>(S)) ? "test" : "discard";
        if (auto *D = dyn_cast<DoStmt>(P)) return (D->getCond() && D->getCond()->IgnoreParenImpCasts() == dyn_cast<Expr>(S)) ? "test" : "discard";
        if (auto *F = dyn_cast<ForStmt>(P)) return (F->getCond() && F->getCond()->IgnoreParenImpCasts() == dyn_cast<Expr>(S)) ? "test" : "discard";
        if (isa<ReturnStmt>(P)) return "ret";
        if (isa<DeclStmt>(P)) return "init";
        if (auto *B = dyn_cast<BinaryOperator>(P)) {
            if (B->isAssignmentOp()) return B->getRHS()->IgnoreParenImpCasts() == dyn_cast<Expr>(S) ? "assign" : "lhs";
            if (B->isComparisonOp() || B->isLogicalOp()) return "test";
            if (B->getOpcode() == BO_Comma) return "discard";
            return "expr";
        }
        if (auto *U = dyn_cast<UnaryOperator>(P)) {
            if (U->getOpcode() == UO_LNot) return "test";
            return "expr";
        }
        if (auto *C = dyn_cast<CStyleCastExpr>(P)) {
            if (C->getType()->isVoidType()) return "void";
            return useOf(P, PM);
        }
        if (isa<CallExpr>(P)) return "arg";
        if (isa<SwitchStmt>(P)) return "test";
        (void)child;
        return "expr";
    }

    bool emitEvent(const Stmt *S, ParentMap &PM, J::Array &evs, const std::string &fnFile) {
        J::Object o;
        if (auto *C = dyn_cast<CallExpr>(S)) {
            o["k"]   = "call";
            o["e"]   = expr(C);
            o["use"] = useOf(S, PM);
        } else if (auto *B = dyn_cast<BinaryOperator>(S)) {
            if (!B->isAssignmentOp()) return false;
            o["k"] = "st";
            o["e"] = expr(B);
            if (B->getLHS()->getType()->isPointerType()) o["pt"] = 1;
        } else if (auto *U = dyn_cast<UnaryOperator>(S)) {
            if (U->isIncrementDecrementOp()) {
                o["k"] = "st";
                o["e"] = expr(U);
            } else if (U->getOpcode() == UO_Deref && !Light) {
                o["k"] = "dr";
                o["e"] = expr(U->getSubExpr());
            } else
                return false;
        } else if (auto *D = dyn_cast<DeclStmt>(S)) {
            bool any = false;
            for (const Decl *d : D->decls()) {
                if (auto *V = dyn_cast<VarDecl>(d)) {
                    J::Object v;
                    v["k"] = "decl";
                    v["n"] = V->getName().str();
                    v["t"] = typeStr(V->getType());
                    if (V->isStaticLocal()) v["static"] = 1;
                    if (V->getInit()) v["e"] = expr(V->getInit());
                    addLoc(v, V->getLocation(), fnFile);
                    auto it = stmtCtl.find(S);
                    if (it != stmtCtl.end() && it->second >= 0) v["ctl"] = it->second;
                    evs.push_back(std::move(v));
                    any = true;
                }
            }
            return any;
        } else if (auto *R = dyn_cast<ReturnStmt>(S)) {
            o["k"] = "ret";
            if (R->getRetValue()) o["e"] = expr(R->getRetValue());
        } else if (auto *M = dyn_cast<MemberExpr>(S)) {
            if (!M->isArrow() || Light) return false;
            o["k"] = "dr";
            o["e"] = expr(M->getBase());
        } else if (auto *A = dyn_cast<ArraySubscriptExpr>(S)) {
            if (Light) return false;
            const Expr *b = A->getBase()->IgnoreParenImpCasts();
            o["k"]        = "ix";
            o["e"]        = expr(A->getBase());
            o["i"]        = expr(A->getIdx());
            if (b->getType()->isArrayType()) {
                if (auto *CAT = Ctx->getAsConstantArrayType(b->getType())) o["n"] = (int64_t)CAT->getSize().getZExtValue();
            } else
                o["ptr"] = 1;
        } else
            return false;
        addLoc(o, S->getBeginLoc(), fnFile);
        auto it = stmtCtl.find(S);
        if (it != stmtCtl.end() && it->second >= 0) o["ctl"] = it->second;
        evs.push_back(std::move(o));
        return true;
    }

    J::Value labelOf(const CFGBlock *B) {
        const Stmt *L = B->getLabel();
        if (!L) return nullptr;
        if (auto *C = dyn_cast<CaseStmt>(L)) return J::Array{"case", expr(C->getLHS())};
        if (isa<DefaultStmt>(L)) return J::Array{"default"};
        if (auto *LS = dyn_cast<LabelStmt>(L)) return J::Array{"label", LS->getName()};
        return nullptr;
    }

    J::Object function(const FunctionDecl *FD, bool withBody) {
        J::Object   f;
        std::string file = fileOf(FD->getLocation());
        f["name"]        = FD->getName().str();
        f["file"]        = file;
        f["line"]        = (int64_t)lineOf(FD->getBeginLoc());
        f["endline"]     = (int64_t)lineOf(FD->getEndLoc());
        f["static"]      = FD->getStorageClass() == SC_Static;
        f["inline"]      = FD->isInlineSpecified();
        f["ret"]         = typeStr(FD->getReturnType());
        bool vis         = false;
        if (auto *VA = FD->getAttr<VisibilityAttr>()) vis = VA->getVisibility() == VisibilityAttr::Default;
        for (const FunctionDecl *R : FD->redecls())
            if (auto *VA = R->getAttr<VisibilityAttr>())
                if (VA->getVisibility() == VisibilityAttr::Default) vis = true;
        f["api"] = vis;
        J::Array ps;
        for (const ParmVarDecl *P : FD->parameters()) ps.push_back(J::Array{P->getName().str(), typeStr(P->getType())});
        f["params"] = std::move(ps);
        if (!withBody || !FD->getBody()) return f;

        ctls.clear();
        stmtCtl.clear();
        curFn = FD;
        walk(FD->getBody(), -1);

        CFG::BuildOptions BO;
        BO.setAllAlwaysAdd();
        BO.PruneTriviallyFalseEdges = true;
        std::unique_ptr<CFG> cfg     = CFG::buildCFG(FD, FD->getBody(), Ctx, BO);
        if (!cfg) {
            f["nocfg"] = true;
            return f;
        }
        ParentMap PM(FD->getBody());
        J::Array  blocks;
        for (const CFGBlock *B : *cfg) {
            J::Object b;
            b["id"] = (int64_t)B->getBlockID();
            J::Array evs;
            for (const CFGElement &El : *B) {
                if (auto SE = El.getAs<CFGStmt>()) emitEvent(SE->getStmt(), PM, evs, file);
            }
            b["ev"] = std::move(evs);
            J::Array succ, slab;
            bool     anyLab = false;
            for (auto I = B->succ_begin(); I != B->succ_end(); ++I) {
                const CFGBlock *S = I->getReachableBlock();
                if (S) {
                    succ.push_back((int64_t)S->getBlockID());
                    J::Value lv = labelOf(S);
                    if (lv != J::Value(nullptr)) anyLab = true;
                    slab.push_back(std::move(lv));
                } else {
                    succ.push_back(nullptr);
                    slab.push_back(nullptr);
                }
            }
            b["succ"] = std::move(succ);
            if (const Stmt *T = B->getTerminatorStmt()) {
                const char *tk = T->getStmtClassName();
                b["tk"]        = tk;
                if (isa<SwitchStmt>(T) && anyLab) b["slab"] = std::move(slab);
                if (const Stmt *C = B->getTerminatorCondition()) {
                    if (auto *CE = dyn_cast<Expr>(C)) b["cond"] = expr(CE);
                }
                b["tl"] = (int64_t)lineOf(T->getBeginLoc());
            }
            if (B->hasNoReturnElement()) b["noret"] = true;
            blocks.push_back(std::move(b));
        }
        f["entry"]  = (int64_t)cfg->getEntry().getBlockID();
        f["exit"]   = (int64_t)cfg->getExit().getBlockID();
        f["blocks"] = std::move(blocks);
        J::Array cs;
        for (auto &c : ctls) cs.push_back(J::Array{c.parent, c.kind, std::move(c.cond), (int64_t)c.line});
        f["ctl"] = std::move(cs);
        return f;
    }

    J::Object record(const RecordDecl *RD) {
        J::Object r;
        r["name"] = recName(RD);
        r["file"] = fileOf(RD->getLocation());
        r["line"] = (int64_t)lineOf(RD->getLocation());
        r["union"] = RD->isUnion();
        J::Array fs;
        for (const FieldDecl *F : RD->fields()) {
            J::Object o;
            o["n"] = F->getName().str();
            o["t"] = typeStr(F->getType());
            QualType T = F->getType();
            J::Array dims;
            while (auto *CAT = Ctx->getAsConstantArrayType(T)) {
                dims.push_back((int64_t)CAT->getSize().getZExtValue());
                T = CAT->getElementType();
            }
            if (!dims.empty()) o["dims"] = std::move(dims);
            if (T->isPointerType()) o["ptr"] = 1;
            if (const RecordType *RT = T->getAs<RecordType>()) o["rec"] = recName(RT->getDecl());
            if (T->isIntegerType() && !T->isEnumeralType()) {
                o["bits"]   = (int64_t)Ctx->getTypeSize(T);
                o["signed"] = T->isSignedIntegerType();
            }
            if (T->isEnumeralType()) o["enum"] = 1;
            o["l"] = (int64_t)lineOf(F->getLocation());
            fs.push_back(std::move(o));
        }
        r["fields"] = std::move(fs);
        return r;
    }

    // ------------------------------------------------------- TU traversal
    std::map<std::string, FileFacts> hdrFacts;
    std::set<std::string>            hdrSkip; // header facts already on disk
    FileFacts                        mainFacts;
    J::Array                         globals;
    J::Array                         fdecls;

    std::string hdrPath(const std::string &f) {
        std::string m = f;
        for (char &c : m)
            if (c == '/') c = '@';
        return HdrDir + "/" + m + ".json";
    }
    bool hdrWanted(const std::string &f) {
        if (HdrDir.empty()) return false;
        if (hdrFacts.count(f)) return true;
        if (hdrSkip.count(f)) return false;
        if (sys::fs::exists(hdrPath(f))) {
            hdrSkip.insert(f);
            return false;
        }
        hdrFacts[f];
        return true;
    }

    void handleDecl(const Decl *D) {
        if (auto *FD = dyn_cast<FunctionDecl>(D)) {
            std::string f = fileOf(FD->getLocation());
            if (!inRepo(f)) return;
            if (FD->doesThisDeclarationHaveABody()) {
                if (inMain(FD->getLocation()))
                    mainFacts.functions.push_back(function(FD, !DeclOnly));
                else if (hdrWanted(f))
                    hdrFacts[f].functions.push_back(function(FD, true));
            } else if (inMain(FD->getLocation()) || true) {
                // declarations: keep API visibility + location (cheap)
                bool vis = false;
                if (auto *VA = FD->getAttr<VisibilityAttr>()) vis = VA->getVisibility() == VisibilityAttr::Default;
                if (vis) fdecls.push_back(J::Array{FD->getName().str(), f, (int64_t)lineOf(FD->getLocation())});
            }
            return;
        }
        if (auto *VD = dyn_cast<VarDecl>(D)) {
            if (!VD->hasGlobalStorage()) return;
            std::string f = fileOf(VD->getLocation());
            if (!inRepo(f)) return;
            bool def = VD->isThisDeclarationADefinition() != VarDecl::DeclarationOnly;
            J::Object g;
            g["name"]   = VD->getName().str();
            g["file"]   = f;
            g["line"]   = (int64_t)lineOf(VD->getLocation());
            g["type"]   = typeStr(VD->getType());
            QualType T  = VD->getType();
            while (auto *AT = Ctx->getAsArrayType(T)) T = AT->getElementType();
            g["const"]  = T.isConstQualified();
            g["static"] = VD->getStorageClass() == SC_Static;
            g["def"]    = def;
            g["init"]   = VD->hasInit();
            g["fnptr"]  = T->isFunctionPointerType();
            if (auto *CAT = Ctx->getAsConstantArrayType(VD->getType())) g["n"] = (int64_t)CAT->getSize().getZExtValue();
            if (VD->hasInit() && T->isFunctionPointerType() == false && VD->getType()->isIntegralOrEnumerationType()) {
                Expr::EvalResult R;
                if (VD->getInit()->EvaluateAsInt(R, *Ctx)) g["val"] = R.Val.getInt().getSExtValue();
            }
            if (VD->hasInit() && inMain(VD->getLocation())) {
                // keep initialisers of small tables and function pointer tables
                g["e"] = expr(VD->getInit());
            }
            if (!def && !inMain(VD->getLocation())) {
                g["extern"] = true;
            }
            // keep: every definition of the main file; header definitions only when mutable
            // (const tables defined in headers are repeated in every unit and never written)
            if (def && (inMain(VD->getLocation()) || !T.isConstQualified())) globals.push_back(std::move(g));
            return;
        }
        if (auto *RD = dyn_cast<RecordDecl>(D)) {
            if (!RD->isCompleteDefinition()) return;
            std::string f = fileOf(RD->getLocation());
            if (!inRepo(f)) return;
            if (inMain(RD->getLocation()))
                mainFacts.records.push_back(record(RD));
            else if (hdrWanted(f))
                hdrFacts[f].records.push_back(record(RD));
            // nested records
            for (const Decl *d : RD->decls())
                if (auto *N = dyn_cast<RecordDecl>(d))
                    if (N != RD) handleDecl(N);
            return;
        }
        if (auto *ED = dyn_cast<EnumDecl>(D)) {
            if (!ED->isCompleteDefinition()) return;
            std::string f = fileOf(ED->getLocation());
            if (!inRepo(f)) return;
            J::Object e;
            std::string n = ED->getName().str();
            if (n.empty())
                if (const TypedefNameDecl *TD = ED->getTypedefNameForAnonDecl()) n = TD->getName().str();
            e["name"] = n;
            e["file"] = f;
            J::Array vs;
            for (const EnumConstantDecl *C : ED->enumerators()) vs.push_back(J::Array{C->getName().str(), C->getInitVal().getSExtValue()});
            e["values"] = std::move(vs);
            if (inMain(ED->getLocation()))
                mainFacts.enums.push_back(std::move(e));
            else if (hdrWanted(f))
                hdrFacts[f].enums.push_back(std::move(e));
            return;
        }
        if (auto *TD = dyn_cast<TypedefNameDecl>(D)) {
            // typedef struct {..} X;  -> the RecordDecl is a separate top-level decl; nothing to do
            (void)TD;
            return;
        }
    }

    // static locals: found through DeclStmt events; also inventory them here
    class StaticLocalFinder : public RecursiveASTVisitor<StaticLocalFinder> {
      public:
        Extractor &X;
        const FunctionDecl *Cur = nullptr;
        explicit StaticLocalFinder(Extractor &x) : X(x) {}
        bool TraverseFunctionDecl(FunctionDecl *FD) {
            const FunctionDecl *old = Cur;
            Cur                     = FD;
            bool r                  = RecursiveASTVisitor::TraverseFunctionDecl(FD);
            Cur                     = old;
            return r;
        }
        bool VisitVarDecl(VarDecl *VD) {
            if (!VD->isStaticLocal() || !Cur) return true;
            std::string f = X.fileOf(VD->getLocation());
            if (!X.inRepo(f)) return true;
            if (!X.inMain(VD->getLocation())) return true; // header static locals: reported via header function events
            J::Object g;
            g["name"]    = VD->getName().str();
            g["file"]    = f;
            g["line"]    = (int64_t)X.lineOf(VD->getLocation());
            g["type"]    = X.typeStr(VD->getType());
            QualType T   = VD->getType();
            while (auto *AT = X.Ctx->getAsArrayType(T)) T = AT->getElementType();
            g["const"]   = T.isConstQualified();
            g["static"]  = true;
            g["def"]     = true;
            g["init"]    = VD->hasInit();
            g["fnptr"]   = T->isFunctionPointerType();
            g["infn"]    = Cur->getName().str();
            X.globals.push_back(std::move(g));
            return true;
        }
    };

    void HandleTranslationUnit(ASTContext &C) override {
        Ctx = &C;
        SM  = &C.getSourceManager();
        if (C.getDiagnostics().hasErrorOccurred()) {
            errs() << "svtfacts: parse errors, no output\n";
            return;
        }
        if (const FileEntry *FE0 = SM->getFileEntryForID(SM->getMainFileID()))
            if (FE0->getName().contains("/App/")) InitCap = 800;
        for (const Decl *D : C.getTranslationUnitDecl()->decls()) handleDecl(D);
        StaticLocalFinder SLF(*this);
        SLF.TraverseDecl(C.getTranslationUnitDecl());

        // macros: distribute
        std::string mainFile;
        if (const FileEntry *FE = SM->getFileEntryForID(SM->getMainFileID())) mainFile = FE->getName().str();
        for (auto &m : Macros) {
            J::Array args;
            for (auto &a : m.args) args.push_back(a);
            J::Array rec{(int64_t)m.line, (int64_t)m.col, m.name, std::move(args)};
            if (m.file == mainFile || StringRef(m.file).endswith(StringRef(mainFile).rsplit('/').second) && m.file == mainFile)
                mainFacts.macros.push_back(std::move(rec));
            else {
                auto it = hdrFacts.find(m.file);
                if (it != hdrFacts.end()) it->second.macros.push_back(std::move(rec));
            }
        }

        // included repo files (for cache dependencies)
        J::Array incs;
        for (auto it = SM->fileinfo_begin(); it != SM->fileinfo_end(); ++it) {
            std::string n = it->first->getName().str();
            if (inRepo(n)) incs.push_back(n);
        }

        J::Object out;
        out["unit"]      = mainFile;
        out["functions"] = std::move(mainFacts.functions);
        out["records"]   = std::move(mainFacts.records);
        out["enums"]     = std::move(mainFacts.enums);
        out["macros"]    = std::move(mainFacts.macros);
        out["globals"]   = std::move(globals);
        out["apidecls"]  = std::move(fdecls);
        out["includes"]  = std::move(incs);
        out["declonly"]  = (bool)DeclOnly;
        {
            std::error_code EC;
            raw_fd_ostream  os(OutFile + ".tmp", EC);
            if (EC) {
                errs() << "cannot write " << OutFile << "\n";
                return;
            }
            os << J::Value(std::move(out));
            os.close();
            sys::fs::rename(OutFile + ".tmp", OutFile);
        }
        for (auto &kv : hdrFacts) {
            std::string p = hdrPath(kv.first);
            if (sys::fs::exists(p)) continue;
            J::Object h;
            h["file"]      = kv.first;
            h["functions"] = std::move(kv.second.functions);
            h["records"]   = std::move(kv.second.records);
            h["enums"]     = std::move(kv.second.enums);
            h["macros"]    = std::move(kv.second.macros);
            std::string tmp = p + "." + std::to_string((long)getpid()) + ".tmp";
            std::error_code EC;
            raw_fd_ostream  os(tmp, EC);
            if (EC) continue;
            os << J::Value(std::move(h));
            os.close();
            sys::fs::rename(tmp, p);
        }
    }

  private:
    CompilerInstance      &CI;
    std::vector<MacroInv> &Macros;
};

class Action : public ASTFrontendAction {
  public:
    std::vector<MacroInv> Macros;
    std::unique_ptr<ASTConsumer> CreateASTConsumer(CompilerInstance &CI, StringRef) override {
        CI.getPreprocessor().addPPCallbacks(std::make_unique<PPRec>(CI.getPreprocessor(), Macros));
        return std::make_unique<Extractor>(CI, Macros);
    }
};

} // namespace

int main(int argc, const char **argv) {
    auto Opts = tooling::CommonOptionsParser::create(argc, argv, Cat);
    if (!Opts) {
        errs() << toString(Opts.takeError()) << "\n";
        return 2;
    }
    tooling::ClangTool Tool(Opts->getCompilations(), Opts->getSourcePathList());
    int                rc = Tool.run(tooling::newFrontendActionFactory<Action>().get());
    return rc ? 2 : 0;
}
