"""Thorough tier: (1) re-run the rule on alternative build configurations, (2) self-test the rule against seeded mutants.

Mutants are 1-10 line textual edits (selftest/mutants.json) or the confirmed sub-agent patches under seeded/<id>/patch.diff.
Each is applied to a scratch git worktree of /repo HEAD created under a mktemp directory (outside /repo and /verif), the
rule is run on that tree in a subprocess (SVT_REPO / SVT_CACHE point at the scratch tree and a scratch fact cache), and the
worktree and cache are removed at the end.  A mutant counts as caught when the run reports a violation that the unchanged tree
does not report.  Missed mutants are listed in the evidence; they never turn a pass into a fail (the property verdict is about
/repo), but a rule that catches none of its mutants is reported as analysis-broken."""
import json, os, shutil, subprocess, sys, tempfile

from .compdb import VERIF

MUTANTS = os.path.join(VERIF, 'selftest', 'mutants.json')


def _run_check(pid, repo, cache, config=None):
    env = dict(os.environ, SVT_REPO=repo, SVT_CACHE=cache, VERIF_EVID_DIR=os.path.join(cache, 'evid'), VERIF_TIER='quick')
    env.pop('VERIF_ALT_CONFIG', None)
    if config:
        env['VERIF_ALT_CONFIG'] = config  # the mutated code is only parsed in that alternative configuration
    r = subprocess.run([sys.executable, os.path.join(VERIF, 'check'), pid, '--tier', 'quick'], capture_output=True, text=True, env=env)
    viol = [l[11:].split(' at ', 1)[0] for l in r.stdout.splitlines() if l.startswith('violation:')]
    return r.returncode, viol, r.stdout[-1500:] + r.stderr[-500:]


def run_mutants(pid, note=print):
    muts = [m for m in json.load(open(MUTANTS))['mutants'] if m['property'] == pid]
    seeds = sorted(d for d in os.listdir(os.path.join(VERIF, 'seeded')) if d.startswith(pid + '-')) if os.path.isdir(os.path.join(VERIF, 'seeded')) else []
    if not muts and not seeds:
        return []
    tmp = tempfile.mkdtemp(prefix='svt_selftest_')
    wt = os.path.join(tmp, 'wt')
    cache = os.path.join(tmp, 'cache')
    os.makedirs(cache)
    for f in ('svtfacts', 'svtfacts.srchash'):
        p = os.path.join(VERIF, '.cache', f)
        if os.path.exists(p):
            shutil.copy2(p, os.path.join(cache, f))
    results = []
    try:
        subprocess.check_call(['git', '-C', '/repo', 'worktree', 'add', '--detach', wt, 'HEAD'], stdout=subprocess.DEVNULL, stderr=subprocess.DEVNULL)
        rc0, base, out0 = _run_check(pid, wt, cache)
        base = {None: set(base)}
        for m in muts:
            cfg = m.get('config')
            if cfg not in base:
                base[cfg] = set(_run_check(pid, wt, cache, cfg)[1])
            p = os.path.join(wt, m['file'])
            src = open(p).read()
            if src.count(m['old']) != 1:
                results.append({'mutant': m['id'], 'status': 'not-applicable', 'why': 'site matches %d times in the current tree' % src.count(m['old'])})
                continue
            open(p, 'w').write(src.replace(m['old'], m['new']))
            try:
                rc, viol, out = _run_check(pid, wt, cache, cfg)
            finally:
                subprocess.run(['git', '-C', wt, 'checkout', '-q', '--', '.'])
            new = [v for v in viol if v not in base[cfg]]
            results.append({'mutant': m['id'], 'what': m.get('what', ''), 'status': 'caught' if new else ('analysis-broken' if rc == 2 else 'missed'),
                            'reported': new[:3]})
        for s in seeds:
            patch = os.path.join(VERIF, 'seeded', s, 'patch.diff')
            if subprocess.run(['git', '-C', wt, 'apply', '--check', patch], capture_output=True).returncode:
                results.append({'mutant': 'seeded/' + s, 'status': 'not-applicable', 'why': 'patch was written against an earlier /repo commit and no longer applies (see its meta.json)'})
                continue
            subprocess.check_call(['git', '-C', wt, 'apply', patch])
            try:
                rc, viol, out = _run_check(pid, wt, cache)
            finally:
                subprocess.run(['git', '-C', wt, 'checkout', '-q', '--', '.'])
                subprocess.run(['git', '-C', wt, 'clean', '-fdq'])
            new = [v for v in viol if v not in base[None]]
            results.append({'mutant': 'seeded/' + s, 'status': 'caught' if new else ('analysis-broken' if rc == 2 else 'missed'), 'reported': new[:3]})
    finally:
        subprocess.run(['git', '-C', '/repo', 'worktree', 'remove', '--force', wt], stdout=subprocess.DEVNULL, stderr=subprocess.DEVNULL)
        shutil.rmtree(tmp, ignore_errors=True)
    return results
