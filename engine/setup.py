"""setup_cmd: build the extractor (one clang++ invocation, offline) and warm the fact cache."""
import sys, time
from . import compdb, facts

if __name__ == '__main__':
    t = time.time()
    compdb.build_extractor()
    P = facts.load('prod', verbose=True)
    print('setup: extractor built, %d units / %d functions extracted in %.1fs' % (len(P.units), len(P.fns), time.time() - t))
