"""A1: reachability classes of functions (from the call graph, never from file names)."""
from .compdb import AnalysisBroken

ENC_INIT_API = ['svt_av1_enc_init_handle', 'svt_av1_enc_set_parameter', 'svt_av1_enc_init']
DEC_INIT_API = ['svt_av1_dec_init_handle', 'svt_av1_dec_set_parameter', 'svt_av1_dec_init']
ENC_RUN_API = ['svt_av1_enc_send_picture', 'svt_av1_enc_get_packet', 'svt_av1_enc_release_out_buffer', 'svt_av1_get_recon',
               'svt_av1_enc_stream_header', 'svt_av1_enc_stream_header_release', 'svt_av1_enc_get_stream_info', 'svt_av1_enc_eos_nal']
DEC_RUN_API = ['svt_av1_dec_frame', 'svt_av1_dec_get_picture', 'svt_get_sequence_info']
ENC_DEINIT_API = ['svt_av1_enc_deinit', 'svt_av1_enc_deinit_handle']
DEC_DEINIT_API = ['svt_av1_dec_deinit', 'svt_av1_dec_deinit_handle']


class Classes:
    def __init__(self, P):
        self.P = P
        te = P.thread_entries()
        if len(te) < 10:
            raise AnalysisBroken('only %d thread entry points found' % len(te))
        self.thread_entry_names = te
        self.thread_fns = [P.fn(n) for n in sorted(te)]
        self.kernel = P.reachable_from(self.thread_fns)
        g = lambda names: [P.fn(n) for n in names]
        self.run_api = P.reachable_from(g(ENC_RUN_API + DEC_RUN_API))
        self.init = P.reachable_from(g(ENC_INIT_API + DEC_INIT_API))
        self.deinit = P.reachable_from(g(ENC_DEINIT_API + DEC_DEINIT_API))
        self.init_only = self.init - self.kernel - self.run_api
        self.dctor_only = self.deinit - self.kernel - self.run_api - self.init
        self.runtime = self.kernel | self.run_api
        allreach = self.kernel | self.run_api | self.init | self.deinit
        self.dead = {f for f in P.fns if f not in allreach}
        # per-kernel reachability (which thread entries reach a function)
        self._by_entry = {f.name: P.reachable_from([f]) for f in self.thread_fns}

    def entries_reaching(self, fn):
        return sorted(n for n, s in self._by_entry.items() if fn in s)

    def cls(self, fn):
        if fn in self.kernel:
            return 'KERNEL'
        if fn in self.run_api:
            return 'API'
        if fn in self.init:
            return 'INIT_ONLY'
        if fn in self.deinit:
            return 'DCTOR'
        return 'DEAD'

    def single_threaded(self, fn):
        """Runs only before the pipeline threads exist or after they are joined."""
        return fn in self.init_only or fn in self.dctor_only
