"""A2: lockset dataflow over the event-CFG.

Lock identity  = canonical access path of the argument of svt_block_on_mutex/svt_release_mutex
                 (single-assignment local aliases substituted).
Lock class     = Struct.field of the mutex member (or the global's name).
State          = (must-held frozenset, may-held frozenset) of identities.
Lock wrappers  : a function whose every exit leaves `param#i->..` acquired (released) is summarised as an
                 acquire (release) of the actual path at its call sites.
"""
from .facts import pstr, strip, callee_name, last_field, root_of, subexprs

ACQ = 'svt_block_on_mutex'
REL = 'svt_release_mutex'


def lock_class(e):
    e = strip(e)
    lf = last_field(e)
    if lf:
        return lf
    r = root_of(e)
    return 'global:' + r[1] if r is not None else pstr(e)


def single_assign_aliases(fn, arith=False):
    """local -> tree, for locals assigned exactly once (decl init or one store) from a side-effect-free path
    (with arith=True also from pure arithmetic over such paths)."""
    cnt, val = {}, {}
    for ev in fn.events(('decl', 'st')):
        e = ev.get('e')
        if ev['k'] == 'decl':
            n = ev['n']
            if e is not None:
                cnt[n] = cnt.get(n, 0) + 1
                val[n] = e
        else:
            if e[0] == 'a':
                l = strip(e[2])
                r0 = strip(e[3])
                if l and l[0] == 'v' and l[2] == 'l' and e[1] == '=' and r0 and r0[0] == 'l' and r0[1] == 0 and ev.get('mx'):
                    continue    # `p = NULL` at the end of a release macro (EB_FREE & co.): not a re-definition of the alias
                if l and l[0] == 'v' and l[2] == 'l':
                    cnt[l[1]] = cnt.get(l[1], 0) + 1
                    val[l[1]] = e[3] if e[1] == '=' else None
            elif e[0] == 'u':
                l = strip(e[2])
                if l and l[0] == 'v' and l[2] == 'l':
                    cnt[l[1]] = cnt.get(l[1], 0) + 2
    # address-taken locals may be written through pointers
    addr = set()
    for ev in fn.events(('call', 'st', 'decl')):
        e = ev.get('e')
        if e is None:
            continue
        for x in subexprs(e):
            if x[0] == 'u' and x[1] == '&':
                r = strip(x[2])
                if r and r[0] == 'v':
                    addr.add(r[1])
    out = {}
    for n, c in cnt.items():
        if c == 1 and val.get(n) is not None and n not in addr:
            v = strip(val[n])
            if v and v[0] in ('m', 'v', 'i') or (v and v[0] == 'u' and v[1] in ('*', '&')) or (arith and v and v[0] == 'b'):
                if not any(x[0] in ('c', 'a') or (x[0] == 'u' and x[1] in ('x++', 'x--', '++x', '--x')) for x in subexprs(v)):
                    out[n] = v
    return out


def subst(e, aliases, depth=0):
    """Substitute single-assignment local aliases inside an access path."""
    if not isinstance(e, list) or not e or depth > 6:
        return e
    k = e[0]
    if k == 'v' and e[2] == 'l' and e[1] in aliases:
        return subst(aliases[e[1]], aliases, depth + 1)
    if k == 'm':
        return ['m', e[1], e[2], subst(e[3], aliases, depth)]
    if k == 'i':
        return ['i', subst(e[1], aliases, depth), subst(e[2], aliases, depth)]
    if k in ('u',):
        return ['u', e[1], subst(e[2], aliases, depth)]
    if k == 'k':
        return subst(e[2], aliases, depth)
    if k == 'b':
        return ['b', e[1], subst(e[2], aliases, depth), subst(e[3], aliases, depth)]
    return e


class LockAnalysis:
    def __init__(self, P, acq=(ACQ,), rel=(REL,)):
        self.P = P
        self.acq = set(acq)
        self.rel = set(rel)
        self.wrappers = {}       # fn name -> ('acq'|'rel', param index, suffix tree builder)
        self._cache = {}

    # ---- per function
    def lock_events(self, fn):
        """[(ev, 'acq'|'rel', identity string, class, tree)] in fn."""
        al = single_assign_aliases(fn)
        out = []
        for ev, n in fn.calls():
            if n in self.acq or n in self.rel:
                if not ev['e'][2]:
                    continue
                a = subst(strip(ev['e'][2][0]), al)
                out.append((ev, 'acq' if n in self.acq else 'rel', pstr(a), lock_class(a), a))
        return out

    def analyse(self, fn):
        """Returns dict: ins/outs states, events list, exits [(block, state)], double acquires."""
        if fn.key in self._cache:
            return self._cache[fn.key]
        evs = self.lock_events(fn)
        evmap = {id(ev): (kind, ident, cls) for ev, kind, ident, cls, _ in evs}
        doubles = []

        def transfer(ev, st):
            x = evmap.get(id(ev))
            if x is None:
                return st
            must, may = st
            kind, ident, cls = x
            if kind == 'acq':
                return (must | {ident}, may | {ident})
            return (must - {ident}, may - {ident})

        def meet(a, b):
            return (a[0] & b[0], a[1] | b[1])

        init = (frozenset(), frozenset())
        ins, outs = ({}, {})
        if evs:
            ins, outs = fn.forward(init, transfer, None, meet)
            # double acquire: acquire of an identity that may already be held
            for ev, kind, ident, cls, _ in evs:
                if kind == 'acq':
                    st = fn.state_at(ins, transfer, ev)
                    if st is not None and ident in st[1]:
                        doubles.append((ev, ident))
        res = {'events': evs, 'ins': ins, 'outs': outs, 'transfer': transfer, 'doubles': doubles}
        self._cache[fn.key] = res
        return res

    def held_at(self, fn, ev):
        """(must, may) held just before ev (intra-procedural)."""
        a = self.analyse(fn)
        if not a['events']:
            return (frozenset(), frozenset())
        st = fn.state_at(a['ins'], a['transfer'], ev)
        return st if st is not None else (frozenset(), frozenset())

    def exit_states(self, fn):
        """[(ret_ev_or_None, block, (must, may))] for every path end (return statements / fallthrough to exit)."""
        a = self.analyse(fn)
        out = []
        if not a['events']:
            return out
        for bid in fn.reach():
            b = fn.blocks[bid]
            if fn.exit in [s for s in b['succ'] if s is not None]:
                st = a['outs'].get(bid)
                if st is None:
                    continue
                rets = [e for e in b['ev'] if e['k'] == 'ret']
                out.append((rets[-1] if rets else None, bid, st))
        return out

    def unreleased(self, fn):
        """[(ident, class, exit where, acquire ev)] locks that may be held at a function exit."""
        a = self.analyse(fn)
        out = []
        acq_ev = {}
        for ev, kind, ident, cls, _ in a['events']:
            if kind == 'acq':
                acq_ev.setdefault(ident, (ev, cls))
        for ret, bid, (must, may) in self.exit_states(fn):
            for ident in sorted(may):
                ev, cls = acq_ev.get(ident, (None, '?'))
                out.append((ident, cls, ret, bid, ev))
        return out

    # ---- interprocedural (lock classes)
    def held_classes_at(self, fn, ev):
        a = self.analyse(fn)
        if not a['events']:
            return (frozenset(), frozenset())
        cls = {ident: c for _, _, ident, c, _ in a['events']}
        must, may = self.held_at(fn, ev)
        return (frozenset(cls[i] for i in must), frozenset(cls[i] for i in may))

    def entry_classes(self, exclude=frozenset()):
        """(must, may): {Fn: frozenset(lock classes held at entry)}.  must = intersection over call sites of
        (held at site + caller's entry); may = union.  Callers in `exclude` (single-threaded init/dctor code) are
        ignored for callees that also have other callers."""
        P = self.P
        sites = {}   # callee -> [(caller, ev)]
        for f in P.fns:
            for ev in f.events(('call',)):
                for t in P.call_targets(f, ev):
                    sites.setdefault(t, []).append((f, ev))
        TOP = None
        must = {}
        may = {}
        for f in P.fns:
            ss = sites.get(f, [])
            inc = [s for s in ss if s[0] not in exclude]
            if not inc:
                must[f] = frozenset(); may[f] = frozenset()
            else:
                must[f] = TOP; may[f] = frozenset()
        changed = True
        it = 0
        while changed and it < 50:
            changed = False
            it += 1
            for f in P.fns:
                ss = [s for s in sites.get(f, []) if s[0] not in exclude]
                if not ss:
                    continue
                nm = TOP
                ny = set()
                for c, ev in ss:
                    hm, hy = self.held_classes_at(c, ev)
                    cm = must.get(c)
                    ny |= hy | may.get(c, frozenset())
                    if cm is TOP:
                        continue      # unknown caller state does not constrain the intersection yet
                    s = hm | cm
                    nm = s if nm is TOP else (nm & s)
                ny = frozenset(ny)
                if nm is not TOP and nm != must[f]:
                    must[f] = nm; changed = True
                if ny != may[f]:
                    may[f] = ny; changed = True
        for f in P.fns:
            if must[f] is TOP:
                must[f] = frozenset()
        self._sites = sites
        return must, may

    def order_edges(self, may_entry):
        """{(classA, classB): (Fn, ev)}: class A (may be) held while class B is acquired."""
        edges = {}
        for f in self.P.fns:
            a = self.analyse(f)
            for ev, kind, ident, cls, _ in a['events']:
                if kind != 'acq':
                    continue
                _, hy = self.held_classes_at(f, ev)
                for h in hy | may_entry.get(f, frozenset()):
                    edges.setdefault((h, cls), (f, ev))
        return edges

    def unmatched_release(self, fn):
        """Releases of an identity that is not must-held (and has an acquire of a different identity in the
        same function with the same class) -> identity mismatch candidates."""
        a = self.analyse(fn)
        out = []
        for ev, kind, ident, cls, _ in a['events']:
            if kind == 'rel':
                st = fn.state_at(a['ins'], a['transfer'], ev)
                if st is not None and ident not in st[1]:
                    out.append((ev, ident, cls))
        return out
