"""Fact loading and the shared analyses (call graph, CFG dominance, dataflow helpers)."""
import json, os, pickle, sys, time, hashlib
from collections import defaultdict, deque

from . import compdb
from .compdb import AnalysisBroken, REPO

# ----------------------------------------------------------------------------- expression helpers


def strip(e):
    """Drop explicit casts."""
    while e and e[0] == 'k':
        e = e[2]
    return e


def pstr(e):
    """Canonical spelling of an expression tree (casts dropped)."""
    if e is None:
        return '<none>'
    k = e[0]
    if k == 'l':
        return str(e[1])
    if k == 'v' or k == 'f':
        return e[1]
    if k == 'm':
        b = pstr(e[3])
        if e[3] and e[3][0] in ('u', 'b', 'q', 'a'):
            b = '(' + b + ')'
        return b + ('->' if e[2] else '.') + e[1].split('.', 1)[1]
    if k == 'i':
        return pstr(e[1]) + '[' + pstr(e[2]) + ']'
    if k == 'u':
        op = e[1]
        s = pstr(e[2])
        if e[2] and e[2][0] in ('b', 'q', 'a'):
            s = '(' + s + ')'
        if op in ('x++', 'x--'):
            return s + op[1:]
        if op in ('++x', '--x'):
            return op[:2] + s
        return op + s
    if k in ('b', 'a'):
        return '(' + pstr(e[2]) + ' ' + e[1] + ' ' + pstr(e[3]) + ')'
    if k == 'q':
        return '(' + pstr(e[1]) + ' ? ' + pstr(e[2]) + ' : ' + pstr(e[3]) + ')'
    if k == 'c':
        return pstr(e[1]) + '(' + ', '.join(pstr(a) for a in e[2]) + ')'
    if k == 'k':
        return pstr(e[2])
    if k == 's':
        return json.dumps(e[1])
    if k == 'il':
        return '{' + ', '.join(pstr(a) for a in e[1]) + '}'
    if k == 'fl':
        return e[1]
    return '<' + str(e[1]) + '>'


def ptext(e):
    """Like pstr but integer constants keep their source spelling (macro / enumerator names)."""
    if e is None:
        return '<none>'
    if e[0] == 'l':
        return e[2] if len(e) > 2 and e[2] else str(e[1])
    return pstr(e)


def subexprs(e):
    """All sub-trees, pre-order."""
    if not isinstance(e, list) or not e:
        return
    stack = [e]
    while stack:
        x = stack.pop()
        if not isinstance(x, list) or not x or not isinstance(x[0], str):
            continue
        yield x
        k = x[0]
        if k == 'm':
            stack.append(x[3])
        elif k == 'i':
            stack.append(x[2]); stack.append(x[1])
        elif k == 'u' or k == 'k':
            stack.append(x[2])
        elif k in ('b', 'a'):
            stack.append(x[3]); stack.append(x[2])
        elif k == 'q':
            stack.append(x[3]); stack.append(x[2]); stack.append(x[1])
        elif k == 'c':
            for a in reversed(x[2]):
                stack.append(a)
            stack.append(x[1])
        elif k == 'il':
            for a in reversed(x[1]):
                stack.append(a)


def fields_in(e):
    return {x[1] for x in subexprs(e) if x[0] == 'm'}


def vars_in(e):
    return {(x[1], x[2]) for x in subexprs(e) if x[0] == 'v'}


def funcs_in(e):
    return {x[1] for x in subexprs(e) if x[0] == 'f'}


def root_of(e):
    """Root variable tree of an access path (through ->, ., [], *, &, casts), or None."""
    while e:
        k = e[0]
        if k == 'v':
            return e
        if k == 'm':
            e = e[3]
        elif k == 'i':
            e = e[1]
        elif k == 'u' and e[1] in ('*', '&'):
            e = e[2]
        elif k == 'k':
            e = e[2]
        elif k == 'b' and e[1] in ('+', '-'):
            e = e[2]
        else:
            return None
    return None


def last_field(e):
    e = strip(e)
    while e:
        if e[0] == 'm':
            return e[1]
        if e[0] == 'i':
            e = strip(e[1])
        elif e[0] == 'u' and e[1] in ('*', '&'):
            e = strip(e[2])
        else:
            return None
    return None


def is_lit(e, v=None):
    e = strip(e)
    return bool(e) and e[0] == 'l' and (v is None or e[1] == v)


def callee_name(e):
    """Direct callee name of a call tree, else None."""
    c = strip(e[1])
    if c and c[0] == 'f':
        return c[1]
    if c and c[0] == 'u' and c[1] in ('*', '&'):
        c2 = strip(c[2])
        if c2 and c2[0] == 'f':
            return c2[1]
    return None


# ----------------------------------------------------------------------------- program model


class Fn:
    __slots__ = ('name', 'file', 'line', 'endline', 'static', 'api', 'ret', 'params', 'blocks', 'entry', 'exit',
                 'ctl', 'unit', 'lib', 'sub', 'inline', 'hdr', '_reach', '_idom', '_ipdom', '_preds', 'key', 'nocfg')

    def __init__(self, d, unit, lib, sub, hdr=False):
        self.name = d['name']; self.file = d['file']; self.line = d['line']; self.endline = d['endline']
        self.static = d['static']; self.api = d.get('api', False); self.ret = d['ret']; self.params = d['params']
        self.inline = d.get('inline', False)
        self.unit = unit; self.lib = lib; self.sub = sub; self.hdr = hdr
        self.key = (self.file, self.name)
        self.nocfg = 'blocks' not in d
        self.blocks = {}
        for b in d.get('blocks', []):
            for i, ev in enumerate(b['ev']):
                ev['b'] = b['id']; ev['x'] = i
            # clang reports the *whole* condition of an if/while/for terminator (and the whole LHS of a
            # logical-operator terminator) even though this block evaluates only its last operand: the
            # value that actually decides this block's branch is the rightmost leaf of the &&/|| tree.
            c = b.get('cond')
            if c is not None:
                b['fullcond'] = c
                while c and c[0] == 'b' and c[1] in ('&&', '||'):
                    c = c[3]
                b['cond'] = c
            self.blocks[b['id']] = b
        self.entry = d.get('entry'); self.exit = d.get('exit')
        self.ctl = d.get('ctl', [])
        self._reach = None; self._idom = None; self._ipdom = None; self._preds = None

    def __repr__(self):
        return '<Fn %s %s:%d>' % (self.name, os.path.basename(self.file), self.line)

    def loc(self, ev=None):
        if ev is None:
            return '%s:%d' % (os.path.relpath(self.file, REPO), self.line)
        return '%s:%d' % (os.path.relpath(ev.get('f', self.file), REPO), ev['l'])

    # --- CFG
    def reach(self):
        if self._reach is None:
            seen = set()
            if self.entry is not None:
                st = [self.entry]
                while st:
                    b = st.pop()
                    if b in seen:
                        continue
                    seen.add(b)
                    for s in self.blocks[b]['succ']:
                        if s is not None and s not in seen:
                            st.append(s)
            self._reach = seen
        return self._reach

    def preds(self):
        if self._preds is None:
            p = defaultdict(list)
            for b in self.reach():
                for s in self.blocks[b]['succ']:
                    if s is not None:
                        p[s].append(b)
            self._preds = p
        return self._preds

    def events(self, kinds=None, reachable=True):
        r = self.reach() if reachable else self.blocks.keys()
        for bid in sorted(r, reverse=True):
            for ev in self.blocks[bid]['ev']:
                if kinds is None or ev['k'] in kinds:
                    yield ev

    def calls(self, name=None):
        for ev in self.events(('call',)):
            n = callee_name(ev['e'])
            if name is None or n == name or (isinstance(name, (set, frozenset, tuple, list)) and n in name):
                yield ev, n

    def _dom(self, forward=True):
        """Immediate dominators (Cooper-Harvey-Kennedy) on reachable blocks."""
        reach = self.reach()
        if forward:
            start = self.entry
            succ = lambda b: [s for s in self.blocks[b]['succ'] if s is not None and s in reach]
            preds = self.preds()
            pred = lambda b: preds.get(b, [])
        else:
            start = self.exit
            preds = self.preds()
            succ = lambda b: preds.get(b, [])
            pred = lambda b: [s for s in self.blocks[b]['succ'] if s is not None and s in reach]
        order = []
        seen = set()
        st = [(start, iter(succ(start)))]
        seen.add(start)
        while st:
            b, it = st[-1]
            adv = False
            for s in it:
                if s not in seen:
                    seen.add(s)
                    st.append((s, iter(succ(s))))
                    adv = True
                    break
            if not adv:
                order.append(b)
                st.pop()
        rpo = list(reversed(order))
        num = {b: i for i, b in enumerate(rpo)}
        idom = {start: start}
        changed = True
        while changed:
            changed = False
            for b in rpo[1:]:
                new = None
                for p in pred(b):
                    if p in idom:
                        if new is None:
                            new = p
                        else:
                            a, c = p, new
                            while a != c:
                                while num[a] > num[c]:
                                    a = idom[a]
                                while num[c] > num[a]:
                                    c = idom[c]
                            new = a
                if new is not None and idom.get(b) != new:
                    idom[b] = new
                    changed = True
        return idom

    def idom(self):
        if self._idom is None:
            self._idom = self._dom(True)
        return self._idom

    def ipdom(self):
        if self._ipdom is None:
            self._ipdom = self._dom(False)
        return self._ipdom

    def block_dominates(self, a, b):
        idom = self.idom()
        if b not in idom:
            return False
        while True:
            if a == b:
                return True
            n = idom.get(b)
            if n is None or n == b:
                return False
            b = n

    def block_postdominates(self, a, b):
        """a post-dominates b (w.r.t. the function exit; blocks that cannot reach exit are not post-dominated)."""
        ip = self.ipdom()
        if b not in ip:
            return False
        while True:
            if a == b:
                return True
            n = ip.get(b)
            if n is None or n == b:
                return False
            b = n

    def ev_dominates(self, a, b):
        if a['b'] == b['b']:
            return a['x'] < b['x']
        return self.block_dominates(a['b'], b['b'])

    def ev_postdominates(self, a, b):
        if a['b'] == b['b']:
            return a['x'] > b['x']
        return self.block_postdominates(a['b'], b['b'])

    def ctl_chain(self, ev):
        """[(kind, cond, line)] from innermost to outermost structured control context."""
        out = []
        c = ev.get('ctl', -1)
        while c is not None and c >= 0:
            p, kind, cond, line = self.ctl[c]
            out.append((kind, cond, line))
            c = p
        return out

    def forward(self, init, transfer, edge=None, meet=None, top=None):
        """Forward dataflow on reachable blocks.  State values must be hashable/comparable.
        transfer(ev, state) -> state ; edge(block, succ_index, state) -> state ; meet(a,b) -> state.
        Returns (in_states, out_states) per block id; `top` is the state of not-yet-visited blocks."""
        reach = self.reach()
        ins = {self.entry: init}
        outs = {}
        work = deque([self.entry])
        inq = {self.entry}
        while work:
            b = work.popleft()
            inq.discard(b)
            st = ins[b]
            for ev in self.blocks[b]['ev']:
                st = transfer(ev, st)
            outs[b] = st
            blk = self.blocks[b]
            for i, s in enumerate(blk['succ']):
                if s is None or s not in reach:
                    continue
                st2 = edge(blk, i, st) if edge else st
                if s in ins:
                    new = meet(ins[s], st2)
                else:
                    new = st2
                if s not in ins or new != ins[s]:
                    ins[s] = new
                    if s not in inq:
                        work.append(s); inq.add(s)
        return ins, outs

    def state_at(self, ins, transfer, ev):
        """Dataflow state just before `ev`, given the in-states of `forward`."""
        st = ins.get(ev['b'])
        if st is None:
            return None
        for e2 in self.blocks[ev['b']]['ev']:
            if e2 is ev:
                return st
            st = transfer(e2, st)
        return st


class Program:
    def __init__(self):
        self.fns = []                 # all Fn with bodies
        self.by_name = defaultdict(list)
        self.records = {}             # name -> record dict
        self.enums = {}
        self.globals = []             # dicts
        self.macros = defaultdict(list)  # file -> [(line,col,name,args)]
        self.units = []               # index entries
        self.apidecls = {}
        self.n_compdb = 0
        self._cg = None
        self._callers = None
        self._fp = None

    # --- lookup
    def fn(self, name, file_hint=None, required=True):
        c = self.by_name.get(name, [])
        if file_hint:
            c2 = [f for f in c if f.file.endswith(file_hint)]
            if c2:
                c = c2
        if not c:
            if required:
                raise AnalysisBroken('anchor function %s not found' % name)
            return None
        # prefer non-header, non-static
        c = sorted(c, key=lambda f: (f.hdr, f.static, f.file))
        return c[0]

    def record(self, name):
        r = self.records.get(name)
        if r is None:
            raise AnalysisBroken('anchor struct %s not found' % name)
        return r

    def resolve(self, name, frm=None):
        """Functions a direct call to `name` from function `frm` may reach."""
        c = self.by_name.get(name, [])
        if len(c) <= 1:
            return c
        if frm is not None:
            same = [f for f in c if f.file == frm.file]
            if same:
                return same
            nonstatic = [f for f in c if not f.static]
            if nonstatic:
                # prefer same library
                sl = [f for f in nonstatic if f.lib == frm.lib] or [f for f in nonstatic if f.lib == 'Common']
                return sl or nonstatic
        return c

    # --- function-pointer flow (field / global / parameter slots)
    def fp_facts(self):
        if self._fp is not None:
            return self._fp
        field = defaultdict(set)    # 'Rec.field' -> {fn names}
        glob = defaultdict(set)     # global var -> {fn names}
        argpos = defaultdict(set)   # (callee name, i) -> {fn names}
        for f in self.fns:
            for ev in f.events(('st', 'call', 'decl')):
                e = ev.get('e')
                if not e:
                    continue
                if ev['k'] == 'st' and e[0] == 'a':
                    fs = funcs_in(e[3])
                    rhs = strip(e[3])
                    if fs and rhs and (rhs[0] == 'f' or (rhs[0] in ('u', 'q'))):
                        lhs = strip(e[2])
                        lf = last_field(lhs)
                        if lf:
                            field[lf] |= fs
                        else:
                            r = root_of(lhs)
                            if r is not None and r[2] in ('g', 's'):
                                glob[r[1]] |= fs
                    elif rhs and rhs[0] == 'v' and rhs[2].startswith('p') and ev.get('pt'):
                        # a (function-pointer) parameter saved into a member: resolved through the callers' arguments
                        lf = last_field(strip(e[2]))
                        pi = int(rhs[2][1:])
                        if lf:
                            field[lf].add(('param', f.name, pi))
                elif ev['k'] == 'call':
                    n = callee_name(e)
                    if n:
                        for i, a in enumerate(e[2]):
                            a = strip(a)
                            if a and a[0] == 'f':
                                argpos[(n, i)].add(a[1])
                            elif a and a[0] == 'u' and a[1] == '&' and strip(a[2]) and strip(a[2])[0] == 'f':
                                argpos[(n, i)].add(strip(a[2])[1])
                            elif a and a[0] == 'v' and a[2].startswith('p'):
                                # a parameter forwarded as an argument: resolved transitively (marker entry)
                                argpos[(n, i)].add(('param', f.name, int(a[2][1:])))
                            elif a and a[0] == 'm':
                                # a function-pointer member forwarded as an argument
                                argpos[(n, i)].add(('field', a[1]))
        for g in self.globals:
            e = g.get('e')
            if e and g.get('fnptr') or (e and e[0] == 'il'):
                fs = funcs_in(e)
                if fs:
                    glob[g['name']] |= fs
        self._fp = (field, glob, argpos)
        return self._fp

    def indirect_targets(self, f, ctree):
        field, glob, argpos = self.fp_facts()
        c = strip(ctree)
        while c and c[0] == 'u' and c[1] == '*':
            c = strip(c[2])
        if not c:
            return set()
        if c[0] == 'm':
            base = self.records.get(c[1].split('.', 1)[0])
            if c[1].endswith('.dctor') and base is not None and len(base['fields']) == 1:
                # EbObject is the layout-compatible base of every object with a destructor (first member `EbDctor dctor`):
                # a call through the base's slot may reach any function stored in some struct's first-member dctor slot
                out = set()
                for fid, fs in field.items():
                    if fid.endswith('.dctor'):
                        r = self.records.get(fid.split('.', 1)[0])
                        if r is None or (r['fields'] and r['fields'][0]['n'] == 'dctor'):
                            out |= self._expand(fs)
                return out
            return self._expand(field.get(c[1], ()))
        if c[0] == 'i':
            lf = last_field(c)
            if lf:
                return self._expand(field.get(lf, ()))
            r = root_of(c)
            if r is not None and r[2] in ('g', 's'):
                return set(glob.get(r[1], ()))
            return set()
        if c[0] == 'v':
            if c[2] in ('g', 's'):
                return set(glob.get(c[1], ()))
            if c[2].startswith('p'):
                return self._param_targets(f.name, int(c[2][1:]), set())
            if c[2] == 'l':
                out = set()
                for ev in f.events(('st', 'decl')):
                    e = ev.get('e')
                    if ev['k'] == 'decl' and ev['n'] == c[1] and e:
                        out |= self._fn_values(f, e)
                    elif ev['k'] == 'st' and e and e[0] == 'a' and strip(e[2]) == c:
                        out |= self._fn_values(f, e[3])
                return out
        return set()

    def _expand(self, items):
        """Resolve forwarded-parameter / member markers of a function-pointer slot into function names."""
        field, glob, argpos = self.fp_facts()
        out = set()
        for x in items:
            if isinstance(x, tuple):
                if x[0] == 'param':
                    out |= self._param_targets(x[1], x[2], set())
                elif x[0] == 'field':
                    out |= {y for y in field.get(x[1], ()) if not isinstance(y, tuple)}
            else:
                out.add(x)
        return out

    def _param_targets(self, fname, i, seen):
        """Functions that may be passed (directly, through forwarded parameters or function-pointer members) as
        argument i of `fname`."""
        field, glob, argpos = self.fp_facts()
        if (fname, i) in seen:
            return set()
        seen.add((fname, i))
        out = set()
        for x in argpos.get((fname, i), ()):
            if isinstance(x, tuple):
                if x[0] == 'param':
                    out |= self._param_targets(x[1], x[2], seen)
                elif x[0] == 'field':
                    out |= {y for y in field.get(x[1], ()) if not isinstance(y, tuple)}
            else:
                out.add(x)
        return out

    def _fn_values(self, f, e):
        e = strip(e)
        out = set(funcs_in(e))
        if not out and e and e[0] in ('m', 'v', 'i'):
            out = self.indirect_targets(f, e)
        return out

    def callgraph(self):
        """{Fn: set(Fn)} including indirect edges resolved through function-pointer slots."""
        if self._cg is not None:
            return self._cg
        cg = {}
        for f in self.fns:
            out = set()
            for ev in f.events(('call',)):
                e = ev['e']
                n = callee_name(e)
                if n:
                    for t in self.resolve(n, f):
                        out.add(t)
                else:
                    for tn in self.indirect_targets(f, e[1]):
                        for t in self.resolve(tn, f):
                            out.add(t)
            cg[f] = out
        self._cg = cg
        return cg

    def call_targets(self, f, ev):
        """Functions the call event `ev` in `f` may invoke."""
        e = ev['e']
        n = callee_name(e)
        if n:
            return list(self.resolve(n, f))
        out = []
        for tn in self.indirect_targets(f, e[1]):
            out.extend(self.resolve(tn, f))
        return out

    def callers(self):
        if self._callers is None:
            c = defaultdict(set)
            for f, outs in self.callgraph().items():
                for t in outs:
                    c[t].add(f)
            self._callers = c
        return self._callers

    def reachable_from(self, roots, stop=None):
        cg = self.callgraph()
        seen = set()
        st = list(roots)
        while st:
            f = st.pop()
            if f in seen:
                continue
            seen.add(f)
            if stop and f in stop and f not in roots:
                continue
            for t in cg.get(f, ()):
                if t not in seen:
                    st.append(t)
        return seen

    def call_sites(self, name):
        """[(Fn, ev)] of direct calls to `name`."""
        out = []
        for f in self.fns:
            for ev, n in f.calls(name):
                out.append((f, ev))
        return out

    def thread_entries(self):
        """Functions passed to svt_create_thread (directly or through EB_CREATE_THREAD*)."""
        return self._param_targets('svt_create_thread', 0, set())


def _load_json(p):
    with open(p, 'rb') as f:
        return json.loads(f.read())


def load(config='prod', extra_flags=(), verbose=False):
    t0 = time.time()
    fdir, index, ncdb = compdb.extract_all(config, extra_flags, verbose=verbose)
    sig = hashlib.sha256(('|'.join(sorted(e['facts'] for e in index)) + compdb.file_hash(os.path.abspath(__file__))).encode()).hexdigest()[:16]
    pk = os.path.join(fdir, 'program-%s.pickle' % sig)
    if os.path.exists(pk):
        try:
            import gc
            gc.disable()
            try:
                with open(pk, 'rb') as f:
                    P = pickle.load(f)
            finally:
                gc.enable()
            if verbose:
                print('facts: loaded pickle in %.1fs' % (time.time() - t0), file=sys.stderr)
            return P
        except Exception:
            pass
    import gc
    gc.disable()
    P = Program()
    P.n_compdb = ncdb
    P.units = index
    seen_glob = set()
    for ent in index:
        d = _load_json(ent['facts'])
        lib, sub = ent['class']
        for fd in d['functions']:
            fn = Fn(fd, d['unit'], lib, sub)
            P.fns.append(fn)
        for r in d['records']:
            P.records.setdefault(r['name'], r)
        for e in d['enums']:
            P.enums.setdefault(e['name'] or ('@' + e['file']), e)
        for g in d['globals']:
            k = (g['name'], g['file'], g['line'])
            if k in seen_glob:
                continue
            seen_glob.add(k)
            g['unit'] = d['unit']; g['lib'] = lib; g['sub'] = sub
            P.globals.append(g)
        P.macros[d['unit']] = d['macros']
        for a in d['apidecls']:
            P.apidecls[a[0]] = (a[1], a[2])
    hd = os.path.join(fdir, 'hdr')
    for hf in sorted(os.listdir(hd)):
        if not hf.endswith('.json'):
            continue
        d = _load_json(os.path.join(hd, hf))
        rel = os.path.relpath(d['file'], REPO).split('/')
        lib, sub = (rel[2], rel[3]) if rel[:2] == ['Source', 'Lib'] and len(rel) > 3 else ('API', rel[1] if len(rel) > 1 else '')
        for fd in d['functions']:
            fn = Fn(fd, d['file'], lib, sub, hdr=True)
            P.fns.append(fn)
        for r in d['records']:
            P.records.setdefault(r['name'], r)
        for e in d['enums']:
            P.enums.setdefault(e['name'] or ('@' + e['file']), e)
        P.macros[d['file']] = d['macros']
    for f in P.fns:
        P.by_name[f.name].append(f)
    # remove older pickles
    for e in os.listdir(fdir):
        if e.startswith('program-') and e.endswith('.pickle'):
            os.remove(os.path.join(fdir, e))
    sys.setrecursionlimit(100000)
    with open(pk + '.tmp', 'wb') as f:
        pickle.dump(P, f, protocol=pickle.HIGHEST_PROTOCOL)
    os.replace(pk + '.tmp', pk)
    gc.enable()
    if verbose:
        print('facts: built program in %.1fs (%d functions)' % (time.time() - t0, len(P.fns)), file=sys.stderr)
    return P
