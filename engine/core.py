"""Run protocol shared by every rule module: obligations, known findings, evidence, exit codes."""
import json, os, sys, time

from .compdb import AnalysisBroken, REPO, VERIF

KNOWN_FILE = os.path.join(VERIF, 'known_findings.json')
EVID_DIR = os.environ.get('VERIF_EVID_DIR') or os.path.join(VERIF, 'evidence')


class Report:
    """Collects rule instances (obligations) for one property."""

    def __init__(self, pid, tier):
        self.pid = pid
        self.tier = tier
        self.obs = []          # dicts
        self.floors = {}       # rule -> minimum number of instances
        self.info = []         # informational lines (never affect the verdict)
        self.assumptions = []
        self.tables = []       # exception-table entries actually used
        self.explanation = ''
        self.analysed = {}
        self.t0 = time.time()

    def ob(self, rule, key, ok, where, detail='', nontrivial=True, extra=None):
        """One rule instance.  key: stable construct key (no line numbers)."""
        o = {'rule': rule, 'key': key, 'ok': bool(ok), 'where': where, 'detail': detail, 'nontrivial': nontrivial}
        if extra:
            o['extra'] = extra
        self.obs.append(o)
        return o

    def floor(self, rule, n):
        self.floors[rule] = n

    def exempt(self, rule, symbol, reason):
        self.tables.append({'rule': rule, 'symbol': symbol, 'reason': reason})

    def note(self, s):
        self.info.append(s)


def load_known():
    if not os.path.exists(KNOWN_FILE):
        return []
    return json.load(open(KNOWN_FILE))['findings']


def finish(rep, replay_key=None):
    """Apply floors and known findings, write evidence, print verdict lines, return exit code."""
    pid = rep.pid
    counts = {}
    for o in rep.obs:
        counts[o['rule']] = counts.get(o['rule'], 0) + 1
    broken = []
    for rule, n in rep.floors.items():
        if counts.get(rule, 0) < n:
            broken.append('rule %s matched %d instances, floor is %d (anchor moved? analysis broken)' % (rule, counts.get(rule, 0), n))
    known = [k for k in load_known() if k.get('property') == pid and k.get('status', 'known') == 'known']
    kmap = {(k['rule'], k['key']): k for k in known}
    fails = [o for o in rep.obs if not o['ok']]
    viol, kn = [], []
    seen = set()
    for o in fails:
        kk = (o['rule'], o['key'])
        if kk in seen:
            continue
        seen.add(kk)
        if kk in kmap:
            kn.append((o, kmap[kk]))
        else:
            viol.append(o)
    if replay_key is not None:
        viol = [o for o in viol if [o['rule'], o['key']] == list(replay_key)]
        kn = [(o, k) for (o, k) in kn if [o['rule'], o['key']] == list(replay_key)]
        # replaying a known finding still reports whether that instance fails today
        for o, k in kn:
            viol.append(o)
        kn = []
    os.makedirs(EVID_DIR, exist_ok=True)
    replay_paths = []
    if viol and replay_key is None:
        rd = os.path.join(EVID_DIR, 'replay')
        os.makedirs(rd, exist_ok=True)
        for i, o in enumerate(viol):
            p = os.path.join(rd, '%s-%03d.json' % (pid, i))
            json.dump({'property': pid, 'rule': o['rule'], 'key': o['key'], 'where': o['where'], 'detail': o['detail'],
                       'extra': o.get('extra')}, open(p, 'w'), indent=1)
            replay_paths.append(p)
    # ---- evidence
    nontriv = {(o['rule'], o['key']) for o in rep.obs if o['nontrivial']}
    distinct = {(o['rule'], o['key']) for o in rep.obs}
    samples = []
    per_rule = {}
    for o in rep.obs:
        per_rule.setdefault(o['rule'], []).append(o)
    for rule, lst in sorted(per_rule.items()):
        for o in lst[:3]:
            samples.append({'rule': rule, 'instance': o['key'], 'where': o['where'], 'holds': o['ok'], 'detail': o['detail'][:240]})
    ev = {
        'property_id': pid,
        'tier': rep.tier,
        'seed': int(os.environ.get('VERIF_SEED', '0') or 0),
        'level': 'other',
        'coverage': {
            'explanation': rep.explanation or ('rule instances of %s enumerated on the current tree; see instances_per_rule and samples' % pid),
            'evaluations': len(rep.obs),
            'distinct_nontrivial': len(nontriv),
            'rule': 'one evaluation = one rule instance (a construct of /repo matched by a rule template); distinct = distinct '
                    '(rule, construct key); non-trivial = the instance contains at least one relevant construct (lock site, '
                    'allocation, store to a tracked field, guarded call ...) rather than being vacuously true',
            'obligations': len(distinct),
            'discharged': len(distinct) - len(seen),
            'known_findings': len(kn),
            'violations': len(viol),
            'instances_per_rule': {r: len(l) for r, l in sorted(per_rule.items())},
            'floors': rep.floors,
            'samples': samples[:60],
            'analysed': rep.analysed,
            'exception_table_entries_used': rep.tables,
            'informational': rep.info[:80],
            'exhaustive': True,
        },
        'assumptions': rep.assumptions,
        'wall_s': round(time.time() - rep.t0, 2),
        'violations': len(viol),
    }
    if broken:
        ev['coverage']['analysis_broken'] = broken
    with open(os.path.join(EVID_DIR, pid + '.json'), 'w') as f:
        json.dump(ev, f, indent=1)
    # ---- verdict
    for line in rep.info[:40]:
        print('info: ' + line)
    print('%s: %d rule instances (%d distinct, %d non-trivial), %d discharged, %d known findings, %d violations [%s tier, %.1fs]' %
          (pid, len(rep.obs), len(distinct), len(nontriv), len(distinct) - len(seen), len(kn), len(viol), rep.tier, time.time() - rep.t0))
    if broken:
        for b in broken:
            print('ANALYSIS-BROKEN property=%s %s' % (pid, b))
        if not viol:
            return 2
    for o, k in kn:
        print('KNOWN-FINDING: property=%s %s [%s %s] %s' % (pid, k.get('what', o['detail']), o['rule'], o['key'], o['where']))
    if viol:
        for i, o in enumerate(viol):
            print('violation: [%s] %s at %s: %s' % (o['rule'], o['key'], o['where'], o['detail']))
            rp = replay_paths[i] if i < len(replay_paths) else '-'
            print('VIOLATION property=%s replay=%s' % (pid, rp))
        return 1
    return 0
