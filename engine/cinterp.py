"""Evaluator for the closed expression / statement language of the configuration code (C12, C13).

Used to decide predicates of `verify_settings` (and the rewrites of `copy_api_from_app` that precede it) over the
finite partition of values induced by the literals the fields are compared with.  Implements C's integer
promotions, usual arithmetic conversions and explicit casts on (value, bits, signed) triples taken from the AST.
Anything outside the language raises Unsupported: the caller reports *analysis broken*, never a guess.
"""
from .facts import strip, pstr, callee_name


class Unsupported(Exception):
    pass


class UB(Exception):
    """The evaluated code performs an operation with undefined behaviour on these values."""
    pass


class Unknown(Exception):
    """A value that the initial memory does not define was needed to decide a branch."""
    pass


class V:
    __slots__ = ('v', 'bits', 'sg')

    def __init__(self, v, bits=32, sg=True):
        self.bits = bits
        self.sg = sg
        self.v = wrap(v, bits, sg)

    def __repr__(self):
        return '%d:%s%d' % (self.v, 'i' if self.sg else 'u', self.bits)


def wrap(v, bits, sg):
    m = 1 << bits
    v &= m - 1
    if sg and v >= (m >> 1):
        v -= m
    return v


def promote(a):
    if a.bits < 32:
        return V(a.v, 32, True)
    return a


def usual(a, b):
    a, b = promote(a), promote(b)
    if a.bits == b.bits and a.sg == b.sg:
        return a, b
    if a.sg == b.sg:
        bits = max(a.bits, b.bits)
        return V(a.v, bits, a.sg), V(b.v, bits, a.sg)
    u, s = (a, b) if not a.sg else (b, a)
    if u.bits >= s.bits:
        bits, sg = u.bits, False
    else:
        bits, sg = s.bits, True
    return V(a.v, bits, sg), V(b.v, bits, sg)


TYPES = {
    'uint8_t': (8, False), 'int8_t': (8, True), 'uint16_t': (16, False), 'int16_t': (16, True), 'uint32_t': (32, False),
    'int32_t': (32, True), 'uint64_t': (64, False), 'int64_t': (64, True), 'int': (32, True), 'unsigned int': (32, False),
    'unsigned': (32, False), 'EbBool': (8, False), 'char': (8, True), 'unsigned char': (8, False), 'long': (64, True),
    'unsigned long': (64, False), 'size_t': (64, False), 'EbErrorType': (32, True), 'CPU_FLAGS': (64, False),
    'long long': (64, True), 'unsigned long long': (64, False), 'short': (16, True), 'unsigned short': (16, False),
    'uintptr_t': (64, False), 'EbColorFormat': (32, False), 'EbBitDepthEnum': (32, False), 'EbBitDepth': (32, False),
    'double': None, 'float': None,
}


def ctype(t):
    t = t.replace('const ', '').strip()
    if t in TYPES and TYPES[t]:
        return TYPES[t]
    if t.endswith('*'):
        return (64, False)
    if t.startswith('enum ') or t.startswith('Eb') or t.endswith('Enum') or t.endswith('Type'):
        return (32, False)
    return None


class Machine:
    def __init__(self, P, fuel=20000):
        self.P = P
        self.mem = {}          # canonical path tuple -> V
        self.fuel = fuel
        self.calls_ignored = set()
        self.lenient_ub = False
        self.ub_hits = []
        self.field_types = {}
        for r in P.records.values():
            for f in r['fields']:
                if 'bits' in f:
                    self.field_types[r['name'] + '.' + f['n']] = (f['bits'], f['signed'])
                elif f.get('enum'):
                    self.field_types[r['name'] + '.' + f['n']] = (32, False)
                elif f.get('ptr') and not f.get('dims'):
                    self.field_types[r['name'] + '.' + f['n']] = (64, False)

    # ---- paths
    def path(self, e, fr):
        """Canonical memory path of an lvalue tree in frame fr."""
        e = strip(e)
        k = e[0]
        if k == 'v':
            if e[2] in ('g', 's'):
                return ('@' + e[1],)
            b = fr['bind'].get(e[1])
            if b is not None:
                return b
            return (fr['id'], e[1])
        if k == 'm':
            return self.path(e[3], fr) + (e[1].split('.', 1)[1],)
        if k == 'i':
            i = self.ev(e[2], fr)
            return self.path(e[1], fr) + (i.v,)
        if k == 'u' and e[1] in ('&', '*'):
            return self.path(e[2], fr)
        raise Unsupported('lvalue ' + pstr(e))

    def ftype(self, e):
        e = strip(e)
        if e[0] == 'm':
            return self.field_types.get(e[1])
        if e[0] == 'i':
            return self.ftype(e[1])
        return None

    def load(self, e, fr):
        p = self.path(e, fr)
        if p in self.mem:
            return self.mem[p]
        # a cell inside a region that was memset as a whole and not stored since
        for k in range(len(p) - 1, 0, -1):
            m = self.mem.get(p[:k] + ('*memset*',))
            if m is not None and m.v == 0:
                t = self.ftype(e) or (32, True)
                return V(0, t[0], t[1])
        # a pointer-valued path that is only used as a base (aliases) is resolved by path(); plain unknown otherwise
        raise Unknown('read of undefined %s' % '.'.join(map(str, p)))

    def store(self, e, val, fr):
        p = self.path(e, fr)
        t = self.ftype(e)
        if t is None and len(p) == 2 and p[0] == fr['id']:
            t = fr['ltypes'].get(p[1])
        if t is not None:
            val = V(val.v, t[0], t[1])
        self.mem[p] = val

    # ---- expressions
    def ev(self, e, fr):
        e0 = e
        e = strip(e) if e and e[0] != 'k' else e
        if e is None:
            raise Unsupported('empty expression')
        k = e[0]
        if k == 'k':
            inner = strip(e[2])
            if inner and inner[0] == 'u' and inner[1] == '&':
                raise Unsupported('address value')
            v = self.ev(e[2], fr)
            t = ctype(e[1])
            if t is None:
                raise Unsupported('cast to ' + e[1])
            return V(v.v, t[0], t[1])
        if k == 'l':
            if len(e) > 3:
                b = e[3]
                return V(e[1], abs(b), b < 0)
            return V(e[1], 32, True)
        if k == 'v' and e[1] in fr['bind']:
            return V(1, 64, False)      # a pointer that designates an object of the model: non-NULL
        if k in ('v', 'm', 'i'):
            return self.load(e, fr)
        if k == 'u':
            op = e[1]
            if op == '!':
                return V(0 if self.truth(e[2], fr) else 1)
            if op == '-':
                a = promote(self.ev(e[2], fr))
                return V(-a.v, a.bits, a.sg)
            if op == '~':
                a = promote(self.ev(e[2], fr))
                return V(~a.v, a.bits, a.sg)
            if op == '+':
                return promote(self.ev(e[2], fr))
            if op in ('x++', 'x--', '++x', '--x'):
                old = self.load(e[2], fr)
                new = V(old.v + (1 if '+' in op else -1), old.bits, old.sg)
                self.store(e[2], new, fr)
                return old if op[0] == 'x' else new
            if op == '*':
                return self.load(e, fr)
            raise Unsupported('unary ' + op)
        if k == 'b':
            op = e[1]
            if op == '&&':
                return V(1 if (self.truth(e[2], fr) and self.truth(e[3], fr)) else 0)
            if op == '||':
                return V(1 if (self.truth(e[2], fr) or self.truth(e[3], fr)) else 0)
            if op == ',':
                self.ev(e[2], fr)
                return self.ev(e[3], fr)
            a, b = self.ev(e[2], fr), self.ev(e[3], fr)
            if op in ('<<', '>>'):
                a = promote(a)
                sh = b.v
                if sh < 0 or sh >= a.bits:
                    if not self.lenient_ub:
                        raise UB('shift of a %d-bit value by %d' % (a.bits, sh))
                    # record the undefined behaviour and continue with what x86 does (count masked to the width)
                    self.ub_hits.append('shift of a %d-bit value by %d' % (a.bits, sh))
                    sh &= a.bits - 1
                return V(a.v << sh if op == '<<' else a.v >> sh, a.bits, a.sg)
            a, b = usual(a, b)
            if op in ('<', '<=', '>', '>=', '==', '!='):
                r = {'<': a.v < b.v, '<=': a.v <= b.v, '>': a.v > b.v, '>=': a.v >= b.v, '==': a.v == b.v, '!=': a.v != b.v}[op]
                return V(1 if r else 0)
            if op == '+':
                return V(a.v + b.v, a.bits, a.sg)
            if op == '-':
                return V(a.v - b.v, a.bits, a.sg)
            if op == '*':
                return V(a.v * b.v, a.bits, a.sg)
            if op in ('/', '%'):
                if b.v == 0:
                    raise UB('division by zero')
                q = abs(a.v) // abs(b.v)
                if (a.v < 0) != (b.v < 0):
                    q = -q
                return V(q if op == '/' else a.v - q * b.v, a.bits, a.sg)
            if op == '&':
                return V(a.v & b.v, a.bits, a.sg)
            if op == '|':
                return V(a.v | b.v, a.bits, a.sg)
            if op == '^':
                return V(a.v ^ b.v, a.bits, a.sg)
            raise Unsupported('binary ' + op)
        if k == 'q':
            return self.ev(e[2], fr) if self.truth(e[1], fr) else self.ev(e[3], fr)
        if k == 'a':
            if e[1] == '=':
                val = self.rvalue(e[3], fr, e[2])
                if val is not None:
                    self.store(e[2], val, fr)
                return val
            old = self.load(e[2], fr)
            rhs = self.ev(e[3], fr)
            a, b = usual(old, rhs)
            op = e[1][:-1]
            val = self.ev(['b', op, ['l', a.v, '', (-a.bits if a.sg else a.bits)], ['l', b.v, '', (-b.bits if b.sg else b.bits)]], fr)
            self.store(e[2], val, fr)
            return val
        if k == 'c':
            return self.call(e, fr)
        if k == 's':
            return V(1, 64, False)      # a string literal is a non-null pointer
        raise Unsupported('expression kind ' + k + ' ' + pstr(e)[:60])

    def rvalue(self, e, fr, lhs):
        """Value of an assignment RHS; struct / pointer copies are done path-wise."""
        r = strip(e)
        if r and r[0] in ('m', 'v', 'i') or (r and r[0] == 'u' and r[1] == '&'):
            # aggregate / pointer copy: copy every defined sub-path
            try:
                sp = self.path(r, fr)
            except (Unsupported, Unknown):
                sp = None
            if sp is not None and sp not in self.mem:
                l0 = strip(lhs)
                if l0[0] == 'v' and l0[2] in ('l',) or (l0[0] == 'v' and l0[2].startswith('p')):
                    # pointer-typed local: remember what it designates
                    fr['bind'][l0[1]] = sp
                    return None
                sub = {k: v for k, v in self.mem.items() if k[:len(sp)] == sp and len(k) > len(sp)}
                if sub:
                    dp = self.path(lhs, fr)
                    for k in [k for k in self.mem if k[:len(dp)] == dp and len(k) > len(dp)]:
                        del self.mem[k]
                    for k, v in sub.items():
                        self.mem[dp + k[len(sp):]] = v
                    return None
        return self.ev(e, fr)

    def truth(self, e, fr):
        return self.ev(e, fr).v != 0

    # ---- calls
    IGNORED = {'svt_log', 'printf', 'fprintf', 'SVT_LOG', 'svt_print_alloc_fail', 'free', 'fflush'}

    def call(self, e, fr):
        n = callee_name(e)
        if n in self.IGNORED or n is None and False:
            self.calls_ignored.add(n)
            return V(0)
        if n in ('memset',):
            dst = self.path(e[2][0], fr)
            val = self.ev(e[2][1], fr)
            for k in [k for k in self.mem if k[:len(dst)] == dst]:
                self.mem[k] = V(val.v if val.v == 0 else val.v, self.mem[k].bits, self.mem[k].sg)
            self.mem[dst + ('*memset*',)] = val
            return V(0)
        if n in ('memcpy', 'svt_memcpy_app', 'svt_memcpy', 'svt_memcpy_c'):
            dp, sp = self.path(e[2][0], fr), self.path(e[2][1], fr)
            # element 0 paths: &a[0] -> a[0]; copy sibling elements
            if dp and isinstance(dp[-1], int) and sp and isinstance(sp[-1], int):
                dp, sp = dp[:-1], sp[:-1]
            for k, v in list(self.mem.items()):
                if k[:len(sp)] == sp and len(k) > len(sp):
                    self.mem[dp + k[len(sp):]] = v
            return V(0)
        cands = self.P.resolve(n, fr['fn']) if n else []
        if not cands or cands[0].nocfg:
            raise Unsupported('call to %s' % n)
        g = cands[0]
        args = e[2]
        bind = {}
        vals = {}
        for (pn, pt), a in zip(g.params, args):
            a0 = strip(a)
            if pt.rstrip().endswith('*') or '[' in pt:
                try:
                    bind[pn] = self.path(a0, fr)
                    continue
                except (Unsupported, Unknown):
                    pass
            vals[pn] = (self.ev(a, fr), ctype(pt))
        return self.run(g, bind, vals)

    # ---- statements
    def run(self, fn, bind, vals=None, depth=0):
        self._nframe = getattr(self, '_nframe', 0) + 1
        fr = {'fn': fn, 'id': '#%d:%s' % (self._nframe, fn.name), 'bind': dict(bind), 'ltypes': {}}
        for pn, pt in fn.params:
            t = ctype(pt)
            if t:
                fr['ltypes'][pn] = t
        for pn, (v, t) in (vals or {}).items():
            self.mem[(fr['id'], pn)] = V(v.v, t[0], t[1]) if t else v
        bid = fn.entry
        ret = None
        while True:
            self.fuel -= 1
            if self.fuel < 0:
                raise Unsupported('fuel exhausted in ' + fn.name)
            b = fn.blocks[bid]
            for ev in b['ev']:
                k = ev['k']
                if k == 'decl':
                    t = ctype(ev['t'])
                    if t:
                        fr['ltypes'][ev['n']] = t
                    if ev.get('e') is not None:
                        lhs = ['v', ev['n'], 'l']
                        val = self.rvalue(ev['e'], fr, lhs)
                        if val is not None:
                            self.store(lhs, val, fr)
                elif k == 'st':
                    try:
                        self.ev(ev['e'], fr)
                    except Unknown:
                        # storing an undefined value: the destination becomes undefined
                        e = ev['e']
                        if e[0] == 'a':
                            try:
                                self.mem.pop(self.path(e[2], fr), None)
                            except (Unsupported, Unknown):
                                pass
                elif k == 'call':
                    if ev.get('use') == 'discard':
                        n = callee_name(ev['e'])
                        if n in self.IGNORED or n in ('memset', 'memcpy', 'svt_memcpy_app', 'svt_memcpy'):
                            self.call(ev['e'], fr)
                        else:
                            try:
                                self.call(ev['e'], fr)
                            except Unsupported:
                                self.calls_ignored.add(n or '<indirect>')
                elif k == 'ret':
                    if ev.get('e') is not None:
                        ret = self.ev(ev['e'], fr)
                    else:
                        ret = V(0)
            succ = b['succ']
            if bid == fn.exit or not succ:
                return ret if ret is not None else V(0)
            if any(e['k'] == 'ret' for e in b['ev']):
                return ret
            if len(succ) == 1:
                bid = succ[0]
            elif b.get('tk') == 'SwitchStmt':
                v = self.ev(b['cond'], fr)
                tgt = None
                dflt = None
                for s, lab in zip(succ, b.get('slab', [])):
                    if lab and lab[0] == 'case' and strip(lab[1])[1] == v.v:
                        tgt = s
                    if lab and lab[0] == 'default':
                        dflt = s
                if tgt is None:
                    tgt = dflt if dflt is not None else succ[-1]
                bid = tgt
            elif len(succ) == 2:
                c = b.get('cond')
                if c is None:
                    raise Unsupported('two successors without a condition in ' + fn.name)
                t = self.truth(c, fr)
                nxt = succ[0] if t else succ[1]
                if nxt is None:
                    nxt = succ[1] if t else succ[0]
                bid = nxt
            else:
                raise Unsupported('terminator in ' + fn.name)
            if bid is None:
                raise Unsupported('pruned edge taken in ' + fn.name)
