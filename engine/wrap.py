"""Wrap-around idioms of circular indices (shared by C22 and C23).

wrap_shape(e) -> (kind, X, N) or None where
  kind 'inc'  : (X == N-1) ? 0 : X+1        (also  X >= N-1)
  kind 'dec'  : (X == 0) ? N-1 : X-1
  kind 'norm' : (X > N-1) ? X-N : X         (also  X >= N ? X-N : X)
  kind 'mod'  : E % N
N is ('lit', value) or ('path', string).
"""
from .facts import pstr, strip


def _n_minus_1(e):
    """If e denotes N-1 return N as ('lit',v)/('path',s)."""
    e = strip(e)
    if e is None:
        return None
    if e[0] == 'l':
        return ('lit', e[1] + 1)
    if e[0] == 'b' and e[1] == '-' and strip(e[3]) and strip(e[3])[0] == 'l' and strip(e[3])[1] == 1:
        return _n(e[2])
    return None


def _n(e):
    e = strip(e)
    if e is None:
        return None
    if e[0] == 'l':
        return ('lit', e[1])
    return ('path', pstr(e))


def _is_plus(e, x, k):
    e = strip(e)
    return bool(e) and e[0] == 'b' and e[1] == '+' and pstr(strip(e[2])) == x and strip(e[3]) and strip(e[3])[0] == 'l' and strip(e[3])[1] == k


def _is_minus(e, x, k):
    e = strip(e)
    return bool(e) and e[0] == 'b' and e[1] == '-' and pstr(strip(e[2])) == x and strip(e[3]) and strip(e[3])[0] == 'l' and strip(e[3])[1] == k


def wrap_shape(e):
    e = strip(e)
    if not e:
        return None
    if e[0] == 'b' and e[1] == '%':
        n = _n(e[3])
        if n:
            return ('mod', pstr(strip(e[2])), n)
        return None
    if e[0] != 'q':
        return None
    c, t, f = strip(e[1]), strip(e[2]), strip(e[3])
    if not c or c[0] != 'b':
        return None
    op, l, r = c[1], strip(c[2]), strip(c[3])
    x = pstr(l)
    # inc: (X == N-1) ? 0 : X+1
    if op in ('==', '>=') and t and t[0] == 'l' and t[1] == 0 and _is_plus(f, x, 1):
        n = _n_minus_1(r)
        if n:
            return ('inc', x, n)
    # dec: (X == 0) ? N-1 : X-1
    if op == '==' and r and r[0] == 'l' and r[1] == 0 and _is_minus(f, x, 1):
        n = _n_minus_1(t)
        if n:
            return ('dec', x, n)
    # two-sided norm: (X > N-1) ? X-N : ((X < 0) ? X+N : X)
    if op in ('>', '>=') and f and f[0] == 'q' and t and t[0] == 'b' and t[1] == '-' and pstr(strip(t[2])) == x:
        c2, t2, f2 = strip(f[1]), strip(f[2]), strip(f[3])
        n = _n_minus_1(r) if op == '>' else _n(r)
        n1 = _n(t[3])
        if c2 and c2[0] == 'b' and c2[1] == '<' and pstr(strip(c2[2])) == x and strip(c2[3])[0] == 'l' and strip(c2[3])[1] == 0 \
                and t2 and t2[0] == 'b' and t2[1] == '+' and pstr(strip(t2[2])) == x and pstr(f2) == x:
            n2 = _n(t2[3])
            if n and n == n1 == n2:
                return ('norm', x, n)
            return ('norm-mismatch', x, (n, n1, n2))
    # norm: (X > N-1) ? X-N : X   /  (X >= N) ? X-N : X
    if op in ('>', '>=') and pstr(f) == x and t and t[0] == 'b' and t[1] == '-' and pstr(strip(t[2])) == x:
        n = _n_minus_1(r) if op == '>' else _n(r)
        n2 = _n(t[3])
        if n and n2 and n == n2:
            return ('norm', x, n)
        if n and n2:
            return ('norm-mismatch', x, (n, n2))
    return None
