"""Obtain the real compile flags of /repo and run the fact extractor over every unit.

Nothing is built: an out-of-tree `cmake -G Ninja` configure in a scratch directory under
/verif/.cache (never /repo, never /tmp) + `ninja -t compdb`, plus the one generated header
(EbVersion.h, `ninja EbVersionHeaderGen`, no compilation involved).

Caching: facts are a pure function of (unit text, all repository headers, flags, extractor
binary).  Every run hashes the current working tree; a changed .c re-extracts that unit, a
changed header / CMakeLists / extractor re-extracts everything.
"""
import hashlib, json, os, shlex, shutil, subprocess, sys, time
from concurrent.futures import ThreadPoolExecutor

VERIF = os.path.dirname(os.path.dirname(os.path.abspath(__file__)))
REPO = os.environ.get('SVT_REPO', '/repo')
CACHE = os.environ.get('SVT_CACHE') or os.path.join(VERIF, '.cache')
EXTRACTOR = os.path.join(CACHE, 'svtfacts')
RESOURCE_DIR = '/usr/lib/llvm-14/lib/clang/14.0.6'
LIB_DIRS = ['Source/Lib/Common', 'Source/Lib/Encoder', 'Source/Lib/Decoder']
APP_UNITS = ['Source/App/EncApp/EbAppConfig.c']


class AnalysisBroken(Exception):
    pass


def sha(b):
    return hashlib.sha256(b).hexdigest()[:20]


def file_hash(p):
    with open(p, 'rb') as f:
        return sha(f.read())


def build_extractor():
    src = os.path.join(VERIF, 'engine', 'svtfacts.cc')
    stamp = EXTRACTOR + '.srchash'
    h = file_hash(src)
    if os.path.exists(EXTRACTOR) and os.path.exists(stamp) and open(stamp).read() == h:
        return
    os.makedirs(CACHE, exist_ok=True)
    flags = subprocess.check_output(['llvm-config-14', '--cxxflags'], text=True).split()
    cmd = ['clang++'] + flags + ['-fno-rtti', '-O1', '-w', src, '-o', EXTRACTOR + '.new',
                                 '/usr/lib/llvm-14/lib/libclang-cpp.so.14', '/usr/lib/llvm-14/lib/libLLVM-14.so']
    r = subprocess.run(cmd, capture_output=True, text=True)
    if r.returncode != 0:
        raise AnalysisBroken('extractor build failed:\n' + r.stderr[-3000:])
    os.replace(EXTRACTOR + '.new', EXTRACTOR)
    open(stamp, 'w').write(h)


def repo_cmake_files():
    out = []
    for root, dirs, files in os.walk(REPO):
        dirs[:] = [d for d in dirs if d not in ('.git', '_build', 'Bin', 'Build') or (d == 'Build' and False)]
        if root == REPO:
            dirs[:] = [d for d in dirs if d in ('Source', 'third_party', 'test', 'gstreamer-plugin')]
        for f in files:
            if f == 'CMakeLists.txt' or f.endswith('.cmake') or f.endswith('.in'):
                out.append(os.path.join(root, f))
    return sorted(out)


def source_listing():
    """All .c/.h/.asm files under Source (the set matters: CMake globs them)."""
    out = []
    for root, dirs, files in os.walk(os.path.join(REPO, 'Source')):
        for f in files:
            if f.endswith(('.c', '.h', '.asm', '.inc', '.cc', '.cpp')):
                out.append(os.path.join(root, f))
    return sorted(out)


def get_compdb(verbose=False):
    """Returns (list of {file, args}, gen_include_dir). Cached on CMake inputs + file set."""
    cm = repo_cmake_files()
    listing = source_listing()
    h = hashlib.sha256()
    for p in cm:
        h.update(p.encode()); h.update(file_hash(p).encode())
    for p in listing:
        h.update(p.encode())
    key = h.hexdigest()[:20]
    d = os.path.join(CACHE, 'cfg-' + key)
    cdb = os.path.join(d, 'compdb.json')
    if not os.path.exists(cdb):
        # remove stale configurations
        if os.path.isdir(CACHE):
            for e in os.listdir(CACHE):
                if e.startswith('cfg-'):
                    shutil.rmtree(os.path.join(CACHE, e), ignore_errors=True)
        os.makedirs(d, exist_ok=True)
        b = os.path.join(d, 'b')
        r = subprocess.run(['cmake', '-G', 'Ninja', '-S', REPO, '-B', b, '-DBUILD_TESTING=OFF',
                            '-DCMAKE_BUILD_TYPE=RelWithDebInfo'], capture_output=True, text=True)
        if r.returncode != 0:
            raise AnalysisBroken('cmake configure failed:\n' + r.stdout[-2000:] + r.stderr[-2000:])
        r2 = subprocess.run(['ninja', '-C', b, 'EbVersionHeaderGen'], capture_output=True, text=True)
        if r2.returncode != 0:
            raise AnalysisBroken('version header generation failed:\n' + r2.stdout[-2000:])
        out = subprocess.check_output(['ninja', '-C', b, '-t', 'compdb'], text=True)
        raw = json.loads(out)
        units = []
        seen = set()
        for e in raw:
            f = e['file']
            if not f.endswith('.c') or f in seen:
                continue
            seen.add(f)
            args = shlex.split(e['command'])
            keep = []
            skip = 0
            for a in args[1:]:
                if skip:
                    skip -= 1
                    continue
                if a in ('-o', '-MT', '-MF'):
                    skip = 1
                    continue
                if a in ('-c', '-MD') or a == f:
                    continue
                keep.append(a)
            units.append({'file': f, 'args': keep})
        # keep only the generated header; drop the rest of the configure tree
        gen = os.path.join(d, 'gen')
        os.makedirs(gen, exist_ok=True)
        src = os.path.join(b, 'Source/Lib/Common/Codec/EbVersion.h')
        if os.path.exists(src):
            shutil.copy(src, os.path.join(gen, 'EbVersion.h'))
        for u in units:
            u['args'] = [('-I' + gen) if (a.startswith('-I') and a[2:].startswith(b)) else a for a in u['args']]
        shutil.rmtree(b, ignore_errors=True)
        json.dump(units, open(cdb + '.tmp', 'w'))
        os.replace(cdb + '.tmp', cdb)
    return json.load(open(cdb))


def unit_class(path):
    rel = os.path.relpath(path, REPO)
    parts = rel.split('/')
    if parts[:2] == ['Source', 'Lib']:
        return parts[2], parts[3]       # (Common|Encoder|Decoder, Codec|Globals|C_DEFAULT|ASM_*)
    if parts[:2] == ['Source', 'App']:
        return 'App', parts[2]
    return 'Other', parts[0]


def wanted_units(cdb):
    out = []
    for u in cdb:
        rel = os.path.relpath(u['file'], REPO)
        if any(rel.startswith(d + '/') for d in LIB_DIRS) or rel in APP_UNITS:
            out.append(u)
    return out


def headers_hash():
    h = hashlib.sha256()
    for p in source_listing():
        if p.endswith(('.h', '.inc')):
            h.update(p.encode()); h.update(file_hash(p).encode())
    h.update(file_hash(EXTRACTOR).encode())
    return h.hexdigest()[:20]


def extract_all(config='prod', extra_flags=(), jobs=16, verbose=False):
    """Returns the facts directory for `config`; extracts what is missing."""
    build_extractor()
    cdb = get_compdb()
    units = wanted_units(cdb)
    hh = headers_hash()
    fdir = os.path.join(CACHE, 'facts-%s-%s' % (config, hh))
    if not os.path.isdir(fdir):
        for e in os.listdir(CACHE):
            if e.startswith('facts-%s-' % config):
                shutil.rmtree(os.path.join(CACHE, e), ignore_errors=True)
        os.makedirs(os.path.join(fdir, 'hdr'), exist_ok=True)
        os.makedirs(os.path.join(fdir, 'units'), exist_ok=True)
    todo = []
    index = []
    for u in units:
        flags = list(u['args']) + list(extra_flags)
        key = sha((file_hash(u['file']) + ' '.join(flags)).encode())
        name = os.path.relpath(u['file'], REPO).replace('/', '@')
        out = os.path.join(fdir, 'units', name + '.' + key + '.json')
        index.append({'file': u['file'], 'facts': out, 'class': unit_class(u['file']), 'flags': flags})
        if not os.path.exists(out):
            # drop stale versions of this unit
            for e in os.listdir(os.path.join(fdir, 'units')):
                if e.startswith(name + '.'):
                    os.remove(os.path.join(fdir, 'units', e))
            todo.append((u['file'], flags, out))

    def run(job):
        f, flags, out = job
        light = ['--light'] if '/ASM_' in f else []
        cmd = [EXTRACTOR] + light + ['--out', out, '--hdrdir', os.path.join(fdir, 'hdr'), '--root', REPO.rstrip('/') + '/', f, '--'] + flags + \
              ['-resource-dir', RESOURCE_DIR, '-w', '-Wno-everything']
        r = subprocess.run(cmd, capture_output=True, text=True)
        if r.returncode != 0 or not os.path.exists(out):
            return (f, r.stderr[-1500:])
        return None

    t = time.time()
    errs = []
    if todo:
        with ThreadPoolExecutor(max_workers=jobs) as ex:
            for res in ex.map(run, todo):
                if res:
                    errs.append(res)
    if errs:
        raise AnalysisBroken('units failed to parse: ' + '; '.join('%s: %s' % e for e in errs[:3]))
    if verbose:
        print('extracted %d/%d units in %.1fs' % (len(todo), len(units), time.time() - t), file=sys.stderr)
    return fdir, index, len(cdb)


def extract_witness(name, text, like_unit_suffix):
    """Run the extractor on a small generated translation unit (`text`) with the compile flags of the repository unit whose
    path ends with `like_unit_suffix`; returns the parsed facts.  Used for constant-evaluation witnesses (clang's constant
    evaluator decides the values; nothing is executed)."""
    build_extractor()
    cdb = get_compdb()
    like = [u for u in cdb if u['file'].endswith(like_unit_suffix)]
    if not like:
        raise AnalysisBroken('no unit %s in the compile database' % like_unit_suffix)
    flags = like[0]['args']
    wd = os.path.join(CACHE, 'witness')
    os.makedirs(wd, exist_ok=True)
    key = sha((text + ' '.join(flags) + headers_hash()).encode())
    src = os.path.join(wd, '%s.%s.c' % (name, key))
    out = os.path.join(wd, '%s.%s.json' % (name, key))
    if not os.path.exists(out):
        for e in os.listdir(wd):
            if e.startswith(name + '.'):
                os.remove(os.path.join(wd, e))
        open(src, 'w').write(text)
        cmd = [EXTRACTOR, '--out', out, '--root', wd + '/', src, '--'] + flags + ['-I' + os.path.dirname(like[0]['file']),
                                                                                 '-resource-dir', RESOURCE_DIR, '-w', '-Wno-everything']
        r = subprocess.run(cmd, capture_output=True, text=True)
        if r.returncode != 0 or not os.path.exists(out):
            raise AnalysisBroken('witness %s does not compile: %s' % (name, r.stderr[-1200:]))
    return json.load(open(out))


if __name__ == '__main__':
    t = time.time()
    fdir, index, n = extract_all(verbose=True)
    print(fdir, len(index), 'units', '%.1fs' % (time.time() - t))
