"""Symbolic path summary of a small loop-free function: the set of (path condition, returned expression) pairs with
every local substituted by its defining expression, parameters renamed by position and members named by their
type-qualified field id (so `seq->order_hint_info.order_hint_bits` and `oh->order_hint_bits` are the same leaf).
Two functions with equal summaries compute the same result on every input, whatever they call their locals and
however they split the computation into statements.  Functions with loops, calls with side effects on locals
(`&x`) or stores to non-locals are outside the language: summary() returns None for them (never a guess)."""
from .facts import strip

COMM = {'+', '*', '&', '|', '^', '==', '!=', '&&', '||'}


def _subst(e, env, pnames):
    e = strip(e)
    if e is None:
        return '?'
    k = e[0]
    if k == 'l':
        return str(e[1])
    if k == 'v':
        if e[1] in env:
            return env[e[1]]
        if e[1] in pnames:
            return pnames[e[1]]
        return 'free:' + e[1]
    if k == 'm':
        return '.' + e[1]
    if k == 'u':
        return '%s(%s)' % (e[1], _subst(e[2], env, pnames))
    if k == 'b':
        a, b = _subst(e[2], env, pnames), _subst(e[3], env, pnames)
        if e[1] in COMM and b < a:
            a, b = b, a
        return '(%s %s %s)' % (a, e[1], b)
    if k == 'q':
        return '(%s ? %s : %s)' % (_subst(e[1], env, pnames), _subst(e[2], env, pnames), _subst(e[3], env, pnames))
    if k == 'c':
        c = strip(e[1])
        return '%s(%s)' % (c[1] if c and c[0] == 'f' else '?', ','.join(_subst(a, env, pnames) for a in e[2]))
    if k == 'i':
        return '%s[%s]' % (_subst(e[1], env, pnames), _subst(e[2], env, pnames))
    return '?' + k


def _is_assert(blk):
    for ev in blk['ev']:
        if ev['k'] == 'call':
            c = strip(ev['e'][1])
            if c and c[0] == 'f' and c[1] == '__assert_fail':
                return True
    return False


def summary(g, max_paths=64):
    if g.nocfg:
        return None
    pnames = {pn: 'a%d' % i for i, (pn, pt) in enumerate(g.params)}
    out = set()
    stack = [(g.entry, {}, (), frozenset())]
    npaths = 0
    while stack:
        b, env, pc, seen = stack.pop()
        if b in seen:
            return None                      # loop
        seen = seen | {b}
        blk = g.blocks[b]
        env = dict(env)
        returned = False
        for ev in blk['ev']:
            e = ev.get('e')
            if ev['k'] == 'decl':
                env[ev['n']] = _subst(e, env, pnames) if e is not None else 'undef'
            elif ev['k'] == 'st':
                t = strip(e[2]) if e[0] in ('a', 'u') else None
                if t is None or t[0] != 'v' or t[2] in ('g', 's'):
                    return None              # store to memory: outside the language
                if e[0] == 'a' and e[1] == '=':
                    env[t[1]] = _subst(e[3], env, pnames)
                elif e[0] == 'a':
                    env[t[1]] = '(%s %s %s)' % (env.get(t[1], pnames.get(t[1], 'free:' + t[1])), e[1][:-1], _subst(e[3], env, pnames))
                else:
                    return None
            elif ev['k'] == 'ret':
                out.add((pc, _subst(e, env, pnames) if e is not None else 'void'))
                returned = True
                break
        if returned:
            npaths += 1
            if npaths > max_paths:
                return None
            continue
        succ = [s for s in blk['succ'] if s is not None]
        c = blk.get('cond')
        if len(succ) == 2 and c is not None:
            # assert(c) compiled in: the failing arm is not behaviour; follow the arm where the assertion holds and record no
            # path condition, so summaries agree with and without NDEBUG
            dead = [s for s in succ if _is_assert(g.blocks[s])]
            if len(dead) == 1:
                stack.append(([s for s in succ if s not in dead][0], env, pc, seen))
                continue
        if len(succ) == 2 and c is not None:
            cs = _subst(c, env, pnames)
            stack.append((succ[0], env, pc + ((cs, True),), seen))
            stack.append((succ[1], env, pc + ((cs, False),), seen))
        elif len(succ) == 1:
            stack.append((succ[0], env, pc, seen))
        elif not succ:
            if b == g.exit:
                continue
        else:
            return None
    return tuple(sorted((tuple(pc), r) for pc, r in out))
