"""Units of measure for superblock-grid quantities (dimension analysis by divisor provenance).

The encoder counts superblocks in two different block sizes: the fixed 64x64 analysis block (`scs->sb_sz`, literal 64,
BLOCK_SIZE_64) and the coding superblock (`scs->sb_size_pix`, 64 or 128).  A count is *in units of D* when it was produced by
dividing a pixel quantity by D (`(w + D - 1) / D`, `w >> log2(D)`); a coordinate is *used in units of D* when it is scaled back
to pixels by D (`x << log2(D)`, `x * D`).  This module resolves, for an expression at a program point,

  size(e)     the canonical block size an expression denotes:   'sb64' | 'sb128' | 'F:<field id>' (a size that varies)
  logsize(e)  same for a log2 quantity (6, 7, svt_log2f(size))
  unit(e)     the block size a count expression is in units of, from its definitions (locals through flow-sensitive
              reaching definitions, members through the agreement of all their live stores)

Nothing is guessed: an expression whose definitions disagree or are opaque has no unit (None) and produces no obligation.
"""
from .facts import strip, subexprs, callee_name
from .reach import ReachingDefs

SIZE_LIT = {64: 'sb64', 128: 'sb128'}
LOG_LIT = {6: 'sb64', 7: 'sb128'}
LOGFN = ('svt_log2f', 'Log2f', 'log2f', 'svt_log2f_c', 'get_msb')


class Units:
    def __init__(self, P, live):
        self.P = P
        self.fstores = {}
        for f in live:
            for ev in f.events(('st',)):
                e = ev['e']
                if e[0] == 'a' and e[1] == '=' and strip(e[2])[0] == 'm':
                    self.fstores.setdefault(strip(e[2])[1], []).append((f, ev, e[3]))
        self._rd = {}
        self._fm = {'size': {}, 'log': {}, 'unit': {}}

    def rd(self, f):
        r = self._rd.get(f.key)
        if r is None:
            r = self._rd[f.key] = ReachingDefs(f)
        return r

    # ---- generic resolution through locals and members
    def _local(self, kind, e, f, ev, depth):
        ds = self.rd(f).at(ev, e[1])
        vals = set()
        if not ds:
            return None
        for d in ds:
            if isinstance(d, tuple):
                return None
            x = d.get('e')
            if d['k'] == 'decl' and x is not None:
                vals.add(self._go(kind, x, f, d, depth + 1))
            elif d['k'] == 'st' and x is not None and x[0] == 'a' and x[1] == '=':
                vals.add(self._go(kind, x[3], f, d, depth + 1))
            else:
                return None
        if len(vals) == 1 and None not in vals:
            return vals.pop()
        return None

    def _field(self, kind, fid, depth):
        memo = self._fm[kind]
        if fid in memo:
            return memo[fid]
        memo[fid] = None
        vals = set()
        n = 0
        for f, ev, rhs in self.fstores.get(fid, ()):
            r = strip(rhs)
            if r and r[0] == 'm' and r[1] == fid:
                continue                     # copy of the same member between two objects
            if kind == 'unit' and r and r[0] == 'l' and r[1] == 0:
                continue                     # reset
            n += 1
            vals.add(self._go(kind, rhs, f, ev, depth + 1))
        r = None
        if n and None not in vals:
            if len(vals) == 1:
                r = vals.pop()
            elif kind in ('size', 'log') and vals <= {'sb64', 'sb128'}:
                r = 'F:' + fid               # a genuine size variable (64 or 128 depending on the configuration)
        memo[fid] = r
        return r

    def _go(self, kind, e, f, ev, depth=0):
        e = strip(e)
        if not e or depth > 8:
            return None
        k = e[0]
        if k == 'v':
            if e[2] in ('g', 's', 'e'):
                return None
            return self._local(kind, e, f, ev, depth)
        if k == 'm':
            return self._field(kind, e[1], depth)
        if k == 'q':
            a, b = self._go(kind, e[2], f, ev, depth + 1), self._go(kind, e[3], f, ev, depth + 1)
            return a if a and a == b else None
        if kind == 'size':
            if k == 'l':
                return SIZE_LIT.get(e[1])
            if k == 'b' and e[1] == '<<' and strip(e[2])[0] == 'l' and strip(e[2])[1] == 1:
                return self._go('log', e[3], f, ev, depth + 1)
            return None
        if kind == 'log':
            if k == 'l':
                return LOG_LIT.get(e[1])
            cn = callee_name(e) or (strip(e[1])[1] if k == 'c' and strip(e[1]) and strip(e[1])[0] == 'v' else None)
            if k == 'c' and cn in LOGFN and e[2]:
                return self._go('size', e[2][0], f, ev, depth + 1)
            return None
        # unit of a count
        if k == 'b':
            if e[1] == '/':
                return self._go('size', e[3], f, ev, depth + 1)
            if e[1] == '>>':
                return self._go('log', e[3], f, ev, depth + 1)
            if e[1] in ('+', '-'):
                a, b = strip(e[2]), strip(e[3])
                if b and b[0] == 'l':
                    return self._go('unit', a, f, ev, depth + 1)
                if a and a[0] == 'l':
                    return self._go('unit', b, f, ev, depth + 1)
                ua, ub = self._go('unit', a, f, ev, depth + 1), self._go('unit', b, f, ev, depth + 1)
                return ua if ua and ua == ub else None
        return None

    def size(self, e, f, ev):
        return self._go('size', e, f, ev)

    def logsize(self, e, f, ev):
        return self._go('log', e, f, ev)

    def unit(self, e, f, ev):
        return self._go('unit', e, f, ev)


def summands(e):
    """leaves of a +/- tree (casts dropped)"""
    e = strip(e)
    if e and e[0] == 'b' and e[1] in ('+', '-'):
        return summands(e[2]) + summands(e[3])
    return [e] if e else []
